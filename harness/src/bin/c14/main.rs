//! C14 — journal-backed zones survive a stop at any point.
//!
//! Real code: `SqliteZoneHandler::try_from_config` on a scratch dir (zone file + journal file on
//! /dev/shm), C12-style UPDATE history through `Catalog::handle_request`. Recorded per message from
//! the LIVE hickory handler (never from refupdate): ack rcode, snapshot S_i, serial, journal row
//! count J_i (through `Journal::conn()`).
//!
//! Crash points:
//!  (a) row cut: for every k in [0, J_n] the journal file is copied, rows with rowid > k deleted
//!      through rusqlite (every insert is its own autocommit), and reopened with try_from_config;
//!  (b) real stop: a child process (this binary, `--child=1`) replays the same history with hook H5
//!      armed to abort() before insert k+1; the parent recovers from the files left behind and also
//!      checks that the result equals the row cut at the same k;
//!  (c) schema set-up windows: journal files in the states a stop between the individual
//!      (autocommitted) statements of `Journal::from_file` leaves behind, rebuilt statement by
//!      statement with rusqlite.
//!
//! Oracle (statement of C14):
//!  * `recovery-ok`: try_from_config returns Ok, no panic;
//!  * `recovered-state`: for J_{m-1} < k < J_m the recovered snapshot is S_{m-1} or S_m; for
//!    k = J_m it is S_m; for a stop before the initial dump completed it is S_0 (the zone file is
//!    still there, nothing was ever acknowledged);
//!  * `recovered-serial`: recovered serial >= every serial acknowledged before the stop (RFC 1982);
//!  * `continuation`: a continuation history applied in lock-step to the handler that never stopped
//!    and to the handler recovered at the final message boundary agrees on every rcode, snapshot
//!    and serial;
//!  * (b) and (a) are compared for the same k (`real_stop_equals_row_cut`); a disagreement is NOT a verdict:
//!    it means the row-cut model does not describe this tree's commit granularity (found by the
//!    property-preserving seeded change C14-n1, which wraps the rows of one update in a transaction) —
//!    counted `info_row_cut_model_differs_from_real_stop/*`, the model's findings for that window class
//!    in that history are withdrawn, the real stop is judged directly by the clauses above.
//! Signature = crash-window class {schema-setup, inside-initial-dump, inside-update-rows,
//! after-rows-before-soa-row, message-boundary} x symptom {recovery-error, recovery-panic,
//! missing-apex, half-applied, content-new-serial-old, content-old-serial-new,
//! lost-acknowledged-update, differs, serial-below-acknowledged}.
//!
//! Don't-cares: none beyond C12's (this check never consults the RFC model for verdicts).

#[path = "../c12/reftsig.rs"]
mod reftsig;
#[path = "../c12/refupdate.rs"]
mod refupdate;
#[path = "../c12/zonekit.rs"]
mod zonekit;

use std::path::{Path, PathBuf};
use std::sync::Arc;

use hickory_server::zone_handler::AxfrPolicy;
use serde_json::{json, Value};

use refupdate::*;
use vh::mon::{self, Ctx, Reporter};
use vh::prng::{fnv64, Rng};
use zonekit::*;

const NOW: u64 = 1_700_000_000;

struct Recorded {
    zone0: Zone,
    msgs: Vec<UpdMsg>,
    wires: Vec<Vec<u8>>,
    acks: Vec<u8>,
    /// S_0 ..= S_n
    snaps: Vec<Snap>,
    /// J_0 ..= J_n
    rows: Vec<i64>,
    /// the live handler went on (and was destroyed by a C12 finding) after the last recorded message
    truncated: bool,
}

fn new_rt() -> tokio::runtime::Runtime {
    tokio::runtime::Builder::new_current_thread().enable_all().start_paused(true).build().expect("rt")
}

fn row_count(rt: &tokio::runtime::Runtime, h: &Handler) -> i64 {
    rt.block_on(async {
        let g = h.journal().await;
        let j = g.as_ref().expect("journal attached");
        let n: i64 = j.conn().query_row("SELECT COALESCE(MAX(_rowid_), 0) FROM records", [], |r| r.get(0)).unwrap_or(-1);
        n
    })
}

fn wire_of(id: u16, m: &UpdMsg) -> Vec<u8> {
    signed_update(id, m, &default_key(), NOW)
}

/// Run the history on a fresh dir; returns the recording and the live handler.
fn run_live(rt: &tokio::runtime::Runtime, env: &Env, zone0: &Zone, fixed: Option<&[UpdMsg]>, rng: Option<&mut Rng>, len: usize) -> Result<(Recorded, Arc<Handler>), String> {
    env.write_zone(&zone_text(zone0));
    let _ = std::fs::remove_file(env.dir.join("z.jrnl"));
    let h = Arc::new(rt.block_on(env.open("z.jrnl", AxfrPolicy::Deny))?);
    let cat = catalog_for(&h);
    let s0 = snapshot(rt, &h);
    if s0.to_zone() != *zone0 {
        return Err("initial snapshot differs from the generated zone".into());
    }
    let mut rec = Recorded { zone0: zone0.clone(), msgs: vec![], wires: vec![], acks: vec![], snaps: vec![s0], rows: vec![row_count(rt, &h)], truncated: false };
    let mut rng = rng;
    let n = fixed.map(|f| f.len()).unwrap_or(len);
    for i in 0..n {
        let state = rec.snaps.last().unwrap().to_zone();
        if state.rrset(&apex(), T_SOA).is_none() {
            break; // a zone without SOA (C12's subject) cannot be journalled meaningfully
        }
        let msg = match fixed {
            Some(f) => f[i].clone(),
            None => {
                let r = rng.as_deref_mut().unwrap();
                let mut m = gen_message(r, &state);
                if r.chance(1, 2) {
                    m.pre.clear(); // more accepted, multi-row updates
                }
                m
            }
        };
        let wire = wire_of(i as u16 + 10, &msg);
        let r = match send(rt, &cat, &wire) {
            Ok(v) if v.len() == 1 => rcode_of(&v[0]).unwrap_or(255),
            Ok(_) => 255,
            Err(SendErr::Parse(_)) => FORMERR,
            Err(SendErr::Panic(p)) => return Err(format!("live handler panicked: {} at {}", p.message, p.location)),
        };
        if r == NOTAUTH || r == REFUSED {
            return Err(format!("harness message rejected by the TSIG gate: {}", rcode_name(r)));
        }
        let after = snapshot(rt, &h);
        if after.to_zone().rrset(&apex(), T_SOA).is_none() || after.to_zone().rrset(&apex(), T_NS).is_none() {
            // C12 finding (apex delete-name destroys the zone): not recorded, history ends here
            rec.truncated = true;
            break;
        }
        rec.msgs.push(msg);
        rec.wires.push(wire);
        rec.acks.push(r);
        rec.snaps.push(after);
        rec.rows.push(row_count(rt, &h));
    }
    Ok((rec, h))
}

enum Recovered {
    Ok(Snap, Arc<Handler>),
    Err(String),
    Panic(String),
}

fn recover(rt: &tokio::runtime::Runtime, env: &Env) -> Recovered {
    match mon::catch(|| rt.block_on(env.open("z.jrnl", AxfrPolicy::Deny))) {
        Ok(Ok(h)) => {
            let h = Arc::new(h);
            match mon::catch(|| snapshot(rt, &h)) {
                Ok(s) => Recovered::Ok(s, h),
                Err(p) => Recovered::Panic(format!("{} at {}", p.message, p.location)),
            }
        }
        Ok(Err(e)) => Recovered::Err(e),
        Err(p) => Recovered::Panic(format!("{} at {}", p.message, p.location)),
    }
}

/// copy zone/key/journal of `live` into `cut` and delete rows > k
fn make_cut(live: &Env, cut: &Env, k: i64) {
    for f in ["z.zone", "k0.key", "z.jrnl"] {
        let _ = std::fs::copy(live.dir.join(f), cut.dir.join(f));
    }
    for side in ["z.jrnl-journal", "z.jrnl-wal", "z.jrnl-shm"] {
        let _ = std::fs::remove_file(cut.dir.join(side));
    }
    let c = rusqlite::Connection::open(cut.dir.join("z.jrnl")).expect("open cut journal");
    c.execute("DELETE FROM records WHERE _rowid_ > ?1", [k]).expect("cut");
}

#[derive(Clone, Debug)]
struct Finding {
    rule: String,
    sig: String,
    k: i64,
    m: usize,
    expected: Value,
    observed: Value,
}

/// window of cut k: (class, message index m (1-based; 0 = before any message))
fn window(rec: &Recorded, k: i64) -> (&'static str, usize) {
    if k < rec.rows[0] {
        return (if k == 0 { "schema-setup" } else { "inside-initial-dump" }, 0);
    }
    for m in 0..rec.rows.len() {
        if k == rec.rows[m] {
            // the last message with this row count (later messages that wrote nothing included)
            let mut mm = m;
            while mm + 1 < rec.rows.len() && rec.rows[mm + 1] == k {
                mm += 1;
            }
            return ("message-boundary", mm);
        }
    }
    for m in 1..rec.rows.len() {
        if rec.rows[m - 1] < k && k < rec.rows[m] {
            let u = rec.msgs[m - 1].upd.len() as i64;
            let class = if k - rec.rows[m - 1] < u { "inside-update-rows" } else { "after-rows-before-soa-row" };
            return (class, m);
        }
    }
    ("beyond-journal", rec.rows.len() - 1)
}

fn content(s: &Snap) -> Vec<(Labels, u16, Vec<u8>, u32)> {
    s.projection_without_serial()
}
use vh::refwire::Labels;

fn judge(rec: &Recorded, k: i64, r: &Recovered, out: &mut Vec<Finding>) {
    let (class, m) = window(rec, k);
    let allowed: Vec<&Snap> = match class {
        "schema-setup" | "inside-initial-dump" => vec![&rec.snaps[0]],
        "message-boundary" => vec![&rec.snaps[m]],
        _ => vec![&rec.snaps[m - 1], &rec.snaps[m]],
    };
    let exp = json!({"window": class, "message": m, "allowed": allowed.iter().map(|s| json!({"serial": s.serial, "zone": s.lines()})).collect::<Vec<_>>()});
    let mut push = |rule: &str, symptom: &str, observed: Value| out.push(Finding { rule: rule.into(), sig: format!("{class}:{symptom}"), k, m, expected: exp.clone(), observed });
    let snap = match r {
        Recovered::Err(e) => {
            push("recovery-ok", "recovery-error", json!({"error": e}));
            return;
        }
        Recovered::Panic(p) => {
            push("recovery-ok", "recovery-panic", json!({"panic": p}));
            return;
        }
        Recovered::Ok(s, _) => s,
    };
    let obs = json!({"serial": snap.serial, "zone": snap.lines()});
    // normal form: empties are hidden state, not zone content
    let same = |a: &Snap, b: &Snap| a.rrs == b.rrs && a.serial == b.serial;
    if !allowed.iter().any(|a| same(a, snap)) {
        let z = snap.to_zone();
        let symptom = if z.rrset(&apex(), T_SOA).is_none() || z.rrset(&apex(), T_NS).is_none() && rec.snaps[0].to_zone().rrset(&apex(), T_NS).is_some() && allowed.iter().all(|a| a.to_zone().rrset(&apex(), T_NS).is_some()) {
            "missing-apex"
        } else if class == "message-boundary" {
            if (0..m).any(|j| same(&rec.snaps[j], snap)) { "lost-acknowledged-update" } else { "differs" }
        } else if allowed.len() == 2 && content(snap) == content(allowed[1]) && serial_gt(allowed[1].serial, snap.serial) {
            // all of the update's content, serial still behind the one that was (or would be) acknowledged
            "content-new-serial-old"
        } else if allowed.len() == 2 && content(snap) == content(allowed[0]) && snap.serial == allowed[1].serial {
            "content-old-serial-new"
        } else {
            "half-applied"
        };
        push("recovered-state", symptom, obs.clone());
    }
    // serial never below the serial acknowledged last before the stop. (If the live handler itself
    // moved the serial backwards with message m — C12's RFC 1982 finding — the step is not judged.)
    let acked_upto = match class {
        "schema-setup" | "inside-initial-dump" => 0,
        "message-boundary" => m,
        _ => m - 1,
    };
    let z = snap.to_zone();
    if z.rrset(&apex(), T_SOA).is_some() {
        let a = rec.snaps[acked_upto].serial;
        let live_next = rec.snaps[m.min(rec.snaps.len() - 1)].serial;
        let live_monotone = live_next == a || serial_gt(live_next, a);
        if live_monotone && snap.serial != a && !serial_gt(snap.serial, a) {
            push("recovered-serial", "serial-below-acknowledged", json!({"recovered_serial": snap.serial, "acknowledged": a, "after_message": acked_upto}));
        }
    }
}

fn case_json(rec: &Recorded, upto_msg: usize, kind: &str, k: i64, cont: &[UpdMsg]) -> Value {
    json!({
        "zone": zone_json(&rec.zone0),
        "zone_text": zone_lines(&rec.zone0),
        "history": rec.msgs[..upto_msg.min(rec.msgs.len())].iter().map(msg_json).collect::<Vec<_>>(),
        "kind": kind,
        "k": k,
        "journal_rows_per_message": rec.rows[..=upto_msg.min(rec.msgs.len())],
        "continuation": cont.iter().map(msg_json).collect::<Vec<_>>(),
    })
}

// ---------------------------------------------------------------------------------------------
// real stop: child process

fn child_main(ctx: &Ctx) -> ! {
    let dir = PathBuf::from(ctx.extra.get("dir").expect("dir"));
    let abort: i64 = ctx.extra.get("abort").expect("abort").parse().expect("abort");
    let case: Value = serde_json::from_str(&std::fs::read_to_string(ctx.extra.get("case").expect("case")).expect("case file")).expect("case json");
    let zone0 = zone_from_json(&case["zone"]);
    let hist: Vec<UpdMsg> = case["history"].as_array().map(|a| a.iter().map(msg_from_json).collect()).unwrap_or_default();
    let rt = new_rt();
    set_clock(NOW);
    let env = Env::new(dir, vec![default_key()]);
    hickory_server::store::sqlite::persistence::verif::abort_after_inserts(abort);
    let _ = run_live(&rt, &env, &zone0, Some(&hist), None, 0);
    std::process::exit(0)
}

/// returns whether the child was stopped by abort()
fn spawn_child(dir: &Path, case_file: &Path, k: i64) -> Result<bool, String> {
    let exe = std::env::current_exe().map_err(|e| e.to_string())?;
    let st = std::process::Command::new(exe)
        .arg("--child=1")
        .arg(format!("--dir={}", dir.display()))
        .arg(format!("--abort={k}"))
        .arg(format!("--case={}", case_file.display()))
        .arg("--out")
        .arg(dir.parent().unwrap_or(Path::new("/tmp")))
        .stdout(std::process::Stdio::null())
        .stderr(std::process::Stdio::null())
        .status()
        .map_err(|e| e.to_string())?;
    Ok(!st.success())
}

// ---------------------------------------------------------------------------------------------
// schema set-up windows (c): the statements of Journal::from_file, one autocommit each

const SCHEMA_STEPS: [&str; 5] = [
    "CREATE TABLE tdns_schema (version INTEGER NOT NULL)",
    "INSERT INTO tdns_schema (version) VALUES (0)",
    "UPDATE tdns_schema SET version = 0",
    "CREATE TABLE records (client_id INTEGER NOT NULL, soa_serial INTEGER NOT NULL, timestamp TEXT NOT NULL, record BLOB NOT NULL)",
    "UPDATE tdns_schema SET version = 1",
];

fn schema_state(dir: &Path, steps: usize) {
    let p = dir.join("z.jrnl");
    let _ = std::fs::remove_file(&p);
    if steps == 0 {
        // stop right after the file was created
        std::fs::write(&p, b"").expect("empty journal file");
        return;
    }
    let c = rusqlite::Connection::open(&p).expect("open");
    for s in &SCHEMA_STEPS[..steps] {
        c.execute(s, []).expect("schema step");
    }
}

struct Work {
    rt: tokio::runtime::Runtime,
    live: Env,
    cut: Env,
    child: Env,
    root: PathBuf,
}

fn check_history(w: &Work, rep: &mut Reporter, zone0: &Zone, fixed: Option<&[UpdMsg]>, rng: &mut Rng, len: usize, only: Option<(&str, i64)>, cont_fixed: Option<&[UpdMsg]>, real_stops: usize) -> Vec<(Finding, Value)> {
    let mut out: Vec<(Finding, Value)> = Vec::new();
    let (rec, live_h) = match run_live(&w.rt, &w.live, zone0, fixed, Some(rng), len) {
        Ok(x) => x,
        Err(e) => {
            rep.count("live_run_failed");
            if e.contains("TSIG gate") {
                rep.inconclusive(&format!("harness: {e}"));
            }
            return out;
        }
    };
    rep.count("histories");
    rep.add("messages", rec.msgs.len() as u64);
    rep.add("messages_acked_noerror", rec.acks.iter().filter(|a| **a == NOERROR).count() as u64);
    rep.add("messages_acked_noerror_with_ds_rr", rec.msgs.iter().zip(rec.acks.iter()).filter(|(m, a)| **a == NOERROR && m.upd.iter().any(|r| r.rtype == T_DS)).count() as u64);
    let jn = *rec.rows.last().unwrap();
    let upto = |m: usize| m; // history prefix needed for a cut in message m's window

    // ---- (a) row cuts
    let mut cut_snaps: Vec<Option<Snap>> = Vec::new();
    for k in 0..=jn {
        if let Some((kind, kk)) = only {
            if kind != "row-cut" || kk != k {
                cut_snaps.push(None);
                continue;
            }
        }
        make_cut(&w.live, &w.cut, k);
        let r = recover(&w.rt, &w.cut);
        let (class, m) = window(&rec, k);
        rep.eval();
        rep.count("row_cuts");
        rep.count(&format!("window/{class}"));
        if class != "message-boundary" || k == jn {
            rep.nontrivial(fnv64(format!("{}|{}|{}", zone_text(zone0), json!(rec.msgs[..m.min(rec.msgs.len())].iter().map(msg_json).collect::<Vec<_>>()), k).as_bytes()));
        }
        let mut fs = Vec::new();
        judge(&rec, k, &r, &mut fs);
        {
            let nf = fs.len();
            rep.sample(|| json!({"case": case_json(&rec, upto(m), "row-cut", k, &[]), "window": class, "oracle_findings": nf}));
        }
        for f in fs {
            let c = case_json(&rec, upto(m), "row-cut", k, &[]);
            out.push((f, c));
        }
        cut_snaps.push(match r {
            Recovered::Ok(s, _) => Some(s),
            _ => None,
        });
    }

    // ---- (b) real stops at sampled k (one per window class present, then random)
    if only.is_none() || only.map(|o| o.0) == Some("real-stop") {
        let mut ks: Vec<i64> = Vec::new();
        if let Some((_, kk)) = only {
            ks.push(kk);
        } else if real_stops > 0 {
            for class in ["inside-initial-dump", "inside-update-rows", "after-rows-before-soa-row", "message-boundary", "schema-setup"] {
                let c: Vec<i64> = (0..=jn).filter(|k| window(&rec, *k).0 == class).collect();
                if !c.is_empty() {
                    ks.push(c[rng.usize_below(c.len())]);
                }
            }
            rng.shuffle(&mut ks);
            ks.truncate(real_stops);
        }
        if !ks.is_empty() {
            let case_file = w.root.join("child-case.json");
            std::fs::write(&case_file, serde_json::to_string(&case_json(&rec, rec.msgs.len(), "real-stop", 0, &[])).unwrap()).expect("case file");
            for k in ks {
                match spawn_child(&w.child.dir, &case_file, k) {
                    Ok(aborted) => {
                        if aborted != (k < jn) {
                            rep.count("child_unexpected_exit");
                            rep.inconclusive(&format!("child process: aborted={aborted} but k={k} J_n={jn}"));
                            continue;
                        }
                    }
                    Err(e) => {
                        rep.inconclusive(&format!("cannot spawn child: {e}"));
                        continue;
                    }
                }
                let r = recover(&w.rt, &w.child);
                let (class, m) = window(&rec, k);
                rep.eval();
                rep.count("real_stops");
                rep.count(&format!("real_stop/{class}"));
                let mut fs = Vec::new();
                judge(&rec, k, &r, &mut fs);
                for f in fs {
                    out.push((f, case_json(&rec, m, "real-stop", k, &[])));
                }
                // (a) is a MODEL of where a stop can leave the journal (every row insert its own commit). Where a
                // real stop recovers something else, the model does not describe this tree (e.g. the rows of one
                // update were made one transaction): the real stop has been judged by the statement above and
                // stands on its own; the disagreement is recorded, and what the model predicted for that window
                // class in this history is withdrawn — a state the process cannot be left in is no witness.
                if let (Recovered::Ok(s, _), Some(Some(c))) = (&r, cut_snaps.get(k as usize)) {
                    if s.rrs != c.rrs || s.serial != c.serial {
                        rep.count(&format!("info_row_cut_model_differs_from_real_stop/{class}"));
                        rep.note("row_cut_model_differs_from_real_stop", json!({"window": class, "k": k, "row_cut_serial": c.serial, "real_stop_serial": s.serial, "meaning": "row-cut verdicts for this window class are withdrawn in the histories where a real stop disagreed; the real stops are judged directly"}));
                        let before = out.len();
                        out.retain(|(f, case)| !(case["kind"] == "row-cut" && f.sig.starts_with(&format!("{class}:"))));
                        rep.add("row_cut_findings_withdrawn_model_differs", (before - out.len()) as u64);
                    } else {
                        rep.count("real_stop_equals_row_cut");
                    }
                }
            }
        }
    }

    // ---- "as if no restart": continuation on the never-stopped handler vs recovered at k = J_n
    if !rec.truncated && (only.is_none() || only.map(|o| o.0) == Some("continuation")) {
        make_cut(&w.live, &w.cut, jn);
        if let Recovered::Ok(s_rec, h_rec) = recover(&w.rt, &w.cut) {
            let cat_live = catalog_for(&live_h);
            let cat_rec = catalog_for(&h_rec);
            let mut cont: Vec<UpdMsg> = Vec::new();
            let n_cont = cont_fixed.map(|c| c.len()).unwrap_or(3);
            let mut live_state = rec.snaps.last().unwrap().clone();
            let _ = s_rec;
            for i in 0..n_cont {
                let z = live_state.to_zone();
                if z.rrset(&apex(), T_SOA).is_none() {
                    break;
                }
                let msg = match cont_fixed {
                    Some(c) => c[i].clone(),
                    None => {
                        let mut m = gen_message(rng, &z);
                        if rng.chance(1, 2) {
                            m.pre.clear();
                        }
                                m
                    }
                };
                cont.push(msg.clone());
                let wire = wire_of(1000 + i as u16, &msg);
                let ra = send(&w.rt, &cat_live, &wire);
                let rb = send(&w.rt, &cat_rec, &wire);
                rep.eval();
                rep.count("continuation_steps");
                let code = |r: &Result<Vec<Vec<u8>>, SendErr>| match r {
                    Ok(v) if v.len() == 1 => rcode_name(rcode_of(&v[0]).unwrap_or(255)).to_string(),
                    Ok(v) => format!("{} responses", v.len()),
                    Err(SendErr::Parse(_)) => "FORMERR(decoder)".to_string(),
                    Err(SendErr::Panic(p)) => format!("panic: {}", p.message),
                };
                let (ca, cb) = (code(&ra), code(&rb));
                if ca.starts_with("panic") || cb.starts_with("panic") {
                    if ca != cb {
                        out.push((Finding { rule: "continuation".into(), sig: "message-boundary:panic-differs".into(), k: jn, m: rec.msgs.len(), expected: json!({"never_stopped": ca}), observed: json!({"recovered": cb}) }, case_json(&rec, rec.msgs.len(), "continuation", jn, &cont)));
                    }
                    break;
                }
                let sa = snapshot(&w.rt, &live_h);
                let sb = snapshot(&w.rt, &h_rec);
                if ca != cb || sa.rrs != sb.rrs || sa.serial != sb.serial {
                    let what = if ca != cb { "rcode-differs" } else if content(&sa) != content(&sb) { "zone-differs" } else { "serial-differs" };
                    out.push((
                        Finding { rule: "continuation".into(), sig: format!("message-boundary:{what}"), k: jn, m: rec.msgs.len(), expected: json!({"never_stopped": {"rcode": ca, "serial": sa.serial, "zone": sa.lines()}}), observed: json!({"recovered": {"rcode": cb, "serial": sb.serial, "zone": sb.lines()}}) },
                        case_json(&rec, rec.msgs.len(), "continuation", jn, &cont),
                    ));
                    break;
                }
                live_state = sa;
            }
            rep.count("continuations");
        }
    }
    drop(live_h);
    out
}

fn main() {
    let ctx = Ctx::from_args("C14");
    if ctx.extra.contains_key("child") {
        child_main(&ctx);
    }
    mon::install_panic_monitor();
    let mut rep = Reporter::new(&ctx);
    set_clock(NOW);
    let tag = if ctx.replay.is_some() { "replay".to_string() } else { format!("s{}", ctx.shard) };
    let root = scratch_root("c14").join(tag);
    let _ = std::fs::remove_dir_all(&root);
    std::fs::create_dir_all(&root).expect("scratch");
    let w = Work { rt: new_rt(), live: Env::new(root.join("live"), vec![default_key()]), cut: Env::new(root.join("cut"), vec![default_key()]), child: Env::new(root.join("child"), vec![default_key()]), root: root.clone() };
    let cleanup = |root: &Path| {
        let _ = std::fs::remove_dir_all(root);
        let _ = std::fs::remove_dir(scratch_root("c14"));
    };

    if let Some(case) = ctx.replay_case() {
        let c = &case["case"];
        let zone0 = zone_from_json(&c["zone"]);
        let hist: Vec<UpdMsg> = c["history"].as_array().map(|a| a.iter().map(msg_from_json).collect()).unwrap_or_default();
        let cont: Vec<UpdMsg> = c["continuation"].as_array().map(|a| a.iter().map(msg_from_json).collect()).unwrap_or_default();
        let kind = c["kind"].as_str().unwrap_or("row-cut").to_string();
        let k = c["k"].as_i64().unwrap_or(0);
        let mut rng = Rng::new(1);
        if let Some(steps) = kind.strip_prefix("schema-state-") {
            let steps: usize = steps.parse().unwrap_or(0);
            for (f, cj) in schema_case(&w, &mut rep, &zone0, steps) {
                rep.violation(&f.rule, &f.sig, cj, f.expected, f.observed);
            }
        } else if kind == "readonly-store" {
            // the refused updates are not part of the verdict; a few restarts of the read-only store
            for _ in 0..4 {
                for (f, cj) in readonly_case(&w, &mut rep, &zone0, &mut rng) {
                    rep.violation(&f.rule, &f.sig, cj, f.expected, f.observed);
                }
            }
        } else {
            for (f, cj) in check_history(&w, &mut rep, &zone0, Some(&hist), &mut rng, 0, Some((&kind, k)), Some(&cont), 1) {
                rep.violation(&f.rule, &f.sig, cj, f.expected, f.observed);
            }
        }
        cleanup(&root);
        rep.replay_finish();
    }

    for class in ["schema-setup", "inside-initial-dump", "inside-update-rows", "after-rows-before-soa-row", "message-boundary"] {
        rep.must(&format!("window/{class}"), 50);
    }
    for class in ["inside-initial-dump", "inside-update-rows", "after-rows-before-soa-row", "message-boundary"] {
        rep.must(&format!("real_stop/{class}"), 1);
    }
    rep.must("row_cuts", 3000);
    rep.must("messages_acked_noerror_with_ds_rr", 100);
    rep.must("continuation_steps", 300);
    rep.must("schema_states", 6);

    let mut rng = ctx.rng("histories");
    // (c) schema set-up windows: deterministic, every shard's first zone
    {
        let mut r = rng.fork();
        let mut z = gen_zone(&mut r);
        fix_serial(&mut z, &mut r);
        for steps in 0..=SCHEMA_STEPS.len() {
            if !ctx.mine(steps as u64) {
                continue;
            }
            for (f, cj) in schema_case(&w, &mut rep, &z, steps) {
                rep.violation(&f.rule, &f.sig, cj, f.expected, f.observed);
            }
        }
    }

    // read-only stores (allow_update = false) with a journal
    let n_ro = ctx.budget(160, 4_000);
    rep.must("readonly_store_restarts", 30);
    for _ in 0..n_ro {
        let mut r = rng.fork();
        let mut zone0 = gen_zone(&mut r);
        fix_serial(&mut zone0, &mut r);
        for (f, cj) in readonly_case(&w, &mut rep, &zone0, &mut r) {
            rep.violation(&f.rule, &f.sig, cj, f.expected, f.observed);
        }
    }

    let n_hist = ctx.budget(640, 20_000);
    let max_len = if ctx.is_thorough() { 12 } else { 6 };
    // real aborts: ~100 per quick run
    let stops_every = if ctx.is_thorough() { 8 } else { 3 };
    for i in 0..n_hist {
        let mut r = rng.fork();
        let mut zone0 = gen_zone(&mut r);
        fix_serial(&mut zone0, &mut r);
        let len = r.urange(1, max_len);
        let real = if i % stops_every == 0 { 3 } else { 0 };
        let fs = check_history(&w, &mut rep, &zone0, None, &mut r, len, None, None, real);
        for (f, cj) in fs {
            rep.violation(&f.rule, &f.sig, cj, f.expected, f.observed);
        }
    }
    cleanup(&root);
    std::process::exit(rep.finish().min(0));
}

/// "delete all RRsets from the apex" destroys the zone (C12 finding, SOA and NS deleted too); the
/// intermediate states it creates are not C14's subject, so C14 histories do not contain it
/// Serial of the generated zone: small most of the time; one zone in four starts just below the
/// 2^32 wrap, just below 2^31, or high enough that an SOA update RR can move the serial forward in
/// RFC 1982 sequence space while moving it down as an integer (journalled serials must survive that).
fn fix_serial(z: &mut Zone, r: &mut Rng) {
    let s = match r.below(8) {
        0 => 0xFFFF_FFFF - r.below(4) as u32,
        1 => 0x7FFF_FFFF - r.below(4) as u32,
        2 => 4_000_000_000 + r.below(1000) as u32,
        _ => r.range(1, 100_000) as u32,
    };
    z.sets.remove(&(apex(), T_SOA));
    z.insert(&apex(), T_SOA, rd_soa("ns1.z.", "h.z.", s, 3600, 600, 86400, 300), 300);
}

/// journal left behind by a stop after `steps` statements of the schema set-up (0 = empty file);
/// nothing was ever acknowledged and the zone file is intact: recovery must give the zone file's zone
/// A store configured with `allow_update = false` still gets a journal (try_from_config creates it on the
/// first start and prefers it over the zone file on every later start). Its update history consists of
/// refused updates only, so after any number of restarts the zone must be the zone file's zone, serial
/// included; and when the operator later switches updates on, the first update applies to that zone.
fn readonly_case(w: &Work, rep: &mut Reporter, zone0: &Zone, rng: &mut Rng) -> Vec<(Finding, Value)> {
    let mut out = Vec::new();
    let env = &w.cut;
    let _ = std::fs::remove_file(env.dir.join("z.jrnl"));
    for side in ["z.jrnl-journal", "z.jrnl-wal", "z.jrnl-shm"] {
        let _ = std::fs::remove_file(env.dir.join(side));
    }
    env.write_zone(&zone_text(zone0));
    env.allow_update.set(false);
    let restarts = rng.urange(1, 3);
    let refused = rng.urange(0, 2);
    let cj = json!({"zone": zone_json(zone0), "zone_text": zone_lines(zone0), "history": [], "kind": "readonly-store", "k": 0, "restarts": restarts, "refused_updates": refused});
    let mut push = |out: &mut Vec<(Finding, Value)>, rule: &str, sig: &str, expected: Value, observed: Value| {
        out.push((Finding { rule: rule.into(), sig: sig.into(), k: 0, m: 0, expected, observed }, cj.clone()));
    };
    let first = mon::catch(|| w.rt.block_on(env.open("z.jrnl", AxfrPolicy::Deny)));
    let Ok(Ok(h)) = first else {
        env.allow_update.set(true);
        return out; // a store that does not start at all is not this case's subject (C20 / config)
    };
    let h = Arc::new(h);
    let s0 = snapshot(&w.rt, &h);
    // updates that the store refuses (not judged here: C13/C12), sent through the real path
    let cat = catalog_for(&h);
    for _ in 0..refused {
        let m = gen_message(rng, &s0.to_zone());
        let _ = send(&w.rt, &cat, &wire_of(77, &m));
    }
    let after_refused = snapshot(&w.rt, &h);
    drop(cat);
    drop(h);
    rep.eval();
    rep.count("readonly_store_cases");
    rep.count("window/readonly-store");
    rep.nontrivial(fnv64(format!("readonly|{}|{restarts}|{refused}", zone_text(zone0)).as_bytes()));
    if after_refused.rrs != s0.rrs || after_refused.serial != s0.serial {
        // a refused update changed the zone: C13's subject, not judged here
        env.allow_update.set(true);
        return out;
    }
    for n in 0..restarts {
        match recover(&w.rt, env) {
            Recovered::Ok(s, _) => {
                rep.count("readonly_store_restarts");
                if s.rrs != s0.rrs || s.serial != s0.serial {
                    let symptom = if s.rrs.is_empty() { "zone-empty" } else if s.rrs != s0.rrs { "zone-differs" } else { "serial-differs" };
                    push(&mut out, "recovered-state", &format!("readonly-store:{symptom}"), json!({"serial": s0.serial, "zone": s0.lines()}), json!({"restart": n + 1, "serial": s.serial, "zone": s.lines()}));
                    break;
                }
            }
            Recovered::Err(e) => {
                push(&mut out, "recovery-ok", "readonly-store:recovery-error", json!("try_from_config returns Ok"), json!({"restart": n + 1, "error": e}));
                break;
            }
            Recovered::Panic(p) => {
                push(&mut out, "recovery-ok", "readonly-store:recovery-panic", json!("try_from_config returns Ok"), json!({"restart": n + 1, "panic": p}));
                break;
            }
        }
    }
    env.allow_update.set(true);
    out
}

fn schema_case(w: &Work, rep: &mut Reporter, zone0: &Zone, steps: usize) -> Vec<(Finding, Value)> {
    let mut out = Vec::new();
    w.cut.write_zone(&zone_text(zone0));
    schema_state(&w.cut.dir, steps);
    let r = recover(&w.rt, &w.cut);
    rep.eval();
    rep.count("schema_states");
    rep.count("window/schema-setup");
    rep.nontrivial(fnv64(format!("schema-state-{steps}").as_bytes()));
    // the expected zone as hickory itself loads it from the zone file
    let _ = std::fs::remove_file(w.live.dir.join("z.jrnl"));
    w.live.write_zone(&zone_text(zone0));
    let Ok(h) = w.rt.block_on(w.live.open("z.jrnl", AxfrPolicy::Deny)) else { return out };
    let s0 = snapshot(&w.rt, &h);
    let rec = Recorded { zone0: zone0.clone(), msgs: vec![], wires: vec![], acks: vec![], snaps: vec![s0], rows: vec![i64::MAX], truncated: false };
    let mut fs = Vec::new();
    // k = 0 < J_0 selects the schema-setup window
    judge(&rec, 0, &r, &mut fs);
    for f in fs {
        let cj = json!({"zone": zone_json(zone0), "zone_text": zone_lines(zone0), "history": [], "kind": format!("schema-state-{steps}"), "k": 0, "statements_committed": &SCHEMA_STEPS[..steps]});
        out.push((f, cj));
    }
    out
}
