//! Upstream RESPONSE messages as the second observation point of C15 ("from upstream messages").
//!
//! * a plain-typed message description (`Msg`/`Rec`) written to wire form with the independent
//!   `vh::refwire` writer (no hickory code involved), with *tagged* RDATA so that every record can be
//!   recognised again in what the cache returns (same tagging scheme as `real.rs`);
//! * an independent reader (`parse`) on top of `vh::refwire::walk`;
//! * the classification model `classify` (M1), written from RFC 2308 §2 / §5 and the C15 statement:
//!   what may the cache hold for the query `(qname, qtype)` after this response was received?
//! * the generator of upstream messages for M1 (`gen_upstream`).
//!
//! Classification (rule of the model, in this order):
//!   1. undecodable / QR=0                                   → transient (never cached)
//!   2. RCODE other than NOERROR / NXDOMAIN (1,2,4..10)      → transient ("transient errors are never cached")
//!   3. TC=1                                                 → transient (RFC 2181 §9: a truncated reply is
//!      ignored and the query repeated; the name server pool does exactly that, the M1 glue mirrors it)
//!   4. unassigned RCODE 11..15, no / several / mismatching question, query type SOA or ANY
//!                                                           → don't-care (opaque, see U1–U4 below)
//!   5. answer section not empty                             → positive entry holding all records of the
//!      three sections (lifetime per the statement: min TTL of the records of the query type or CNAME)
//!   6. answer section empty                                 → negative answer (RFC 2308 §2.1 NXDOMAIN,
//!      §2.2 NODATA) or referral; with an SOA in the *authority* section its negative TTL is
//!      min(SOA TTL, SOA.MINIMUM) (§5); without one there is no negative TTL (D3 of refcache).
//!
//! Don't-cares of this model (each only weakens the check):
//!  U1 unassigned RCODEs: not known to be errors — whatever the cache does is accepted (counted).
//!  U2 question section absent / two questions / question differs from the query the response is
//!     cached under: the transport layers match responses to requests, behaviour here is undefined.
//!  U3 query types SOA and ANY: hickory deliberately treats an SOA of an enclosing zone in any section
//!     as an answer to an SOA query (`DnsResponse::contains_answer`); never generated as keys.
//!  U4 several candidate interpretations of one message are all accepted, the one the cache chose is
//!     identified by the entry's form and SOA serial at the instant of the insert (a `get` at age 0
//!     that is not judged): (a) two SOA records in the authority section — either may be "the" SOA;
//!     (b) an SOA whose owner is not the query name or an ancestor of it — may be used or ignored
//!     (RFC 2308 is silent; hickory has a TODO); (c) empty answer section but a record of the query
//!     type owned by the query name in the authority/additional section (e.g. the NS records of a
//!     delegation when asking for NS): may be kept as a positive entry or as a referral.
//!  U5 a referral (NS records, no SOA) is not a negative answer at all; kept like a negative answer
//!     without negative TTL (only bounded by the negative maximum, D3).

use serde_json::{json, Value};
use vh::prng::Rng;
use vh::refwire::{self as rw, Labels};

use crate::refcache::{Slot, View};

pub const T_A: u16 = 1;
pub const T_NS: u16 = 2;
pub const T_CNAME: u16 = 5;
pub const T_SOA: u16 = 6;
pub const T_PTR: u16 = 12;
pub const T_MX: u16 = 15;
pub const T_TXT: u16 = 16;
pub const T_AAAA: u16 = 28;

pub const RC_NOERROR: u8 = 0;
pub const RC_NXDOMAIN: u8 = 3;

pub fn hex(b: &[u8]) -> String {
    let mut s = String::with_capacity(b.len() * 2);
    for x in b {
        s.push_str(&format!("{x:02x}"));
    }
    s
}

pub fn unhex(s: &str) -> Option<Vec<u8>> {
    let s = s.as_bytes();
    if s.len() % 2 != 0 {
        return None;
    }
    let v = |c: u8| -> Option<u8> {
        match c {
            b'0'..=b'9' => Some(c - b'0'),
            b'a'..=b'f' => Some(c - b'a' + 10),
            b'A'..=b'F' => Some(c - b'A' + 10),
            _ => None,
        }
    };
    let mut out = Vec::with_capacity(s.len() / 2);
    for p in s.chunks(2) {
        out.push(v(p[0])? << 4 | v(p[1])?);
    }
    Some(out)
}

// ---------------------------------------------------------------------------------------------
// writer

pub fn tagged(tag: u32, kind: &str) -> Labels {
    rw::labels_of(&format!("t{tag}.{kind}.test."))
}

#[derive(Clone, Debug)]
pub struct Rec {
    pub owner: Labels,
    pub rtype: u16,
    pub ttl: u32,
    pub tag: u32,
    /// SOA.MINIMUM (SOA records only)
    pub minimum: u32,
}

impl Rec {
    pub fn new(owner: &Labels, rtype: u16, ttl: u32, tag: u32) -> Rec {
        Rec { owner: owner.clone(), rtype, ttl, tag, minimum: 0 }
    }
    pub fn soa(owner: &Labels, ttl: u32, minimum: u32, tag: u32) -> Rec {
        Rec { owner: owner.clone(), rtype: T_SOA, ttl, tag, minimum }
    }
}

/// Tagged RDATA in wire form (names uncompressed). Must agree with `real::mk_rdata`/`tag_of_rdata`.
pub fn rdata_wire(r: &Rec) -> Vec<u8> {
    let mut o = vec![];
    let tag = r.tag;
    match r.rtype {
        T_A => o.extend_from_slice(&tag.to_be_bytes()),
        T_AAAA => o.extend_from_slice(&((0x2001_0db8u128 << 96) | tag as u128).to_be_bytes()),
        T_NS => rw::put_name(&mut o, &tagged(tag, "ns")),
        T_CNAME => rw::put_name(&mut o, &tagged(tag, "cn")),
        T_PTR => rw::put_name(&mut o, &tagged(tag, "ptr")),
        T_MX => {
            o.extend_from_slice(&((tag & 0xffff) as u16).to_be_bytes());
            rw::put_name(&mut o, &tagged(tag, "mx"));
        }
        T_SOA => {
            rw::put_name(&mut o, &rw::labels_of("ns.example.test."));
            rw::put_name(&mut o, &rw::labels_of("hostmaster.example.test."));
            for x in [tag, 7200, 600, 86_400, r.minimum] {
                o.extend_from_slice(&x.to_be_bytes());
            }
        }
        _ => {
            // TXT, one character-string holding the decimal tag
            let s = tag.to_string();
            o.push(s.len() as u8);
            o.extend_from_slice(s.as_bytes());
        }
    }
    o
}

#[derive(Clone, Debug, Default)]
pub struct Msg {
    pub id: u16,
    pub qr: bool,
    pub aa: bool,
    pub tc: bool,
    pub rd: bool,
    pub ra: bool,
    pub rcode: u8,
    pub questions: Vec<(Labels, u16, u16)>,
    /// answers, authorities, additionals
    pub sections: [Vec<Rec>; 3],
}

impl Msg {
    pub fn response(id: u16, rcode: u8, qname: &Labels, qtype: u16) -> Msg {
        Msg { id, qr: true, rd: true, ra: true, rcode, questions: vec![(qname.clone(), qtype, 1)], ..Default::default() }
    }
    pub fn wire(&self) -> Vec<u8> {
        let mut flags: u16 = (self.rcode & 0xf) as u16;
        if self.qr {
            flags |= 0x8000;
        }
        if self.aa {
            flags |= 0x0400;
        }
        if self.tc {
            flags |= 0x0200;
        }
        if self.rd {
            flags |= 0x0100;
        }
        if self.ra {
            flags |= 0x0080;
        }
        let mut out = vec![];
        rw::put_header(
            &mut out,
            &rw::WHeader {
                id: self.id,
                flags,
                qd: self.questions.len() as u16,
                an: self.sections[0].len() as u16,
                ns: self.sections[1].len() as u16,
                ar: self.sections[2].len() as u16,
            },
        );
        for (n, t, c) in &self.questions {
            rw::put_question(&mut out, n, *t, *c);
        }
        for s in &self.sections {
            for r in s {
                rw::put_record(&mut out, &r.owner, r.rtype, 1, r.ttl, &rdata_wire(r));
            }
        }
        out
    }
}

// ---------------------------------------------------------------------------------------------
// independent reader

#[derive(Clone, Debug)]
pub struct PRec {
    pub owner: Labels,
    pub rtype: u16,
    pub class: u16,
    pub ttl: u32,
    pub tag: u32,
    pub minimum: u32,
    /// name inside the RDATA of NS / CNAME / PTR / MX records (folded)
    pub target: Option<Labels>,
}

#[derive(Clone, Debug)]
pub struct PMsg {
    pub id: u16,
    pub qr: bool,
    pub tc: bool,
    pub opcode: u8,
    pub rcode: u8,
    pub questions: Vec<(Labels, u16, u16)>,
    pub sections: [Vec<PRec>; 3],
}

fn tag_of_first_label(n: &Labels) -> u32 {
    n.first()
        .and_then(|l| std::str::from_utf8(l).ok())
        .and_then(|s| s.strip_prefix('t'))
        .and_then(|s| s.parse().ok())
        .unwrap_or(u32::MAX)
}

fn be32(b: &[u8]) -> u32 {
    if b.len() < 4 {
        return u32::MAX;
    }
    u32::from_be_bytes([b[0], b[1], b[2], b[3]])
}

fn parse_rec(msg: &[u8], r: &rw::WRecord) -> Result<PRec, String> {
    let rd = r.rdata(msg);
    let name_at = |off: usize| -> Result<(Labels, usize), String> {
        let (n, next) = rw::read_name(msg, off)?;
        Ok((rw::fold(&n.labels), next))
    };
    let (tag, minimum, target) = match r.rtype {
        T_A => (be32(rd), 0, None),
        T_AAAA => (if rd.len() == 16 { be32(&rd[12..]) } else { u32::MAX }, 0, None),
        T_NS | T_CNAME | T_PTR => {
            let (n, _) = name_at(r.rdata_off)?;
            (tag_of_first_label(&n), 0, Some(n))
        }
        T_MX => {
            let (n, _) = name_at(r.rdata_off + 2)?;
            (tag_of_first_label(&n), 0, Some(n))
        }
        T_SOA => {
            let (_, p) = name_at(r.rdata_off)?;
            let (_, p) = name_at(p)?;
            if p + 20 > r.rdata_off + r.rdata_len {
                return Err("short SOA".into());
            }
            (be32(&msg[p..]), be32(&msg[p + 16..]), None)
        }
        _ => {
            let t = rd
                .first()
                .and_then(|l| rd.get(1..1 + *l as usize))
                .and_then(|s| std::str::from_utf8(s).ok())
                .and_then(|s| s.parse().ok())
                .unwrap_or(u32::MAX);
            (t, 0, None)
        }
    };
    Ok(PRec { owner: rw::fold(&r.owner.labels), rtype: r.rtype, class: r.class, ttl: r.ttl, tag, minimum, target })
}

pub fn parse(wire: &[u8]) -> Result<PMsg, String> {
    let w = rw::walk(wire)?;
    if w.end != wire.len() {
        return Err("trailing bytes".into());
    }
    let mut sections: [Vec<PRec>; 3] = [vec![], vec![], vec![]];
    for (i, s) in w.sections.iter().enumerate() {
        for r in s {
            sections[i].push(parse_rec(wire, r)?);
        }
    }
    Ok(PMsg {
        id: w.header.id,
        qr: w.header.qr(),
        tc: w.header.tc(),
        opcode: w.header.opcode(),
        rcode: w.header.rcode_low(),
        questions: w.questions.iter().map(|q| (rw::fold(&q.name.labels), q.qtype, q.qclass)).collect(),
        sections,
    })
}

/// RFC 2308 §5: the negative TTL carried by an SOA record.
pub fn soa_negative_ttl(soa: &PRec) -> u32 {
    if soa.ttl < soa.minimum {
        soa.ttl
    } else {
        soa.minimum
    }
}

pub fn is_ancestor_or_self(anc: &Labels, name: &Labels) -> bool {
    anc.len() <= name.len() && name[name.len() - anc.len()..] == anc[..]
}

// ---------------------------------------------------------------------------------------------
// M1 model

pub enum UpClass {
    /// admissible interpretations of the message as a cache entry (U4); exactly one in the common case
    Stored(Vec<View>),
    Transient,
    Opaque,
}

pub struct UpModel {
    pub class: UpClass,
    /// response class (counter name component)
    pub label: &'static str,
    /// further structural features (counters)
    pub features: Vec<&'static str>,
    /// transient classes: what the entry would look like if the message were cached after all (as a
    /// negative entry with any / no SOA, or as a positive entry) — to attribute a `transient_cached`
    /// violation to the message that was cached
    pub would_be: Vec<View>,
}

fn slot_of(slot: &'static str, r: &PRec) -> Slot {
    Slot { slot, rtype: r.rtype, ttl: r.ttl, tag: r.tag }
}

fn positive_view(m: &PMsg) -> View {
    let mut slots = vec![];
    for (i, name) in ["answer", "authority", "additional"].into_iter().enumerate() {
        for r in &m.sections[i] {
            slots.push(slot_of(name, r));
        }
    }
    View { negative: false, head: m.id as u32, slots }
}

/// The negative entry for a message with an empty answer section, with `soa` as the SOA that carries
/// the negative TTL (None: no negative TTL). Field layout of hickory's `NoRecords` as documented there:
/// negative_ttl, soa, all authority records, the NS records of the authority section each followed by
/// its glue (A/AAAA records of the additional section owned by the NS target).
fn negative_view(m: &PMsg, soa: Option<&PRec>) -> View {
    let mut slots = vec![];
    if let Some(s) = soa {
        slots.push(Slot { slot: "negative_ttl", rtype: 0, ttl: soa_negative_ttl(s), tag: 0 });
        slots.push(slot_of("soa", s));
    }
    for r in &m.sections[1] {
        slots.push(slot_of("neg_authority", r));
    }
    for ns in m.sections[1].iter().filter(|r| r.rtype == T_NS) {
        slots.push(slot_of("ns", ns));
        for g in m.sections[2].iter().filter(|g| (g.rtype == T_A || g.rtype == T_AAAA) && Some(&g.owner) == ns.target.as_ref()) {
            slots.push(slot_of("glue", g));
        }
    }
    // head as `real::observe` reports it: 0 NOERROR, 1 NXDOMAIN, 99 any other response code
    let head = match m.rcode {
        RC_NOERROR => 0,
        RC_NXDOMAIN => 1,
        _ => 99,
    };
    View { negative: true, head, slots }
}

pub fn classify(wire: &[u8], qname: &Labels, qtype: u16) -> UpModel {
    let m = match parse(wire) {
        Ok(m) => m,
        Err(_) => return UpModel { class: UpClass::Transient, label: "undecodable", features: vec![], would_be: vec![] },
    };
    let t = |label| {
        let mut would_be = vec![positive_view(&m), negative_view(&m, None)];
        for s in m.sections[1].iter().filter(|r| r.rtype == T_SOA) {
            would_be.push(negative_view(&m, Some(s)));
        }
        UpModel { class: UpClass::Transient, label, features: vec![], would_be }
    };
    let o = |label| UpModel { class: UpClass::Opaque, label, features: vec![], would_be: vec![] };
    if !m.qr {
        return t("not_a_response");
    }
    if m.opcode != 0 {
        return o("opcode");
    }
    match m.rcode {
        RC_NOERROR | RC_NXDOMAIN => {}
        2 => return t(if m.tc { "servfail_tc" } else { "servfail" }),
        5 => return t("refused"),
        1 => return t("formerr"),
        4 => return t("notimp"),
        6..=10 => return t("other_error_rcode"),
        _ => return o("unassigned_rcode"),
    }
    let nx = m.rcode == RC_NXDOMAIN;
    if m.tc {
        return t(if m.sections[0].is_empty() { "tc_empty" } else { "tc_answer" });
    }
    if m.questions.is_empty() {
        return o("no_question");
    }
    if m.questions.len() > 1 {
        return o("two_questions");
    }
    let q = &m.questions[0];
    if q.0 != rw::fold(qname) || q.1 != qtype || q.2 != 1 {
        return o("question_mismatch");
    }
    if qtype == T_SOA || qtype == 255 {
        return o("qtype_soa_any");
    }
    if m.all().any(|r| r.class != 1) {
        return o("class");
    }
    let mut features = vec![];
    if !m.sections[0].is_empty() {
        let has_q = m.sections[0].iter().any(|r| r.rtype == qtype);
        let has_c = m.sections[0].iter().any(|r| r.rtype == T_CNAME);
        let label = match (nx, has_q, has_c) {
            (false, true, true) => "answer_with_cname",
            (false, true, false) => "answer",
            (false, false, true) => "cname_chain_no_final",
            (false, false, false) => "other_types_only",
            (true, _, true) => "nxdomain_with_cname",
            (true, _, false) => "nxdomain_with_answer",
        };
        if m.sections[1].iter().any(|r| r.rtype == T_SOA) {
            features.push("positive_with_soa");
        }
        return UpModel { class: UpClass::Stored(vec![positive_view(&m)]), label, features, would_be: vec![] };
    }
    // ---- empty answer section
    let fq = rw::fold(qname);
    let soas: Vec<&PRec> = m.sections[1].iter().filter(|r| r.rtype == T_SOA).collect();
    let has_ns = m.sections[1].iter().any(|r| r.rtype == T_NS);
    let related = soas.iter().filter(|s| is_ancestor_or_self(&s.owner, &fq)).count();
    let mut cands = vec![];
    for s in &soas {
        cands.push(negative_view(&m, Some(s)));
    }
    if related == 0 {
        cands.push(negative_view(&m, None));
    }
    let elsewhere = m.sections[1].iter().chain(m.sections[2].iter()).any(|r| r.rtype == qtype && r.owner == fq);
    if elsewhere {
        cands.push(positive_view(&m));
        features.push("qtype_outside_answer");
    }
    let label = match (nx, soas.len(), has_ns) {
        (true, 0, _) => "nxdomain_no_soa",
        (true, _, _) => "nxdomain_with_soa",
        (false, 0, true) => "referral",
        (false, 0, false) => "nodata_no_soa",
        (false, _, _) => "nodata_with_soa",
    };
    if let Some(s) = soas.first() {
        features.push(if s.ttl < s.minimum {
            "soa_ttl_lt_minimum"
        } else if s.ttl > s.minimum {
            "soa_ttl_gt_minimum"
        } else {
            "soa_ttl_eq_minimum"
        });
        features.push(if s.owner == fq {
            "soa_at_qname"
        } else if is_ancestor_or_self(&s.owner, &fq) {
            "soa_above_qname"
        } else {
            "soa_unrelated"
        });
    }
    if soas.len() > 1 {
        features.push("two_soa");
    }
    if has_ns {
        features.push(if soas.is_empty() { "ns_no_soa" } else { "ns_and_soa" });
        let glue = m.sections[1].iter().filter(|r| r.rtype == T_NS).any(|ns| {
            m.sections[2].iter().any(|g| (g.rtype == T_A || g.rtype == T_AAAA) && Some(&g.owner) == ns.target.as_ref())
        });
        features.push(if glue { "ns_with_glue" } else { "ns_without_glue" });
    }
    if m.sections[2].iter().any(|r| r.rtype == T_SOA) || m.sections[0].iter().any(|r| r.rtype == T_SOA) {
        features.push("soa_outside_authority");
    }
    if m.sections[2].iter().any(|r| r.rtype == T_SOA) && soas.is_empty() {
        features.push("soa_only_in_additional");
    }
    UpModel { class: UpClass::Stored(cands), label, features, would_be: vec![] }
}

impl PMsg {
    pub fn all(&self) -> impl Iterator<Item = &PRec> {
        self.sections.iter().flat_map(|s| s.iter())
    }
}

/// Human-readable rendering of a wire message for witnesses (next to the hex).
pub fn describe(wire: &[u8]) -> Value {
    match parse(wire) {
        Err(e) => json!({"undecodable": e}),
        Ok(m) => {
            let sec = |i: usize| -> Vec<Value> {
                m.sections[i]
                    .iter()
                    .map(|r| {
                        if r.rtype == T_SOA {
                            json!([rw::show(&r.owner), r.rtype, r.ttl, r.tag, {"minimum": r.minimum}])
                        } else {
                            json!([rw::show(&r.owner), r.rtype, r.ttl, r.tag])
                        }
                    })
                    .collect()
            };
            json!({
                "id": m.id, "qr": m.qr, "tc": m.tc, "rcode": m.rcode,
                "questions": m.questions.iter().map(|q| json!([rw::show(&q.0), q.1, q.2])).collect::<Vec<_>>(),
                "answer": sec(0), "authority": sec(1), "additional": sec(2),
                "record": "[owner, type, ttl, tag]",
            })
        }
    }
}

// ---------------------------------------------------------------------------------------------
// M1 generator

fn parent(n: &Labels, up: usize) -> Labels {
    n[up.min(n.len())..].to_vec()
}

/// One upstream response for the query `(qname, qtype)`. `tag` hands out fresh record tags,
/// `ttl` draws a TTL (shared with the history generator so that the same boundary values occur).
pub fn gen_upstream(rng: &mut Rng, qname: &Labels, qtype: u16, tag: &mut dyn FnMut() -> u32, ttl: &mut dyn FnMut(&mut Rng) -> u32) -> Vec<u8> {
    let rcode = match rng.weighted(&[44, 30, 6, 6, 2, 2, 1, 1, 1, 1, 1, 1]) {
        0 => RC_NOERROR,
        1 => RC_NXDOMAIN,
        2 => 2,
        3 => 5,
        4 => 1,
        5 => 4,
        6 => 6,
        7 => 7,
        8 => 8,
        9 => 9,
        10 => 10,
        _ => rng.range(11, 15) as u8,
    };
    let mut m = Msg { id: rng.u16(), qr: !rng.chance(1, 60), aa: rng.bool(), tc: rng.chance(1, 14), rd: rng.bool(), ra: rng.bool(), rcode, ..Default::default() };
    let other_name = rw::labels_of("elsewhere.example.test.");
    match rng.weighted(&[88, 4, 3, 3, 2]) {
        0 => m.questions.push((qname.clone(), qtype, 1)),
        1 => {}
        2 => m.questions.push((other_name.clone(), qtype, 1)),
        3 => m.questions.push((qname.clone(), if qtype == T_TXT { T_A } else { T_TXT }, 1)),
        _ => {
            m.questions.push((qname.clone(), qtype, 1));
            m.questions.push((other_name.clone(), qtype, 1));
        }
    }
    let other_type = |rng: &mut Rng| loop {
        let t = *rng.pick(&[T_A, T_AAAA, T_TXT, T_MX, T_PTR, T_NS]);
        if t != qtype {
            return t;
        }
    };
    // ---- answer section
    let error_rcode = rcode != RC_NOERROR && rcode != RC_NXDOMAIN;
    let shape = if error_rcode { rng.weighted(&[80, 5, 5, 10, 0]) } else { rng.weighted(&[58, 13, 8, 12, 9]) };
    let mut owner = qname.clone();
    let chain = |rng: &mut Rng, m: &mut Msg, owner: &mut Labels, tag: &mut dyn FnMut() -> u32, ttl: &mut dyn FnMut(&mut Rng) -> u32| {
        for _ in 0..rng.range(1, 3) {
            let t = tag();
            m.sections[0].push(Rec::new(owner, T_CNAME, ttl(rng), t));
            *owner = tagged(t, "cn");
        }
    };
    match shape {
        0 => {}
        1 if qtype != T_CNAME => chain(rng, &mut m, &mut owner, tag, ttl),
        1 | 2 => {
            for _ in 0..rng.range(1, 2) {
                let t = other_type(rng);
                m.sections[0].push(Rec::new(&owner, t, ttl(rng), tag()));
            }
        }
        3 => {
            for _ in 0..rng.range(1, 3) {
                m.sections[0].push(Rec::new(&owner, qtype, ttl(rng), tag()));
            }
        }
        _ => {
            if qtype != T_CNAME {
                chain(rng, &mut m, &mut owner, tag, ttl);
            }
            for _ in 0..rng.range(1, 2) {
                m.sections[0].push(Rec::new(&owner, qtype, ttl(rng), tag()));
            }
        }
    }
    // ---- authority section
    let n_soa = rng.weighted(&[30, 55, 15]);
    let mut auth: Vec<Rec> = vec![];
    for _ in 0..n_soa {
        let soa_owner = match rng.weighted(&[10, 50, 15, 5, 20]) {
            0 => qname.clone(),
            1 => parent(qname, 1),
            2 => parent(qname, 2),
            3 => vec![],
            _ => rw::labels_of(if rng.bool() { "unrelated.invalid." } else { "zzz.example.test." }),
        };
        let a = ttl(rng);
        let (t, mi) = match rng.weighted(&[40, 40, 20]) {
            0 => {
                let b = ttl(rng);
                (a.min(b), a.max(b).max(a.min(b).saturating_add(1)))
            }
            1 => {
                let b = ttl(rng);
                (a.max(b).max(a.min(b).saturating_add(1)), a.min(b))
            }
            _ => (a, a),
        };
        auth.push(Rec::soa(&soa_owner, t, mi, tag()));
    }
    let mut ns_tags = vec![];
    if rng.chance(2, 5) {
        let ns_owner = if qtype == T_NS && rng.chance(1, 3) { qname.clone() } else { parent(qname, rng.urange(1, 2)) };
        for _ in 0..rng.range(1, 2) {
            let t = tag();
            ns_tags.push(t);
            auth.push(Rec::new(&ns_owner, T_NS, ttl(rng), t));
        }
    }
    if rng.chance(1, 12) {
        // junk in the authority section (a record of another type; rarely of the query type at the query name)
        let t = if rng.chance(1, 3) { qtype } else { other_type(rng) };
        let o = if rng.bool() { qname.clone() } else { parent(qname, 1) };
        auth.push(Rec::new(&o, t, ttl(rng), tag()));
    }
    rng.shuffle(&mut auth);
    m.sections[1] = auth;
    // ---- additional section
    for t in &ns_tags {
        if rng.bool() {
            for _ in 0..rng.range(1, 2) {
                let gt = if rng.bool() { T_A } else { T_AAAA };
                m.sections[2].push(Rec::new(&tagged(*t, "ns"), gt, ttl(rng), tag()));
            }
        }
    }
    for _ in 0..rng.weighted(&[55, 30, 15]) {
        match rng.below(10) {
            0 => {
                // an SOA in the wrong section must not be taken for the negative TTL
                let a = ttl(rng);
                let b = ttl(rng);
                m.sections[2].push(Rec::soa(&parent(qname, 1), a, b, tag()));
            }
            1 => m.sections[2].push(Rec::new(qname, qtype, ttl(rng), tag())),
            2 => m.sections[2].push(Rec::new(&other_name, qtype, ttl(rng), tag())),
            _ => {
                let t = *rng.pick(&[T_A, T_AAAA, T_TXT, T_MX]);
                m.sections[2].push(Rec::new(&tagged(tag(), "junk"), t, ttl(rng), tag()));
            }
        }
    }
    m.wire()
}
