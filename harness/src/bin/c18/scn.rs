//! Scenario description for C18 (plain data, self-contained JSON form used for witnesses/replay)
//! and the seeded / enumerated generators.

use serde_json::{json, Value};
use vh::prng::Rng;

/// Scripted behaviour of one (server, protocol) slot. Delays in virtual milliseconds.
#[derive(Clone, Debug, PartialEq)]
pub enum Beh {
    /// full answer after `d`
    Answer { d: u64 },
    /// NXDOMAIN (no answers, SOA in authority) after `d`
    Nx { d: u64 },
    /// TC=1 reply after `d` (UDP slots only)
    Trunc { d: u64 },
    /// never answers: the connection reports `Timeout` after the configured timeout, exactly as
    /// hickory's own UDP/TCP client streams do (they are built with `options.timeout`)
    Silent,
    /// io error after `d`; `reset` = ErrorKind::ConnectionReset (eligible for NameServer's
    /// reconnect-once on a reused connection), otherwise ErrorKind::Other
    IoErr { d: u64, reset: bool },
    /// the first `k` exchanges per query key report `Busy` at once, later ones answer after `d`
    Busy { k: u32, d: u64 },
    /// the connection cannot be established (io error ConnectionRefused after `d`)
    ConnFail { d: u64 },
}

pub const BEH_NAMES: [&str; 7] = ["answer", "nx", "trunc", "silent", "ioerr", "busy", "connfail"];

impl Beh {
    pub fn text(&self) -> String {
        match self {
            Beh::Answer { d } => format!("answer:{d}"),
            Beh::Nx { d } => format!("nx:{d}"),
            Beh::Trunc { d } => format!("trunc:{d}"),
            Beh::Silent => "silent".to_string(),
            Beh::IoErr { d, reset } => format!("ioerr:{d}:{}", if *reset { "reset" } else { "other" }),
            Beh::Busy { k, d } => format!("busy:{k}:{d}"),
            Beh::ConnFail { d } => format!("connfail:{d}"),
        }
    }
    pub fn parse(s: &str) -> Option<Beh> {
        let p: Vec<&str> = s.split(':').collect();
        let n = |i: usize| p.get(i).and_then(|x| x.parse::<u64>().ok());
        Some(match p[0] {
            "answer" => Beh::Answer { d: n(1)? },
            "nx" => Beh::Nx { d: n(1)? },
            "trunc" => Beh::Trunc { d: n(1)? },
            "silent" => Beh::Silent,
            "ioerr" => Beh::IoErr { d: n(1)?, reset: p.get(2) == Some(&"reset") },
            "busy" => Beh::Busy { k: n(1)? as u32, d: n(2)? },
            "connfail" => Beh::ConnFail { d: n(1)? },
            _ => return None,
        })
    }
}

#[derive(Clone, Debug, PartialEq)]
pub struct Server {
    pub udp: Option<Beh>,
    pub tcp: Option<Beh>,
    /// NameServerConfig::trust_negative_responses
    pub trust_nx: bool,
}

impl Server {
    pub fn slot(&self, proto: u8) -> Option<&Beh> {
        match proto {
            1 => self.udp.as_ref(),
            2 => self.tcp.as_ref(),
            _ => None,
        }
    }
    pub fn slots(&self) -> impl Iterator<Item = (u8, &Beh)> {
        self.udp.iter().map(|b| (1u8, b)).chain(self.tcp.iter().map(|b| (2u8, b)))
    }
}

#[derive(Clone, Copy, Debug, PartialEq, Eq)]
pub enum Strat {
    Qs,
    User,
    Rr,
}

impl Strat {
    pub const ALL: [Strat; 3] = [Strat::Qs, Strat::User, Strat::Rr];
    pub fn name(&self) -> &'static str {
        match self {
            Strat::Qs => "qs",
            Strat::User => "user",
            Strat::Rr => "rr",
        }
    }
    pub fn parse(s: &str) -> Option<Strat> {
        Strat::ALL.iter().copied().find(|x| x.name() == s)
    }
}

#[derive(Clone, Debug, PartialEq)]
pub struct Caller {
    /// index of the query key (name `q<idx>.c18.example.`, type A)
    pub q: u8,
    /// start offset (virtual ms after the scenario start)
    pub at: u64,
    /// the caller drops its lookup future after this many ms (client-side cancellation)
    pub cancel: Option<u64>,
}

#[derive(Clone, Debug, PartialEq)]
pub struct Scenario {
    pub servers: Vec<Server>,
    pub strat: Strat,
    /// ResolverOpts::num_concurrent_reqs
    pub conc: usize,
    /// ResolverOpts::timeout in ms
    pub timeout: u64,
    /// per server: number of zero-time failed exchanges recorded before the scenario starts
    /// (distinct values pin the QueryStatistics order; empty = fresh pool)
    pub warm: Vec<u8>,
    pub callers: Vec<Caller>,
    /// after everything completed, one more lookup of key callers[0].q
    pub later: bool,
}

impl Scenario {
    pub fn to_json(&self) -> Value {
        json!({
            "servers": self.servers.iter().map(|s| json!({
                "udp": s.udp.as_ref().map(|b| b.text()),
                "tcp": s.tcp.as_ref().map(|b| b.text()),
                "trust_nx": s.trust_nx,
            })).collect::<Vec<_>>(),
            "strategy": self.strat.name(),
            "num_concurrent_reqs": self.conc,
            "timeout_ms": self.timeout,
            "warm_failures": self.warm,
            "callers": self.callers.iter().map(|c| json!({"q": c.q, "at_ms": c.at, "cancel_after_ms": c.cancel})).collect::<Vec<_>>(),
            "later_identical_query": self.later,
        })
    }

    pub fn from_json(v: &Value) -> Option<Scenario> {
        let mut servers = Vec::new();
        for s in v.get("servers")?.as_array()? {
            let slot = |k: &str| -> Option<Option<Beh>> {
                match s.get(k) {
                    None | Some(Value::Null) => Some(None),
                    Some(Value::String(t)) => Some(Some(Beh::parse(t)?)),
                    _ => None,
                }
            };
            servers.push(Server { udp: slot("udp")?, tcp: slot("tcp")?, trust_nx: s.get("trust_nx")?.as_bool()? });
        }
        let mut callers = Vec::new();
        for c in v.get("callers")?.as_array()? {
            callers.push(Caller {
                q: c.get("q")?.as_u64()? as u8,
                at: c.get("at_ms")?.as_u64()?,
                cancel: c.get("cancel_after_ms").and_then(|x| x.as_u64()),
            });
        }
        Some(Scenario {
            servers,
            strat: Strat::parse(v.get("strategy")?.as_str()?)?,
            conc: v.get("num_concurrent_reqs")?.as_u64()? as usize,
            timeout: v.get("timeout_ms")?.as_u64()?,
            warm: v.get("warm_failures")?.as_array()?.iter().filter_map(|x| x.as_u64().map(|y| y as u8)).collect(),
            callers,
            later: v.get("later_identical_query")?.as_bool()?,
        })
    }

    pub fn canonical(&self) -> String {
        self.to_json().to_string()
    }

    /// non-trivial per DESIGN App. B: at least two servers and at least one fault
    pub fn nontrivial(&self) -> bool {
        self.servers.len() >= 2
            && self.servers.iter().any(|s| s.slots().any(|(_, b)| !matches!(b, Beh::Answer { .. })))
    }

    pub fn keys(&self) -> Vec<u8> {
        let mut k: Vec<u8> = self.callers.iter().map(|c| c.q).collect();
        k.sort_unstable();
        k.dedup();
        k
    }
}

// ---------------------------------------------------------------------------------------------
// generators

fn pick_delay(rng: &mut Rng, t: u64, min: u64) -> u64 {
    let d = match rng.weighted(&[70, 15, 15]) {
        0 => *rng.pick(&[0, 1, 10, t / 10]),
        1 => *rng.pick(&[t / 4, t / 2]),
        _ => *rng.pick(&[t * 9 / 10, t - 1]),
    };
    d.max(min)
}

fn gen_beh(rng: &mut Rng, t: u64, udp: bool, has_tcp: bool) -> Beh {
    //                         answer nx trunc silent ioerr busy connfail
    let w: [u32; 7] = [30, 12, if udp { if has_tcp { 14 } else { 4 } } else { 0 }, 10, 14, 10, 8];
    match rng.weighted(&w) {
        0 => Beh::Answer { d: pick_delay(rng, t, 0) },
        1 => Beh::Nx { d: pick_delay(rng, t, 0) },
        // a truncated reply always takes ≥ 1 ms (keeps a retry loop from spinning at one instant)
        2 => Beh::Trunc { d: pick_delay(rng, t, 1) },
        3 => Beh::Silent,
        4 => {
            let d = pick_delay(rng, t, 0);
            // ConnectionReset only with zero delay: keeps every pool round ≤ one timeout so that
            // the overrun class of the known deadline finding is stable (see oracle::deadline)
            Beh::IoErr { d, reset: d == 0 && rng.bool() }
        }
        5 => Beh::Busy { k: *rng.pick(&[1, 1, 2, 3, 4, 5, 7]), d: pick_delay(rng, t, 0) },
        _ => Beh::ConnFail { d: pick_delay(rng, t, 0) },
    }
}

fn gen_server(rng: &mut Rng, t: u64, mode: usize) -> Server {
    // mode: 0 udp-only, 1 tcp-only, 2 both, 3 mixed per server
    let mode = if mode == 3 { rng.usize_below(3) } else { mode };
    let (has_udp, has_tcp) = match mode {
        0 => (true, false),
        1 => (false, true),
        _ => (true, true),
    };
    let udp = has_udp.then(|| gen_beh(rng, t, true, has_tcp));
    let tcp = has_tcp.then(|| match &udp {
        Some(Beh::Trunc { .. }) if rng.chance(2, 3) => Beh::Answer { d: *rng.pick(&[0, 1, 10, t / 10]) },
        Some(b) if !matches!(b, Beh::Trunc { .. }) && rng.chance(2, 5) => b.clone(),
        _ => gen_beh(rng, t, false, true),
    });
    Server { udp, tcp, trust_nx: rng.bool() }
}

/// a server that is "fast answering", "failing at once" or "trusted NXDOMAIN at once"
/// (the classes of the conservative availability clause)
fn gen_avail_server(rng: &mut Rng, t: u64, mode: usize, fast: bool) -> Server {
    let mode = if mode == 3 { rng.usize_below(3) } else { mode };
    let half = t / 2;
    let fast_d = |rng: &mut Rng| *rng.pick(&[0, 1, 10, t / 10, t / 4, half]);
    if fast {
        match mode {
            0 => Server { udp: Some(Beh::Answer { d: fast_d(rng) }), tcp: None, trust_nx: rng.bool() },
            1 => Server { udp: None, tcp: Some(Beh::Answer { d: fast_d(rng) }), trust_nx: rng.bool() },
            _ => {
                if rng.bool() {
                    let d1 = *rng.pick(&[1, 10, t / 10, t / 4]);
                    let d2 = *rng.pick(&[0, 1, 10, t / 10, t / 4]);
                    Server { udp: Some(Beh::Trunc { d: d1 }), tcp: Some(Beh::Answer { d: d2 }), trust_nx: rng.bool() }
                } else {
                    Server { udp: Some(Beh::Answer { d: fast_d(rng) }), tcp: Some(Beh::Answer { d: fast_d(rng) }), trust_nx: rng.bool() }
                }
            }
        }
    } else {
        let trusted = rng.chance(1, 6);
        let inst = |rng: &mut Rng| match rng.weighted(&[30, 20, 25, 25]) {
            0 => Beh::IoErr { d: 0, reset: rng.bool() },
            1 => Beh::ConnFail { d: 0 },
            2 => Beh::Nx { d: 0 },
            _ => Beh::Busy { k: *rng.pick(&[1, 2, 3, 4, 5, 7]), d: fast_d(rng) },
        };
        let (u, tc) = match mode {
            0 => (Some(inst(rng)), None),
            1 => (None, Some(inst(rng))),
            _ => (Some(inst(rng)), Some(inst(rng))),
        };
        Server { udp: u, tcp: tc, trust_nx: trusted }
    }
}

fn perm_warm(rng: &mut Rng, n: usize) -> Vec<u8> {
    let mut w: Vec<u8> = (1..=n as u8).collect();
    rng.shuffle(&mut w);
    w
}

pub fn gen_scenario(rng: &mut Rng) -> Scenario {
    let t = *rng.pick(&[1000u64, 5000]);
    let n = 1 + rng.weighted(&[1, 4, 3, 2]);
    let mode = rng.weighted(&[3, 2, 4, 2]);
    let strat = *rng.pick(&Strat::ALL);
    let conc = *rng.pick(&[1usize, 2, 4]);
    let avail = rng.chance(3, 10);
    let mut servers: Vec<Server> = if avail {
        let fast_at = rng.usize_below(n);
        (0..n)
            .map(|i| {
                let fast = i == fast_at || rng.chance(1, 4);
                gen_avail_server(rng, t, mode, fast)
            })
            .collect()
    } else {
        (0..n).map(|_| gen_server(rng, t, mode)).collect()
    };
    if servers.iter().all(|s| s.udp.is_none() && s.tcp.is_none()) {
        servers[0].udp = Some(Beh::Answer { d: 1 });
    }
    // QueryStatistics: always pin the order by distinct recorded failures (a fresh pool orders by
    // a random initial SRTT, which would make witnesses irreproducible); others: sometimes
    let warm = if strat == Strat::Qs || rng.chance(1, 4) { perm_warm(rng, n) } else { Vec::new() };

    let offsets = [0u64, 0, 1, 5, 20, t / 10, t / 2, t, 2 * t];
    let mut callers = Vec::new();
    let mixed = rng.chance(3, 10);
    if !mixed {
        let k = *rng.pick(&[1usize, 1, 2, 2, 2, 3, 3, 4, 4, 6, 8]);
        let staggered = rng.chance(2, 5);
        for i in 0..k {
            let at = if i == 0 || !staggered { 0 } else { *rng.pick(&offsets) };
            let cancel = if i > 0 && rng.chance(3, 20) { Some(*rng.pick(&[1u64, 5, 50, t / 2])) } else { None };
            callers.push(Caller { q: 0, at, cancel });
        }
    } else {
        let keys = rng.urange(2, 4) as u8;
        let k = rng.urange(2, 8);
        for i in 0..k {
            let at = if i == 0 { 0 } else { *rng.pick(&offsets) };
            callers.push(Caller { q: if i == 0 { 0 } else { rng.below(keys as u64) as u8 }, at, cancel: None });
        }
    }
    Scenario { servers, strat, conc, timeout: t, warm, callers, later: rng.chance(4, 5) }
}

/// per-server profiles of the enumerated part
pub fn profiles(t: u64) -> Vec<Server> {
    let s = |udp: Option<Beh>, tcp: Option<Beh>, trust: bool| Server { udp, tcp, trust_nx: trust };
    vec![
        s(Some(Beh::Answer { d: 10 }), None, true),
        s(Some(Beh::Answer { d: t / 2 }), None, true),
        s(Some(Beh::Nx { d: 0 }), None, false),
        s(Some(Beh::Nx { d: 0 }), None, true),
        s(Some(Beh::Trunc { d: 1 }), Some(Beh::Answer { d: 10 }), true),
        s(Some(Beh::Trunc { d: 1 }), Some(Beh::IoErr { d: 0, reset: false }), true),
        s(Some(Beh::Silent), None, true),
        s(Some(Beh::IoErr { d: 0, reset: true }), None, true),
        s(Some(Beh::IoErr { d: t * 9 / 10, reset: false }), None, true),
        s(Some(Beh::Busy { k: 2, d: 10 }), None, true),
        s(Some(Beh::Busy { k: 5, d: 10 }), None, true),
        s(Some(Beh::ConnFail { d: 0 }), None, true),
        s(None, Some(Beh::Answer { d: 10 }), true),
        s(None, Some(Beh::Silent), true),
    ]
}

/// Enumerated scenarios: every ordered tuple of `n` profiles × strategy × conc × timeout, two
/// identical callers at t=0 (sharing) and a later identical query.
pub fn enum_count(n: usize, concs: &[usize], timeouts: &[u64]) -> u64 {
    (profiles(1000).len() as u64).pow(n as u32) * 3 * concs.len() as u64 * timeouts.len() as u64
}

pub fn enum_scenario(mut idx: u64, n: usize, concs: &[usize], timeouts: &[u64]) -> Scenario {
    let t = timeouts[(idx % timeouts.len() as u64) as usize];
    idx /= timeouts.len() as u64;
    let conc = concs[(idx % concs.len() as u64) as usize];
    idx /= concs.len() as u64;
    let strat = Strat::ALL[(idx % 3) as usize];
    idx /= 3;
    let p = profiles(t);
    let mut servers = Vec::new();
    for _ in 0..n {
        servers.push(p[(idx % p.len() as u64) as usize].clone());
        idx /= p.len() as u64;
    }
    let warm = if strat == Strat::Qs { (1..=n as u8).rev().collect() } else { Vec::new() };
    Scenario {
        servers,
        strat,
        conc,
        timeout: t,
        warm,
        callers: vec![Caller { q: 0, at: 0, cancel: None }, Caller { q: 0, at: 0, cancel: None }],
        later: true,
    }
}
