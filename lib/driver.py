"""Driver for the runtime monitors. See ../check for the contract."""
import argparse
import hashlib
import json
import os
import re
import shutil
import subprocess
import sys
import time

from props import PROPS

VERIF = os.path.dirname(os.path.dirname(os.path.abspath(__file__)))
HARNESS = os.path.join(VERIF, "harness")
CRATES = ["proto", "net", "resolver", "server"]


def log(msg):
    print(msg, flush=True)


def env_int(name, default):
    try:
        return int(os.environ.get(name, default))
    except ValueError:
        return default


class Paths:
    def __init__(self, pid):
        self.repo = os.environ.get("VERIF_REPO", "/repo")
        self.alt_repo = self.repo != "/repo"
        tag = ""
        if self.alt_repo:
            tag = "-" + hashlib.sha1(self.repo.encode()).hexdigest()[:8]
        self.target = os.environ.get("VERIF_TARGET", os.path.join(VERIF, "target" + tag))
        self.out = os.environ.get("VERIF_OUT", VERIF if not self.alt_repo else os.path.join(VERIF, "run", "alt" + tag))
        self.evidence = os.path.join(self.out, "evidence")
        self.replays = os.path.join(self.out, "replays", pid)
        self.run = os.path.join(VERIF, "run", pid + tag)


def cargo_env(paths, flavour):
    env = dict(os.environ)
    env["CARGO_NET_OFFLINE"] = "true"
    env["CARGO_TARGET_DIR"] = paths.target if flavour not in SANITIZERS else paths.target + "-" + flavour
    env.pop("RUSTFLAGS", None)
    return env


def build(paths, bins, flavour="hooks"):
    """Build the named harness binaries. Returns (ok, bindir, log)."""
    lock = os.path.join(HARNESS, "Cargo.lock")
    if not os.path.exists(lock):
        shutil.copy(os.path.join(paths.repo, "Cargo.lock"), lock)
    cmd = ["cargo"]
    env = cargo_env(paths, flavour)
    if flavour in SANITIZERS:
        cmd += ["+nightly"]
        env["RUSTFLAGS"] = "--cfg hickory_dns_verif -Cforce-frame-pointers=yes " + SANITIZERS[flavour]
        env["CARGO_PROFILE_DEV_DEBUG"] = "line-tables-only"  # source paths in sanitizer stacks
    cmd += ["build", "--offline", "--quiet"]
    if flavour == "shipped":
        cmd += ["--release"]
    if flavour in SANITIZERS:
        cmd += ["--target", "x86_64-unknown-linux-gnu"]
    if flavour == "tsan":
        cmd += ["-Zbuild-std"]
    for b in bins:
        cmd += ["--bin", b]
    if paths.alt_repo:
        over = ",".join('"%s/crates/%s"' % (paths.repo, c) for c in CRATES)
        cmd += ["--config", "paths=[%s]" % over]
    t0 = time.time()
    p = subprocess.run(cmd, cwd=HARNESS, env=env, stdout=subprocess.PIPE, stderr=subprocess.STDOUT, text=True)
    out = p.stdout
    if flavour in SANITIZERS:
        bindir = os.path.join(env["CARGO_TARGET_DIR"], "x86_64-unknown-linux-gnu", "debug")
    else:
        bindir = os.path.join(env["CARGO_TARGET_DIR"], "release" if flavour == "shipped" else "debug")
    return p.returncode == 0, bindir, out, time.time() - t0


SANITIZERS = {
    "asan": "-Zsanitizer=address",
    "tsan": "-Zsanitizer=thread",
}


def sanitizer_env(flavour, outdir):
    """Environment for a sanitizer flavour: reports go to <outdir>/san.<pid>, first report ends the process."""
    e = {}
    if flavour == "asan":
        e["ASAN_OPTIONS"] = "detect_leaks=0:halt_on_error=1:abort_on_error=0:exitcode=97:symbolize=1:log_path=%s" % os.path.join(outdir, "san")
        e["ASAN_SYMBOLIZER_PATH"] = "/usr/bin/llvm-symbolizer"
    if flavour == "tsan":
        supp = os.path.join(VERIF, "lib", "tsan.supp")
        e["TSAN_OPTIONS"] = "halt_on_error=1:exitcode=66:second_deadlock_stack=1:suppressions=%s:log_path=%s:external_symbolizer_path=/usr/bin/llvm-symbolizer" % (supp, os.path.join(outdir, "san"))
    return e


def sanitizer_reports(outdir, repo):
    """Parse sanitizer logs. Returns (in_repo, third_party): lists of {kind, frame, file} dicts.

    A report is attributed to hickory-dns when a frame of its FIRST stack (the faulting access) lies in
    <repo>/crates; anything else (dependency, std, harness) is third party and never fails a check."""
    import glob, re
    in_repo, third = [], []
    for f in sorted(glob.glob(os.path.join(outdir, "san.*"))):
        try:
            txt = open(f, errors="replace").read()
        except OSError:
            continue
        m = re.search(r"(?:ERROR|WARNING): (AddressSanitizer|ThreadSanitizer|LeakSanitizer): ([^\n(]+)", txt)
        if not m:
            continue
        kind = (m.group(1) + ": " + re.split(r" on (?:address|unknown address)| at pc ", m.group(2))[0]).strip()
        first_stack = []
        for line in txt[m.end():].splitlines():
            fm = re.match(r"\s+#\d+ 0x[0-9a-f]+ (?:in )?(\S+) (\S+)", line)
            if fm:
                first_stack.append((fm.group(1), fm.group(2)))
            elif first_stack:
                break
        # a frame belongs to hickory-dns if its source path lies under <repo>/crates (needs debuginfo) or its
        # symbol is a hickory function / a method of a hickory type (`hickory_proto::…`, `<hickory_net::… as …>::…`);
        # `<alloc::vec::Vec<hickory_proto::…>>::push` is a dependency's function and does not count
        def in_hickory(fn, loc):
            return (repo.rstrip("/") + "/crates/") in loc or re.match(r"<?(?:impl )?hickory_(proto|net|resolver|server|dns)\b", fn.lstrip("_")) is not None
        hit = next(((fn, loc) for fn, loc in first_stack if in_hickory(fn, loc)), None)
        rec = {"kind": kind, "file": f, "frame": "%s %s" % (hit if hit else (first_stack[0] if first_stack else ("?", "?")))}
        (in_repo if hit else third).append(rec)
    return in_repo, third


def run_miri(paths, binname, seed, spec, outdir, m, inconclusive, pid):
    """Miri flavour: the property binary interpreted by `cargo +nightly miri run` at a tiny scale (≈0.7 s per
    operation), one process per shard. Miri reports undefined behaviour and data races in everything it
    interprets (hickory, dependencies, std); a report is attributed like a sanitizer report: a backtrace frame
    under <repo>/crates ⇒ violation of this property, anything else ⇒ listed as third party."""
    import re
    if os.path.isdir(outdir):
        shutil.rmtree(outdir)
    os.makedirs(outdir, exist_ok=True)
    n = int(spec.get("miri_shards", 8))
    scale = float(os.environ.get("VERIF_SCALE", "1")) * float(spec.get("miri_scale", 0.00002))
    env = dict(os.environ)
    env.update({"CARGO_NET_OFFLINE": "true", "CARGO_TARGET_DIR": paths.target + "-miri", "MIRIFLAGS": "-Zmiri-disable-isolation",
                "RUSTFLAGS": "--cfg hickory_dns_verif"})
    base = ["cargo", "+nightly", "miri", "run", "--offline", "--quiet", "--bin", binname]
    if paths.alt_repo:
        base += ["--config", "paths=[%s]" % ",".join('"%s/crates/%s"' % (paths.repo, c) for c in CRATES)]
    procs = []
    for i in range(n):
        lf = open(os.path.join(outdir, "shard-%d.log" % i), "w")
        cmd = base + ["--", "--tier", "quick", "--seed", str(seed), "--shard", str(i), "--nshards", str(16 * 64), "--out", outdir, "--scale", str(scale)]
        procs.append((i, subprocess.Popen(cmd, stdout=lf, stderr=subprocess.STDOUT, cwd=HARNESS, env=env), lf))
    note = {"shards": n, "evaluations": 0, "ub_reports_in_repo": [], "ub_reports_third_party": [], "problems": []}
    deadline = time.time() + float(spec.get("miri_timeout", 5400))
    for i, p, lf in procs:
        try:
            rc = p.wait(timeout=max(1, deadline - time.time()))
        except subprocess.TimeoutExpired:
            p.kill(); p.wait(); rc = None
        lf.close()
        txt = open(os.path.join(outdir, "shard-%d.log" % i), errors="replace").read()
        sp = os.path.join(outdir, "shard-%d.summary.json" % i)
        if os.path.exists(sp):
            note["evaluations"] += json.load(open(sp))["evaluations"]
        um = re.search(r"error: (Undefined Behavior|unsupported operation|Data race detected)[^\n]*", txt)
        if um and um.group(1) != "unsupported operation":
            frames = re.findall(r"(?:inside|at) [^\n]*?(/\S+?\.rs):\d+", txt[um.start():])
            hit = next((f for f in frames if (paths.repo.rstrip("/") + "/crates/") in f), None)
            rec = um.group(0)[:200] + " @ " + (hit or (frames[0] if frames else "?"))
            if hit:
                note["ub_reports_in_repo"].append(rec)
                sig = "%s|%s" % (um.group(1), hit[hit.find("/crates/") + 1:])
                wpath = os.path.join(outdir, "miri-%s.json" % hashlib.sha1(sig.encode()).hexdigest()[:12])
                with open(wpath, "w") as wf:
                    json.dump({"property": pid, "rule": "miri", "sig": sig, "case": {"shard": i, "seed": seed, "scale": scale, "report": txt[um.start():um.start() + 20000]},
                               "expected": "no undefined behaviour with a frame in hickory-dns", "observed": um.group(0)[:300], "seed": seed, "tier": "thorough", "flavour": "miri"}, wf, indent=1)
                m["per_sig"]["miri|" + sig] = m["per_sig"].get("miri|" + sig, 0) + 1
                m["violations"].append({"rule": "miri", "sig": sig, "file": wpath, "flavour": "miri"})
            else:
                note["ub_reports_third_party"].append(rec)
        elif rc != 0 or not os.path.exists(sp):
            why = "timeout" if rc is None else ("unsupported operation (FFI?)" if um else "exit %s" % rc)
            note["problems"].append("shard %d: %s: %s" % (i, why, txt[-300:].replace("\n", " | ")))
    # Miri is a secondary sweep at ~0.7 s per operation: shards cut off by the watchdog are reported in the
    # evidence (problems) but only a sweep in which NO shard completed makes the run inconclusive
    note["shards_completed"] = n - len(note["problems"])
    if note["problems"] and note["shards_completed"] == 0:
        inconclusive.append("flavour miri: no shard completed (%s)" % note["problems"][0][:120])
    return note


def load_findings(pid):
    path = os.path.join(VERIF, "known_findings.json")
    if not os.path.exists(path):
        return []
    with open(path) as f:
        data = json.load(f)
    return [e for e in data.get("findings", []) if e.get("property") == pid]


def entry_matches(e, rule, sig):
    """Does known-finding entry e describe the violation (rule, sig)?

    An entry names either one exact signature ({"rule", "where"}) or a *family* ({"rule_regex", "where_regex"},
    both full-match): every way in which one recorded root cause shows for one class of failing input (DESIGN
    11.3, "signature families"). Families exist only where the defect cannot be repaired under the rules and the
    exact signatures proved not to be a closed set across seeds."""
    g = e["signature"]
    if "rule" in g:
        return g["rule"] == rule and g["where"] == sig
    return re.fullmatch(g["rule_regex"], rule) is not None and re.fullmatch(g["where_regex"], sig) is not None


def find_open(findings, rule, sig):
    exact = [f for f in findings if f["status"] == "open" and "rule" in f["signature"] and entry_matches(f, rule, sig)]
    if exact:
        return exact[0]
    fam = [f for f in findings if f["status"] == "open" and "rule" not in f["signature"] and entry_matches(f, rule, sig)]
    return fam[0] if fam else None


def run_replay(bindir, binname, path, outdir, timeout=600):
    """Returns (list of (rule, sig) reproduced, raw output, ok_flag)."""
    os.makedirs(outdir, exist_ok=True)
    cmd = [os.path.join(bindir, binname), "--replay", path, "--out", outdir]
    try:
        p = subprocess.run(cmd, stdout=subprocess.PIPE, stderr=subprocess.STDOUT, text=True, timeout=timeout)
    except subprocess.TimeoutExpired:
        return [], "replay timed out", False
    sigs = []
    for line in p.stdout.splitlines():
        if line.startswith("REPLAY ") and "reproduced=1" in line:
            rule = line.split(" rule=", 1)[1].split(" sig=", 1)[0]
            sig = line.split(" sig=", 1)[1]
            sigs.append((rule, sig))
    ok = p.returncode in (0, 1) and "REPLAY " in p.stdout
    if p.returncode < 0:
        # the replayed case killed the process: that reproduces a process-abort witness (and nothing else)
        try:
            with open(path) as f:
                w = json.load(f)
        except (OSError, ValueError):
            w = {}
        if w.get("rule") == "process-abort":
            return [("process-abort", w.get("sig", "?"))], p.stdout + "\nREPLAY property=%s reproduced=1 rule=process-abort sig=%s\n" % (w.get("property"), w.get("sig")), True
    return sigs, p.stdout, ok


def merge_distinct(bindir, files):
    files = [f for f in files if os.path.exists(f)]
    if not files:
        return 0
    p = subprocess.run([os.path.join(bindir, "vmerge")] + files, stdout=subprocess.PIPE, text=True)
    try:
        return int(p.stdout.strip())
    except ValueError:
        return 0


def run_shards(bindir, binname, tier, seed, nshards, outdir, scale, timeout, extra_args=(), extra_env=None):
    if os.path.isdir(outdir):
        shutil.rmtree(outdir)
    os.makedirs(outdir, exist_ok=True)
    procs = []
    env = dict(os.environ)
    env.update(extra_env or {})
    for i in range(nshards):
        cmd = [os.path.join(bindir, binname), "--tier", tier, "--seed", str(seed), "--shard", str(i),
               "--nshards", str(nshards), "--out", outdir, "--scale", str(scale)] + list(extra_args)
        lf = open(os.path.join(outdir, "shard-%d.log" % i), "w")
        procs.append((i, subprocess.Popen(cmd, stdout=lf, stderr=subprocess.STDOUT, cwd=outdir, env=env), lf))
    deadline = time.time() + timeout
    problems = []
    summaries = []
    crashes = []
    for i, p, lf in procs:
        left = max(1, deadline - time.time())
        try:
            rc = p.wait(timeout=left)
        except subprocess.TimeoutExpired:
            p.kill()
            p.wait()
            problems.append("shard %d: watchdog fired after %ds" % (i, timeout))
            lf.close()
            continue
        lf.close()
        spath = os.path.join(outdir, "shard-%d.summary.json" % i)
        if rc < 0 and not os.path.exists(spath) and not (extra_env and ("ASAN_OPTIONS" in extra_env or "TSAN_OPTIONS" in extra_env)):
            # died by a signal (stack overflow, abort, ...): find the case with a breadcrumb re-run
            crash = locate_crash(bindir, binname, tier, seed, i, nshards, outdir, scale, timeout, extra_args, rc)
            if crash:
                crashes.append(crash)
                continue
        if rc != 0 or not os.path.exists(spath):
            tail = ""
            try:
                with open(os.path.join(outdir, "shard-%d.log" % i)) as f:
                    tail = f.read()[-400:].replace("\n", " | ")
            except OSError:
                pass
            problems.append("shard %d: exit status %s without summary (%s)" % (i, rc, tail))
            continue
        with open(spath) as f:
            summaries.append(json.load(f))
    if crashes:
        # hand the confirmed crashes to merge() as a synthetic shard summary
        summaries.append({"evaluations": 0, "counters": {}, "maxima": {}, "musts": {}, "samples": [], "inconclusive": [], "notes": {},
                          "violations": [{"rule": c["rule"], "sig": c["sig"], "file": c["file"]} for c in crashes],
                          "violations_per_sig": {"%s|%s" % (c["rule"], c["sig"]): 1 for c in crashes},
                          "distinct_file": os.path.join(outdir, "none.distinct"), "wall_s": 0})
    return summaries, problems


def signal_name(rc):
    import signal
    try:
        return signal.Signals(-rc).name
    except (ValueError, AttributeError):
        return "signal%d" % -rc


def locate_crash(bindir, binname, tier, seed, i, nshards, outdir, scale, timeout, extra_args, rc):
    """A shard died by a signal. Re-run it with --breadcrumb=1 (deterministic: same cases), take the case it
    was in when it died, replay that case alone; if the replay dies by a signal too, return a violation
    record {rule, sig, file}. Otherwise None (the caller reports the shard as inconclusive)."""
    bdir = os.path.join(outdir, "crash-%d" % i)
    os.makedirs(bdir, exist_ok=True)
    cmd = [os.path.join(bindir, binname), "--tier", tier, "--seed", str(seed), "--shard", str(i), "--nshards", str(nshards),
           "--out", bdir, "--scale", str(scale), "--breadcrumb=1"] + list(extra_args)
    try:
        with open(os.path.join(bdir, "rerun.log"), "w") as lf:
            p = subprocess.run(cmd, stdout=lf, stderr=subprocess.STDOUT, cwd=bdir, timeout=timeout)
    except subprocess.TimeoutExpired:
        return None
    crumb = os.path.join(bdir, "shard-%d.current.json" % i)
    if p.returncode >= 0 or not os.path.exists(crumb):
        return None
    rdir = os.path.join(bdir, "replay")
    os.makedirs(rdir, exist_ok=True)
    try:
        with open(os.path.join(rdir, "replay.log"), "w") as lf:
            r = subprocess.run([os.path.join(bindir, binname), "--replay", crumb, "--out", rdir], stdout=lf, stderr=subprocess.STDOUT, cwd=rdir, timeout=600)
    except subprocess.TimeoutExpired:
        return None
    if r.returncode >= 0:
        return None
    log_txt = open(os.path.join(rdir, "replay.log"), errors="replace").read()
    how = "stack-overflow" if "overflowed its stack" in log_txt else ("alloc-failure" if "memory allocation" in log_txt else "abort")
    with open(crumb) as f:
        w = json.load(f)
    w["sig"] = "%s|%s" % (signal_name(r.returncode), how)
    w["observed"] = {"signal": signal_name(r.returncode), "how": how, "log_tail": log_txt[-600:]}
    with open(crumb, "w") as f:
        json.dump(w, f, indent=1)
    return {"rule": "process-abort", "sig": w["sig"], "file": crumb}


def merge(summaries):
    m = {"evaluations": 0, "counters": {}, "maxima": {}, "musts": {}, "samples": [], "violations": [],
         "per_sig": {}, "inconclusive": [], "notes": {}, "distinct_files": [], "saturated": False, "shard_wall": []}
    for s in summaries:
        m["evaluations"] += s["evaluations"]
        for k, v in s["counters"].items():
            m["counters"][k] = m["counters"].get(k, 0) + v
        for k, v in s["maxima"].items():
            m["maxima"][k] = max(m["maxima"].get(k, v), v)
        for k, v in s["musts"].items():
            m["musts"][k] = max(m["musts"].get(k, 0), v)
        if len(m["samples"]) < 5:
            m["samples"].extend(s["samples"][: max(1, 5 - len(m["samples"]))][:2])
        m["violations"].extend(s["violations"])
        for k, v in s["violations_per_sig"].items():
            m["per_sig"][k] = m["per_sig"].get(k, 0) + v
        for r in s["inconclusive"]:
            if r not in m["inconclusive"]:
                m["inconclusive"].append(r)
        for k, v in s.get("notes", {}).items():
            m["notes"].setdefault(k, v)
        m["distinct_files"].append(s["distinct_file"])
        m["saturated"] = m["saturated"] or s.get("distinct_saturated", False)
        m["shard_wall"].append(s.get("wall_s", 0))
    return m


def main(argv):
    ap = argparse.ArgumentParser()
    ap.add_argument("prop")
    ap.add_argument("--tier", default=os.environ.get("VERIF_TIER", "quick"), choices=["quick", "thorough"])
    ap.add_argument("--replay")
    ap.add_argument("--shards", type=int, default=env_int("VERIF_SHARDS", 16))
    args = ap.parse_args(argv)
    pid = args.prop.upper()
    if pid not in PROPS:
        log("unknown property %s" % pid)
        return 3
    spec = PROPS[pid]
    binname = spec["bin"]
    seed = env_int("VERIF_SEED", 1)
    scale = float(os.environ.get("VERIF_SCALE", "1"))
    if args.tier == "quick":
        scale *= float(spec.get("quick_scale", 1.0))
    paths = Paths(pid)
    t0 = time.time()

    ok, bindir, blog, bsecs = build(paths, [binname, "vmerge"])
    if not ok:
        log(blog[-4000:])
        log("INCONCLUSIVE property=%s reason=harness build failed against %s" % (pid, paths.repo))
        return 2

    # ---- explicit replay
    if args.replay:
        sigs, out, rok = run_replay(bindir, binname, os.path.abspath(args.replay), os.path.join(paths.run, "replay"))
        sys.stdout.write(out)
        if not rok:
            log("INCONCLUSIVE property=%s reason=replay did not complete" % pid)
            return 2
        if sigs:
            log("VIOLATION property=%s replay=%s" % (pid, os.path.abspath(args.replay)))
            return 1
        log("OK property=%s replay no longer fails" % pid)
        return 0

    findings = load_findings(pid)
    out_lines = []
    new_violations = []  # (rule, sig, path)
    known_hits = {}
    inconclusive = []

    # ---- pinned witnesses of known findings (open: expected to fail; fixed: must not fail)
    for e in findings:
        w = os.path.join(VERIF, e["witness"])
        sigs, out, rok = run_replay(bindir, binname, w, os.path.join(paths.run, "pinned-" + e["id"]))
        if not rok:
            inconclusive.append("pinned witness %s did not complete" % e["id"])
            continue
        if e["status"] == "open":
            if any(entry_matches(e, s[0], s[1]) for s in sigs):
                out_lines.append("KNOWN-FINDING: property=%s %s [%s]" % (pid, e["what"], e["id"]))
                known_hits.setdefault(e["id"], 0)
            else:
                out_lines.append("NOTE property=%s known finding %s no longer reproduces on this tree" % (pid, e["id"]))
        # whatever else a witness shows is judged like any other observation (fixed entries suppress nothing)
        for s in sigs:
            if find_open(findings, s[0], s[1]) is None:
                new_violations.append((s[0], s[1], w))

    # ---- generated workload
    timeout = spec.get("timeout", {}).get(args.tier, 900 if args.tier == "quick" else 6 * 3600)
    nshards = min(args.shards, spec.get("max_shards", 16))
    summaries, problems = run_shards(bindir, binname, args.tier, seed, nshards, os.path.join(paths.run, args.tier), scale, timeout)
    inconclusive.extend(problems)
    m = merge(summaries)
    inconclusive.extend(m["inconclusive"])

    # extra flavours (thorough only): same seeds under the shipped profile / sanitizers
    flavour_notes = {}
    if args.tier == "thorough":
        flavours = spec.get("thorough_flavours", [])
        if os.environ.get("VERIF_FLAVOURS") is not None:  # maintenance: restrict the flavours of this run
            flavours = [f for f in os.environ["VERIF_FLAVOURS"].split(",") if f]
        for fl in flavours:
            if fl == "miri":
                flavour_notes[fl] = run_miri(paths, binname, seed, spec, os.path.join(paths.run, "fl-miri"), m, inconclusive, pid)
                continue
            fok, fbindir, flog, fsecs = build(paths, [binname, "vmerge"], fl)
            if not fok:
                flavour_notes[fl] = "build failed: " + flog[-300:]
                inconclusive.append("flavour %s: build failed" % fl)
                continue
            fdir = os.path.join(paths.run, "fl-" + fl)
            fs, fproblems = run_shards(fbindir, binname, "quick", seed, nshards, fdir, float(os.environ.get("VERIF_SCALE", "1")) * spec.get("flavour_scale", 1.0), timeout,
                                       extra_args=spec.get("flavour_args", {}).get(fl, []), extra_env=sanitizer_env(fl, fdir))
            fm = merge(fs)
            flavour_notes[fl] = {"evaluations": fm["evaluations"], "violations_per_sig": fm["per_sig"], "problems": fproblems}
            if fl in SANITIZERS:
                in_repo, third = sanitizer_reports(fdir, paths.repo)
                flavour_notes[fl]["sanitizer_reports_in_repo"] = [r["kind"] + " @ " + r["frame"] for r in in_repo]
                flavour_notes[fl]["sanitizer_reports_third_party"] = sorted(set(r["kind"] + " @ " + r["frame"] for r in third))
                if third or in_repo:
                    # a sanitizer report ends its shard early: that shard's missing summary is accounted for here
                    fproblems = [p for p in fproblems if "without summary" not in p]
                for r in in_repo:
                    sig = "%s|%s" % (r["kind"], r["frame"].split(" ")[0])
                    wpath = os.path.join(fdir, "sanitizer-%s.json" % hashlib.sha1(sig.encode()).hexdigest()[:12])
                    with open(wpath, "w") as wf:
                        json.dump({"property": pid, "rule": "sanitizer-" + fl, "sig": sig, "case": {"report_file": r["file"], "report": open(r["file"], errors="replace").read()[:20000]},
                                   "expected": "no sanitizer report with a faulting frame in hickory-dns", "observed": r["kind"], "seed": seed, "tier": "thorough", "flavour": fl}, wf, indent=1)
                    fm["per_sig"]["sanitizer-%s|%s" % (fl, sig)] = fm["per_sig"].get("sanitizer-%s|%s" % (fl, sig), 0) + 1
                    fm["violations"].append({"rule": "sanitizer-" + fl, "sig": sig, "file": wpath})
            for k, v in fm["per_sig"].items():
                m["per_sig"]["%s" % k] = m["per_sig"].get(k, 0) + v
            for v in fm["violations"]:
                v["flavour"] = fl
            m["violations"].extend(fm["violations"])
            inconclusive.extend("flavour %s: %s" % (fl, p) for p in fproblems)

    family_sigs = {}
    first_file = {}
    for v in m["violations"]:
        key = (v["rule"], v["sig"])
        if key not in first_file and v.get("file"):
            first_file[key] = v["file"]
    for key_s, count in m["per_sig"].items():
        rule, sig = key_s.split("|", 1)
        hit = find_open(findings, rule, sig)
        if hit is not None:
            fid = hit["id"]
            known_hits[fid] = known_hits.get(fid, 0) + count
            if "rule" not in hit["signature"]:
                family_sigs.setdefault(fid, {})[key_s] = count
            if not any("[%s]" % fid in l for l in out_lines):
                out_lines.append("KNOWN-FINDING: property=%s %s [%s]" % (pid, hit["what"], fid))
        else:
            src = first_file.get((rule, sig))
            dst = None
            if src and os.path.exists(src):
                os.makedirs(paths.replays, exist_ok=True)
                h = hashlib.sha1((rule + "|" + sig).encode()).hexdigest()[:12]
                dst = os.path.join(paths.replays, "%s.json" % h)
                shutil.copy(src, dst)
            new_violations.append((rule, sig, dst or "(no witness file)"))

    # ---- must-observe thresholds
    for name, minimum in sorted(m["musts"].items()):
        got = m["counters"].get(name, 0)
        need = minimum
        if got < need:
            inconclusive.append("must-observe %s: %d < %d" % (name, got, need))
    if not summaries:
        inconclusive.append("no shard produced a summary")
    elif not m["samples"]:
        inconclusive.append("no sample case recorded (evidence would be invalid)")

    distinct = merge_distinct(bindir, m["distinct_files"])
    wall = time.time() - t0

    # ---- evidence
    cov = {
        "evaluations": int(m["evaluations"]),
        "distinct_nontrivial": int(distinct),
        "distinct_counting": "lower-bound" if m["saturated"] else "exact",
        "rule": spec["rule"],
        "samples": m["samples"][:5],
        "counters": {k: v for k, v in sorted(m["counters"].items())},
        "maxima": m["maxima"],
        "must_observe": {k: {"min": v, "observed": m["counters"].get(k, 0)} for k, v in sorted(m["musts"].items())},
        "known_finding_hits": known_hits,
        "known_family_signatures": family_sigs,
        "new_violation_signatures": sorted(set("%s|%s" % (r, s) for r, s, _ in new_violations)),
        "inconclusive_reasons": inconclusive,
        "shards": nshards,
        "build_s": round(bsecs, 1),
        "repo": paths.repo,
        "flavours": flavour_notes,
        "notes": m["notes"],
    }
    ev = {
        "property_id": pid,
        "tier": args.tier,
        "seed": seed,
        "level": spec["level"],
        "coverage": cov,
        "assumptions": spec["assumptions"],
        "wall_s": round(wall, 2),
        "violations": len(set((r, s) for r, s, _ in new_violations)),
    }
    os.makedirs(paths.evidence, exist_ok=True)
    tmp = os.path.join(paths.evidence, pid + ".json.tmp")
    with open(tmp, "w") as f:
        json.dump(ev, f, indent=1, sort_keys=False)
    os.replace(tmp, os.path.join(paths.evidence, pid + ".json"))

    for l in out_lines:
        log(l)
    seen = set()
    for rule, sig, path in new_violations:
        if (rule, sig) in seen:
            continue
        seen.add((rule, sig))
        log("VIOLATION property=%s replay=%s rule=%s sig=%s" % (pid, path, rule, sig))
    if seen:
        return 1
    if inconclusive:
        for r in inconclusive[:10]:
            log("INCONCLUSIVE property=%s reason=%s" % (pid, r))
        return 2
    log("OK property=%s tier=%s seed=%d evaluations=%d distinct_nontrivial=%d wall=%.1fs" % (pid, args.tier, seed, m["evaluations"], distinct, wall))
    return 0
