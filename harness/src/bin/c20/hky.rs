//! Glue to the code under test: run hickory's zone-file parser on a text and flatten the result
//! into plain values (owner labels, class, ttl, type, uncompressed RDATA bytes).

use hickory_proto::rr::{Name, RData};
use hickory_proto::serialize::binary::{BinEncodable, BinEncoder, NameEncoding};
use hickory_proto::serialize::txt::Parser;

use vh::mon::{self, PanicRecord};

#[derive(Clone, Debug)]
pub struct Parsed {
    pub owner: Vec<Vec<u8>>,
    pub class: u16,
    pub ttl: u32,
    pub rtype: u16,
    /// Ok(uncompressed RDATA) or Err(encoder error text)
    pub rdata: Result<Vec<u8>, String>,
    /// hickory's Display of the record data, for witnesses only (never used by the oracle)
    pub shown: String,
}

pub enum Outcome {
    Ok(Vec<Parsed>),
    Err(String),
    Panic(PanicRecord),
}

pub fn rdata_wire(r: &RData) -> Result<Vec<u8>, String> {
    let mut buf = Vec::new();
    {
        let mut enc = BinEncoder::new(&mut buf);
        let mut m = enc.with_name_encoding(NameEncoding::Uncompressed);
        r.emit(&mut m).map_err(|e| e.to_string())?;
    }
    Ok(buf)
}

pub fn origin_name(labels: &[Vec<u8>]) -> Name {
    let mut n = Name::from_labels(labels.iter().map(|l| l.as_slice())).expect("origin labels");
    n.set_fqdn(true);
    n
}

/// `Parser::new(text, None, Some(origin)).parse()` under the panic monitor.
pub fn parse(text: &str, origin: &[Vec<u8>]) -> Outcome {
    parse_at(text, None, origin)
}

/// `Parser::new(text, path, Some(origin)).parse()`: `path` is the zone file's own path, against
/// whose directory relative `$INCLUDE` file names are resolved.
pub fn parse_at(text: &str, path: Option<std::path::PathBuf>, origin: &[Vec<u8>]) -> Outcome {
    let origin = origin_name(origin);
    let r = mon::catch(|| Parser::new(text, path, Some(origin)).parse());
    match r {
        Err(p) => Outcome::Panic(p),
        Ok(Err(e)) => Outcome::Err(e.to_string()),
        Ok(Ok((_origin, sets))) => {
            // flattening touches Display/encoder of hickory values: guard it as well, a panic here is
            // still a panic on data the parser produced
            let r = mon::catch(|| {
                let mut out = Vec::new();
                for (_k, set) in sets.iter() {
                    for rec in set.records_without_rrsigs() {
                        out.push(Parsed {
                            owner: rec.name.iter().map(|l| l.to_vec()).collect(),
                            class: u16::from(rec.dns_class),
                            ttl: rec.ttl,
                            rtype: u16::from(rec.record_type()),
                            rdata: rdata_wire(&rec.data),
                            shown: format!("{}", rec.data),
                        });
                    }
                }
                out
            });
            match r {
                Ok(v) => Outcome::Ok(v),
                Err(p) => Outcome::Panic(p),
            }
        }
    }
}
