//! vmerge FILE... : union of sorted little-endian u64 files; prints the number of distinct values.
use std::collections::HashSet;
use std::fs;

fn main() {
    let mut set: HashSet<u64> = HashSet::new();
    for p in std::env::args().skip(1) {
        let Ok(b) = fs::read(&p) else { continue };
        for c in b.chunks_exact(8) {
            set.insert(u64::from_le_bytes(c.try_into().unwrap()));
        }
    }
    println!("{}", set.len());
}
