//! Server path, second observation point: responses that carry a TSIG record.
//!
//! `Catalog` over an `InMemoryZoneHandler` never gets a signer back, so no response with a
//! signature reaches `MessageResponse::encode` on the first server path. Here a harness-owned
//! `RequestHandler` (`Scripted`) sits in a second `Server<…>` behind the same hook
//! (`verif_handle_request`) and the same real `ResponseHandle`. For every request it follows a
//! *plan* the harness put down beforehand: which slices of the generated zone's record sets go
//! into the answer / authority / (soa slot) / additional section of a `MessageResponseBuilder`
//! response, whether the response gets the EDNS record a `Catalog` would attach
//! (payload = max(512, what the request advertised)), and whether `set_signature` is called with
//! a TSIG record (MAC 16–64 octets, key names of 2–200 octets, 0–16 octets of other data).
//! The MAC is filler: C03 judges sizes and structure, not authenticity.
//!
//! Judged with the clauses of the first server path (`judge_pair`): UDP ≤ max(512, advertised),
//! TCP ≤ 65 535, walk / nothing left over / counts / per-section prefix of the complete TCP answer
//! with OPT and TSIG as appended additionals / TC iff something was dropped. Because the harness
//! knows how many records the handler handed to the builder there is one more TC clause that
//! needs no reference answer (`tc` with `…|plan`): TC is set iff fewer records came out than went
//! in — on both transports.
//!
//! Don't-cares (the statement does not settle them; counted): the TSIG record itself is dropped
//! when it does not fit after the cut (`signed_udp_truncated_tsig_dropped`; TC has to be set then,
//! it is a dropped record like any other), OPT dropped while TSIG is kept, MAC validity of a
//! truncated signed response (the MAC was computed over the complete message — not C03's subject).

use std::sync::{Arc, Mutex};

use hickory_net::runtime::Time;
use hickory_proto::op::{Edns, Metadata};
use hickory_proto::rr::rdata::tsig::{TsigAlgorithm, TsigError, TSIG};
use hickory_proto::rr::{DNSClass, Name, Record};
use hickory_server::server::{Request, RequestHandler, ResponseHandler};
use hickory_server::zone_handler::MessageResponseBuilder;
use hickory_server::Server;
use serde_json::{json, Value};

use super::{exchange, judge_pair, request_bytes, set_records, soa_record, udp_limit_of, zone_spec, Verdicts, ZoneSpec, ORIGIN, PAYLOADS};
use vh::mon::hex;
use vh::prng::Rng;
use vh::refwire;

#[derive(Clone, Debug, Default, PartialEq)]
pub struct Slice {
    pub set: usize,
    pub from: usize,
    pub n: usize,
}

#[derive(Clone, Debug, Default, PartialEq)]
pub struct TsigPlan {
    pub key: String,
    /// 256 / 384 / 512
    pub alg: u16,
    pub mac_len: usize,
    pub other_len: usize,
    /// TSIG error field (0 = none)
    pub error: u16,
}

#[derive(Clone, Debug, Default, PartialEq)]
pub struct Plan {
    pub an: Vec<Slice>,
    pub ns: Vec<Slice>,
    /// the SOA record in the builder's separate `soa` slot (chained after the authorities)
    pub soa: bool,
    pub ar: Vec<Slice>,
    /// attach the response EDNS a Catalog would attach (only when the request has EDNS)
    pub edns: bool,
    pub tsig: Option<TsigPlan>,
}

fn slices_json(v: &[Slice]) -> Value {
    Value::Array(v.iter().map(|s| json!([s.set, s.from, s.n])).collect())
}

fn slices_from(v: &Value) -> Vec<Slice> {
    v.as_array()
        .map(|a| {
            a.iter()
                .map(|s| Slice { set: s[0].as_u64().unwrap_or(0) as usize, from: s[1].as_u64().unwrap_or(0) as usize, n: s[2].as_u64().unwrap_or(0) as usize })
                .collect()
        })
        .unwrap_or_default()
}

impl Plan {
    pub fn to_json(&self) -> Value {
        json!({
            "an": slices_json(&self.an), "ns": slices_json(&self.ns), "soa": self.soa, "ar": slices_json(&self.ar), "edns": self.edns,
            "tsig": self.tsig.as_ref().map(|t| json!({"key": t.key, "alg": t.alg, "mac_len": t.mac_len, "other_len": t.other_len, "error": t.error})),
        })
    }

    pub fn from_json(v: &Value) -> Plan {
        let t = &v["tsig"];
        Plan {
            an: slices_from(&v["an"]),
            ns: slices_from(&v["ns"]),
            soa: v["soa"].as_bool().unwrap_or(false),
            ar: slices_from(&v["ar"]),
            edns: v["edns"].as_bool().unwrap_or(false),
            tsig: t.as_object().map(|_| TsigPlan {
                key: t["key"].as_str().unwrap_or("k.").to_string(),
                alg: t["alg"].as_u64().unwrap_or(256) as u16,
                mac_len: t["mac_len"].as_u64().unwrap_or(32) as usize,
                other_len: t["other_len"].as_u64().unwrap_or(0) as usize,
                error: t["error"].as_u64().unwrap_or(0) as u16,
            }),
        }
    }
}

fn tsig_record(t: &TsigPlan, id: u16) -> Record<TSIG> {
    let alg = match t.alg {
        384 => TsigAlgorithm::HmacSha384,
        512 => TsigAlgorithm::HmacSha512,
        _ => TsigAlgorithm::HmacSha256,
    };
    let mac: Vec<u8> = (0..t.mac_len).map(|i| (i as u8).wrapping_mul(37).wrapping_add(0xA5)).collect();
    let other: Vec<u8> = (0..t.other_len).map(|i| i as u8 ^ 0x5A).collect();
    let error = (t.error != 0).then(|| TsigError::from(t.error));
    let name = Name::from_ascii(&t.key).unwrap_or_else(|_| Name::from_ascii("k.").unwrap());
    let mut r = Record::from_rdata(name, 0, TSIG::new(alg, 1_790_000_000, 300, mac, id, error, other));
    r.dns_class = DNSClass::ANY;
    r
}

/// The harness-owned request handler: answers every request according to the current plan.
pub struct Scripted {
    /// index i < n: records of zone-spec set i; index n + i: the address records of its targets
    sets: Vec<Vec<Record>>,
    soa: Record,
    plan: Arc<Mutex<Plan>>,
}

fn clip(s: &Slice, len: usize) -> std::ops::Range<usize> {
    let from = s.from.min(len);
    from..(from + s.n).min(len)
}

impl Scripted {
    pub fn new(spec: &ZoneSpec) -> (Scripted, Arc<Mutex<Plan>>) {
        let (mut sets, mut glues) = (Vec::new(), Vec::new());
        for (label, t, n, size) in &spec.sets {
            let (recs, glue) = set_records(label, *t, *n, *size);
            sets.push(recs);
            glues.push(glue);
        }
        sets.extend(glues);
        let plan = Arc::new(Mutex::new(Plan::default()));
        (Scripted { sets, soa: soa_record(), plan: plan.clone() }, plan)
    }

    pub fn set_lens(&self) -> Vec<usize> {
        self.sets.iter().map(Vec::len).collect()
    }

    fn pick<'a>(&'a self, slices: &[Slice]) -> Vec<&'a Record> {
        let mut out = Vec::new();
        for s in slices {
            if let Some(set) = self.sets.get(s.set) {
                out.extend(set[clip(s, set.len())].iter());
            }
        }
        out
    }
}

#[async_trait::async_trait]
impl RequestHandler for Scripted {
    async fn handle_request<R: ResponseHandler, T: Time>(&self, request: &Request, mut response_handle: R) {
        let plan = self.plan.lock().map(|p| p.clone()).unwrap_or_default();
        // same construction as Catalog::handle_request
        let resp_edns = match (&request.edns, plan.edns) {
            (Some(req_edns), true) => {
                let mut e = Edns::new();
                e.set_dnssec_ok(req_edns.flags().dnssec_ok);
                e.set_max_payload(req_edns.max_payload().max(512));
                e.set_version(0);
                Some(e)
            }
            _ => None,
        };
        let mut metadata = Metadata::response_from_request(&request.metadata);
        metadata.authoritative = true;
        let (an, ns, ar) = (self.pick(&plan.an), self.pick(&plan.ns), self.pick(&plan.ar));
        let soa = plan.soa.then_some(&self.soa);
        let mut response = MessageResponseBuilder::new(&request.queries, resp_edns.as_ref()).build(metadata, an, ns, soa, ar);
        if let Some(t) = &plan.tsig {
            response.set_signature(Box::new(tsig_record(t, request.metadata.id)));
        }
        let _ = response_handle.send_response(response).await;
    }
}

/// Records per section the handler hands to the builder for this plan and request:
/// [answers, authorities (+ soa slot), additionals + OPT + TSIG].
fn planned_counts(plan: &Plan, lens: &[usize], request_has_edns: bool) -> [usize; 3] {
    let n = |v: &[Slice]| v.iter().map(|s| lens.get(s.set).map_or(0, |l| clip(s, *l).len())).sum::<usize>();
    [n(&plan.an), n(&plan.ns) + plan.soa as usize, n(&plan.ar) + (plan.edns && request_has_edns) as usize + plan.tsig.is_some() as usize]
}

const KEY_NAMES: &[&str] = &["k.", "tsig-key.z.test.", "transfer-key.example.com."];

/// `large`: indices of the sets whose records are big enough (TXT, ≥ 50 octets) that the space left
/// after a cut can hold a TSIG record.
pub fn gen_plan(rng: &mut Rng, lens: &[usize], n_spec_sets: usize, large: &[usize]) -> Plan {
    let nonempty: Vec<usize> = (0..lens.len()).filter(|i| lens[*i] > 0).collect();
    let slice = |rng: &mut Rng, small: bool| -> Slice {
        // main sets (the zone's RRsets) three times out of four, else a set of address records
        let set = if rng.chance(3, 4) { rng.usize_below(n_spec_sets.max(1)) } else { *rng.pick(&nonempty) };
        let len = lens[set].max(1);
        let n = match rng.below(if small { 4 } else { 8 }) {
            0 => 1,
            1 => rng.urange(1, len.min(4)),
            2 | 3 => rng.urange(1, len.min(40)),
            4 => len,
            _ => rng.urange(1, len),
        };
        let from = if rng.chance(1, 3) { rng.usize_below(len - n + 1) } else { 0 };
        Slice { set, from, n }
    };
    let big_records = !large.is_empty() && rng.chance(1, 3);
    let an = match rng.below(10) {
        _ if big_records => {
            let set = *rng.pick(large);
            let n = rng.urange(1, lens[set].max(1));
            vec![Slice { set, from: if rng.bool() { 0 } else { rng.usize_below(lens[set] - n + 1) }, n }]
        }
        0 => vec![],
        1 | 2 => vec![slice(rng, false), slice(rng, true)],
        _ => vec![slice(rng, false)],
    };
    let ns = match rng.below(5) {
        _ if big_records => vec![],
        0 | 1 | 2 => vec![],
        3 => vec![slice(rng, true)],
        _ => vec![slice(rng, false)],
    };
    let ar = match rng.below(5) {
        _ if big_records && rng.chance(2, 3) => vec![],
        0 | 1 | 2 => vec![],
        3 => vec![slice(rng, true)],
        _ => vec![slice(rng, false)],
    };
    let tsig = rng.chance(3, 4).then(|| {
        let key = match rng.below(4) {
            0 => format!("{}.{}.{}.{ORIGIN}", "k".repeat(rng.urange(1, 63)), "e".repeat(rng.urange(1, 63)), "y".repeat(rng.urange(1, 60))),
            i => KEY_NAMES[i as usize - 1].to_string(),
        };
        let (error, other_len) = match rng.below(6) {
            0 => (18, 6), // BADTIME carries the server time
            1 => (0, *rng.pick(&[1usize, 6, 16])),
            _ => (0, 0),
        };
        TsigPlan { key, alg: *rng.pick(&[256u16, 256, 384, 512]), mac_len: *rng.pick(&[16usize, 20, 24, 28, 32, 32, 48, 64]), other_len, error }
    });
    Plan { an, ns, soa: !big_records && rng.chance(1, 4), ar, edns: !rng.chance(1, 4), tsig }
}

/// One scripted exchange (the same request over TCP and over UDP), judged.
pub fn scripted_case(v: &mut Verdicts, rt: &tokio::runtime::Runtime, server: &Server<Scripted>, cell: &Arc<Mutex<Plan>>, lens: &[usize], zseed: u64, req: &[u8], payload: Option<u16>, plan: &Plan) {
    let signed = plan.tsig.is_some();
    let (pfx, tag) = if signed { ("signed", "+tsig") } else { ("scripted", "") };
    let case = |proto: &str| json!({"kind": "server-signed", "zseed": zseed, "request": hex(req), "protocol": proto, "payload": payload, "plan": plan.to_json()});
    match cell.lock() {
        Ok(mut p) => *p = plan.clone(),
        Err(_) => return,
    }
    let Some((tcp, udp)) = exchange(v, rt, server, pfx, tag, req, &case) else {
        return;
    };
    let limit = udp_limit_of(payload);
    let seen = judge_pair(v, pfx, tag, &tcp, &udp, limit, &case);

    // TC iff fewer records came out than the handler put in (needs no reference answer)
    let want = planned_counts(plan, lens, payload.is_some());
    let mut udp_dropped_by_plan = None;
    for (proto, bytes) in [("tcp", &tcp), ("udp", &udp)] {
        let Ok(w) = refwire::walk(bytes) else { continue };
        let got = [w.sections[0].len(), w.sections[1].len(), w.sections[2].len()];
        let observed = json!({"tc": w.header.tc(), "records": got, "returned_len": bytes.len()});
        if (0..3).any(|i| got[i] > want[i]) {
            v.rep.violation("counts", &format!("server|{proto}{tag}|more-than-built"), case(proto), json!({"records_handed_to_builder": want}), observed);
            continue;
        }
        let dropped = got != want;
        if proto == "udp" {
            udp_dropped_by_plan = Some(dropped);
        }
        if w.header.tc() != dropped {
            v.rep.violation("tc", &format!("server|{proto}{tag}|want-{}|plan", dropped as u8), case(proto), json!({"tc": dropped, "records_handed_to_builder": want}), observed);
        }
    }

    if let Some(seen) = seen {
        v.rep.count(&format!("{pfx}_payload/{}", payload.map_or("absent".to_string(), |p| if PAYLOADS.contains(&Some(p)) { p.to_string() } else { "other".to_string() })));
        if !seen.has_reference {
            v.rep.count(&format!("{pfx}_udp_without_reference"));
        }
        if signed {
            // must-observe: signed UDP responses judged, of which truncated, of which TSIG kept / dropped
            let truncated = udp_dropped_by_plan.unwrap_or(seen.udp_truncated);
            v.rep.count("signed_udp_judged");
            match (truncated, seen.udp_has_tsig) {
                (true, true) => v.rep.count("signed_udp_truncated_tsig_kept"),
                (true, false) => v.rep.count("signed_udp_truncated_tsig_dropped"),
                (false, true) => v.rep.count("signed_udp_complete_with_tsig"),
                // complete by the record count and yet no TSIG: cannot happen (TSIG is one of the counted records)
                (false, false) => v.rep.count("signed_udp_complete_without_tsig"),
            }
            if truncated {
                v.rep.count("signed_udp_truncated");
                if let Some(t) = &plan.tsig {
                    v.rep.count(&format!("signed_trunc_mac/{}", t.mac_len));
                }
            }
        }
    }
}

/// The scripted workload of one shard: `n_req` requests over `n_req / 60` generated zones.
pub fn run(v: &mut Verdicts, rt: &tokio::runtime::Runtime, rng: &mut Rng, n_req: u64) {
    let n_zones = (n_req / 60).max(1);
    let mut done = 0u64;
    for z in 0..n_zones {
        let zseed = rng.next_u64() >> 16;
        let spec = zone_spec(zseed);
        let (handler, cell) = Scripted::new(&spec);
        let lens = handler.set_lens();
        let large: Vec<usize> = (0..spec.sets.len()).filter(|i| spec.sets[*i].1 == 16 && spec.sets[*i].3 >= 50).collect();
        let server = Server::new(handler);
        while done < (z + 1) * n_req / n_zones {
            done += 1;
            let plan = gen_plan(rng, &lens, spec.sets.len(), &large);
            let payload = if rng.chance(1, 4) { Some(rng.urange(512, 3000) as u16) } else { *rng.pick(PAYLOADS) };
            let (qname, qtype) = match plan.an.first() {
                Some(s) if s.set < spec.sets.len() => (format!("{}.{ORIGIN}", spec.sets[s.set].0), spec.sets[s.set].1),
                _ => (ORIGIN.to_string(), 6),
            };
            let req = request_bytes(rng.u16(), &qname, qtype, payload, rng.bool(), rng.bool());
            if done == 1 {
                v.rep.sample(|| json!({"workload": "server-signed", "zseed": zseed, "payload": payload, "plan": plan.to_json()}));
            }
            scripted_case(v, rt, &server, &cell, &lens, zseed, &req, payload, &plan);
        }
    }
}

pub fn replay(v: &mut Verdicts, rt: &tokio::runtime::Runtime, c: &Value) {
    let zseed = c["zseed"].as_u64().unwrap_or(0);
    let req = vh::mon::unhex(c["request"].as_str().unwrap_or(""));
    let payload = c["payload"].as_u64().map(|p| p as u16);
    let plan = Plan::from_json(&c["plan"]);
    let (handler, cell) = Scripted::new(&zone_spec(zseed));
    let lens = handler.set_lens();
    let server = Server::new(handler);
    scripted_case(v, rt, &server, &cell, &lens, zseed, &req, payload, &plan);
}
