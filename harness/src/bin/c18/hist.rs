//! C18 full-stack observation point, HISTORY part: several sequential lookups on ONE
//! `NameServerPool<FsRuntime>` (so that `NameServer` pools and re-uses its connections), separated
//! by idle gaps in which the scripted peers do things to the ESTABLISHED connections:
//!
//!   fin-eager            orderly close while idle, the reader task is woken (what a reactor does
//!                        when the FIN arrives)
//!   fin-lazy             orderly close that is found by the next read only (= the FIN is processed
//!                        in the very scheduler tick in which the next request is submitted)
//!   rst-eager            RST while idle, reader woken (read fails with ConnectionReset)
//!   write-fails-*        RST noticed by the next write only (BrokenPipe / ConnectionReset)
//!   no-reply-fin/-rst    the next query on the pooled connection gets FIN / RST after g ms instead
//!                        of a reply (the peer's idle timer fired while the query was on its way)
//!   partial-fin/-rst     the next query on the pooled connection gets half of its reply frame,
//!                        then FIN / RST (peer dies mid-answer)
//!   fin-after-answer     the peer closes g ms (also 0: same segment) after its next TCP answer
//!   udp-send-reset/-other  the next datagram to the server fails in `send_to` (one-shot)
//!
//! Servers that pool a TCP connection: TCP-only, or UDP answering TC=1 + TCP (the TCP connection
//! is the pooled one); optionally a second server (silent, failing slowly / cheaply, healthy, or
//! another pooling server). Scenario JSON is self-contained, discriminator `"mode":"full-history"`.
//! The sockets / runtime provider / probe are those of `full.rs`; the oracle is `histo.rs`.

use std::io;
use std::time::Duration;

use serde_json::{json, Value};
use vh::prng::Rng;

use crate::full::{self, Attempt, Conn, FCall, FEv, FScn, FServer, Inject, Reply, TcpBeh, UdpBeh};
use crate::scn::Strat;

#[derive(Clone, Debug, PartialEq)]
pub struct HEvent {
    pub server: usize,
    /// virtual ms after the previous lookup completed (≤ gap)
    pub at: u64,
    pub what: Inject,
}

#[derive(Clone, Debug, PartialEq)]
pub struct HLookup {
    /// query key (name `q<idx>.c18.example.`, type A)
    pub q: u8,
    /// idle time between the completion of the previous lookup and the start of this one, ms
    pub gap: u64,
    /// what the peers do during that gap
    pub events: Vec<HEvent>,
}

#[derive(Clone, Debug, PartialEq)]
pub struct HScn {
    /// servers + options (callers / later / warm unused)
    pub base: FScn,
    pub lookups: Vec<HLookup>,
}

pub fn inject_text(i: &Inject) -> String {
    match i {
        Inject::Fin { eager: true } => "fin-eager".into(),
        Inject::Fin { eager: false } => "fin-lazy".into(),
        Inject::Rst => "rst-eager".into(),
        Inject::WriteFails { kind } => format!("write-fails:{}", if *kind == io::ErrorKind::BrokenPipe { "broken-pipe" } else { "connection-reset" }),
        Inject::NoReply { g, rst } => format!("no-reply:{}:{g}", if *rst { "rst" } else { "fin" }),
        Inject::Partial { rst } => format!("partial:{}", if *rst { "rst" } else { "fin" }),
        Inject::FinAfterAnswer { g } => format!("fin-after-answer:{g}"),
        Inject::UdpSendFails { closed_class } => format!("udp-send-fails:{}", if *closed_class { "connection-reset" } else { "other" }),
    }
}

pub fn inject_parse(s: &str) -> Option<Inject> {
    let p: Vec<&str> = s.split(':').collect();
    let rst = |t: &str| match t {
        "rst" => Some(true),
        "fin" => Some(false),
        _ => None,
    };
    Some(match p[0] {
        "fin-eager" => Inject::Fin { eager: true },
        "fin-lazy" => Inject::Fin { eager: false },
        "rst-eager" => Inject::Rst,
        "write-fails" => Inject::WriteFails {
            kind: match *p.get(1)? {
                "broken-pipe" => io::ErrorKind::BrokenPipe,
                "connection-reset" => io::ErrorKind::ConnectionReset,
                _ => return None,
            },
        },
        "no-reply" => Inject::NoReply { rst: rst(p.get(1)?)?, g: p.get(2)?.parse().ok()? },
        "partial" => Inject::Partial { rst: rst(p.get(1)?)? },
        "fin-after-answer" => Inject::FinAfterAnswer { g: p.get(1)?.parse().ok()? },
        "udp-send-fails" => Inject::UdpSendFails {
            closed_class: match *p.get(1)? {
                "connection-reset" => true,
                "other" => false,
                _ => return None,
            },
        },
        _ => return None,
    })
}

/// event class (signatures, counters)
pub fn inject_class(i: &Inject) -> &'static str {
    match i {
        Inject::Fin { eager: true } => "fin-eager",
        Inject::Fin { eager: false } => "fin-lazy",
        Inject::Rst => "rst-eager",
        Inject::WriteFails { kind } => {
            if *kind == io::ErrorKind::BrokenPipe {
                "write-fails-broken-pipe"
            } else {
                "write-fails-connection-reset"
            }
        }
        Inject::NoReply { rst: false, .. } => "no-reply-fin",
        Inject::NoReply { rst: true, .. } => "no-reply-rst",
        Inject::Partial { rst: false } => "partial-fin",
        Inject::Partial { rst: true } => "partial-rst",
        Inject::FinAfterAnswer { .. } => "fin-after-answer",
        Inject::UdpSendFails { closed_class: true } => "udp-send-reset",
        Inject::UdpSendFails { closed_class: false } => "udp-send-other",
    }
}

impl HScn {
    pub fn to_json(&self) -> Value {
        let mut v = self.base.to_json();
        v["mode"] = json!("full-history");
        v["lookups"] = Value::Array(
            self.lookups
                .iter()
                .map(|l| {
                    json!({
                        "q": l.q,
                        "gap_ms": l.gap,
                        "events": l.events.iter().map(|e| json!({"server": e.server, "at_ms": e.at, "what": inject_text(&e.what)})).collect::<Vec<_>>(),
                    })
                })
                .collect(),
        );
        v
    }

    pub fn from_json(v: &Value) -> Option<HScn> {
        let base = FScn::from_json(v)?;
        let mut lookups = Vec::new();
        for l in v.get("lookups")?.as_array()? {
            let mut events = Vec::new();
            for e in l.get("events")?.as_array()? {
                let server = e.get("server")?.as_u64()? as usize;
                if server >= base.servers.len() {
                    return None;
                }
                events.push(HEvent { server, at: e.get("at_ms")?.as_u64()?, what: inject_parse(e.get("what")?.as_str()?)? });
            }
            lookups.push(HLookup { q: l.get("q")?.as_u64()? as u8, gap: l.get("gap_ms")?.as_u64()?, events });
        }
        if lookups.is_empty() || base.servers.is_empty() {
            return None;
        }
        Some(HScn { base, lookups })
    }

    pub fn canonical(&self) -> String {
        self.to_json().to_string()
    }

    pub fn n_events(&self) -> usize {
        self.lookups.iter().map(|l| l.events.len()).sum()
    }
}

// ---------------------------------------------------------------------------------------------
// generator

fn small(rng: &mut Rng) -> u64 {
    *rng.pick(&[0u64, 1, 7, 20, 50, 110])
}

/// a healthy server that pools a TCP connection: TCP-only, or UDP TC=1 + TCP
fn pooling_server(rng: &mut Rng) -> FServer {
    let l = if rng.chance(3, 4) { small(rng) } else { *rng.pick(&[250u64, 400]) };
    let tcp = Some(TcpBeh { conn: Conn::Ok { c: small(rng) }, reply: Reply::Answer { l } });
    let udp = rng.bool().then(|| UdpBeh::Trunc { d: small(rng).max(1) });
    FServer { udp, tcp, trust_nx: rng.bool() }
}

pub fn pools_tcp(s: &FServer) -> bool {
    matches!(&s.tcp, Some(TcpBeh { conn: Conn::Ok { .. }, reply: Reply::Answer { .. } })) && matches!(s.udp, None | Some(UdpBeh::Trunc { .. }))
}

/// a server that keeps a lookup busy for the whole timeout
fn silent_server(rng: &mut Rng) -> FServer {
    match rng.weighted(&[3, 3, 2]) {
        0 => FServer { udp: Some(UdpBeh::Silent), tcp: None, trust_nx: false },
        1 => FServer { udp: None, tcp: Some(TcpBeh { conn: Conn::Ok { c: small(rng) }, reply: Reply::Silent }), trust_nx: false },
        _ => FServer { udp: Some(UdpBeh::Trunc { d: small(rng).max(1) }), tcp: Some(TcpBeh { conn: Conn::Ok { c: small(rng) }, reply: Reply::Silent }), trust_nx: false },
    }
}

/// a server that fails after a noticeable part of the budget
fn expensive_failure(rng: &mut Rng, t: u64, ct: u64) -> FServer {
    let d = *rng.pick(&[400u64, 700, 1100, 1500]).min(&(t * 6 / 10));
    match rng.weighted(&[3, 2, 2, 2]) {
        0 => FServer { udp: None, tcp: Some(TcpBeh { conn: Conn::Hang, reply: Reply::Silent }), trust_nx: false },
        1 => FServer { udp: None, tcp: Some(TcpBeh { conn: Conn::Refused { c: d.min(ct) }, reply: Reply::Silent }), trust_nx: false },
        2 => FServer { udp: Some(UdpBeh::RecvErr { d }), tcp: None, trust_nx: false },
        _ => FServer { udp: Some(UdpBeh::Nx { d }), tcp: None, trust_nx: false },
    }
}

fn cheap_failure(rng: &mut Rng) -> FServer {
    let d = small(rng);
    match rng.weighted(&[2, 2, 2, 2, 2]) {
        0 => FServer { udp: Some(UdpBeh::SendErr), tcp: None, trust_nx: false },
        1 => FServer { udp: Some(UdpBeh::RecvErr { d }), tcp: None, trust_nx: false },
        2 => FServer { udp: Some(UdpBeh::Nx { d }), tcp: None, trust_nx: false },
        3 => FServer { udp: None, tcp: Some(TcpBeh { conn: Conn::Refused { c: d }, reply: Reply::Silent }), trust_nx: false },
        _ => FServer { udp: None, tcp: Some(TcpBeh { conn: Conn::Ok { c: small(rng) }, reply: if rng.bool() { Reply::Close { l: d } } else { Reply::Reset { l: d } } }), trust_nx: false },
    }
}

fn healthy_other(rng: &mut Rng) -> FServer {
    if rng.bool() {
        FServer { udp: Some(UdpBeh::Answer { d: small(rng) }), tcp: None, trust_nx: rng.bool() }
    } else {
        FServer { udp: None, tcp: Some(TcpBeh { conn: Conn::Ok { c: small(rng) }, reply: Reply::Answer { l: small(rng) } }), trust_nx: rng.bool() }
    }
}

fn gen_event(rng: &mut Rng, servers: &[FServer], targets: &[usize], gap: u64, first: bool) -> Option<HEvent> {
    let server = *rng.pick(targets);
    let has_udp = servers[server].udp.is_some();
    // before the first lookup nothing is established: only the per-server one-shots make sense
    let w: [u32; 12] = if first { [0, 0, 0, 0, 0, 0, 0, 0, 0, 6, 2, 2] } else { [16, 10, 8, 10, 8, 10, 8, 8, 6, 8, 3, 3] };
    let what = match rng.weighted(&w) {
        0 => Inject::Fin { eager: true },
        1 => Inject::Fin { eager: false },
        2 => Inject::Rst,
        3 => Inject::WriteFails { kind: io::ErrorKind::BrokenPipe },
        4 => Inject::WriteFails { kind: io::ErrorKind::ConnectionReset },
        5 => Inject::NoReply { g: *rng.pick(&[0u64, 1, 7, 50, 250]), rst: false },
        6 => Inject::NoReply { g: *rng.pick(&[0u64, 1, 7, 50, 250]), rst: true },
        7 => Inject::Partial { rst: false },
        8 => Inject::Partial { rst: true },
        9 => Inject::FinAfterAnswer { g: *rng.pick(&[0u64, 0, 1, 7, 50]) },
        k => {
            if !has_udp {
                return None;
            }
            Inject::UdpSendFails { closed_class: k == 10 }
        }
    };
    // strictly inside the gap (an event AT the start instant of the lookup is what fin-lazy models)
    let at = if gap <= 1 { 0 } else { *rng.pick(&[0, 1.min(gap - 1), gap / 2, gap - 1]) };
    Some(HEvent { server, at, what })
}

pub fn gen_hist(rng: &mut Rng) -> HScn {
    let t = *rng.pick(&[2000u64, 5000]);
    let ct = if t == 2000 { *rng.pick(&[500u64, 1000, 3000]) } else { *rng.pick(&[500u64, 1000, 2000, 7000]) };
    let a = pooling_server(rng);
    let two = rng.chance(3, 5);
    let (family, mut servers) = if !two {
        ("history-solo", vec![a])
    } else {
        match rng.weighted(&[28, 20, 22, 18, 12]) {
            0 => ("history-silent-other", vec![a, silent_server(rng)]),
            1 => ("history-expensive-other", vec![a, expensive_failure(rng, t, ct)]),
            2 => ("history-cheap-other", vec![a, cheap_failure(rng)]),
            3 => ("history-healthy-other", vec![a, healthy_other(rng)]),
            _ => ("history-two-pooling", vec![a, pooling_server(rng)]),
        }
    };
    if servers.len() == 2 && rng.chance(1, 3) {
        servers.swap(0, 1);
    }
    let n = servers.len();
    // a QueryStatistics order of ≥ 2 servers evolves with SRTTs measured on the REAL clock
    // (name_server.rs uses std::time::Instant): not reproducible, not generated
    let strat = if n == 1 {
        *rng.pick(&Strat::ALL)
    } else if rng.chance(2, 3) {
        Strat::User
    } else {
        Strat::Rr
    };
    let conc = if rng.chance(7, 10) { 1 } else { 2 };
    let targets: Vec<usize> = (0..n).filter(|i| pools_tcp(&servers[*i])).collect();

    let k = 2 + rng.usize_below(4);
    let mut lookups: Vec<HLookup> = Vec::new();
    let mut q = 0u8;
    for i in 0..k {
        if i > 0 && !rng.chance(9, 20) {
            q = (q + 1 + rng.below(2) as u8) % 3;
        }
        let gap = if i == 0 { 0 } else { *rng.pick(&[1u64, 7, 50, 400, 1500, 12_000, 65_000]) };
        let mut events = Vec::new();
        let n_ev = if i == 0 {
            usize::from(rng.chance(1, 6))
        } else {
            match rng.weighted(&[15, 70, 15]) {
                0 => 0,
                1 => 1,
                _ => 2,
            }
        };
        for _ in 0..n_ev {
            if let Some(e) = gen_event(rng, &servers, &targets, gap, i == 0) {
                events.push(e);
            }
        }
        events.sort_by_key(|e| e.at);
        lookups.push(HLookup { q, gap, events });
    }
    HScn {
        base: FScn {
            family: family.into(),
            servers,
            strat,
            conc,
            timeout: t,
            connect_timeout: ct,
            retry: None,
            max_active: 32,
            warm: Vec::new(),
            callers: Vec::new(),
            later: false,
        },
        lookups,
    }
}

// ---------------------------------------------------------------------------------------------
// runner

#[derive(Debug)]
pub struct HRun {
    /// one per lookup that completed (idx = position in the history)
    pub calls: Vec<FCall>,
    /// per lookup: servers whose one-shot UDP send failure was still armed when it started
    pub udp_armed: Vec<Vec<usize>>,
    /// per lookup: (length of the socket log when it started, when it completed)
    pub log_idx: Vec<(usize, usize)>,
    pub log: Vec<FEv>,
    pub attempts: Vec<Attempt>,
    pub runaway: bool,
    pub stuck: bool,
}

pub fn run_hist(h: &HScn) -> HRun {
    let rt = tokio::runtime::Builder::new_current_thread().enable_time().start_paused(true).build().expect("runtime");
    rt.block_on(async {
        let (net, probe) = full::build(&h.base).await;
        let guard = Duration::from_millis(h.base.timeout * 100);
        let ms = Duration::from_millis;
        let mut calls = Vec::new();
        let mut udp_armed = Vec::new();
        let mut log_idx = Vec::new();
        let mut stuck = false;
        for (k, lk) in h.lookups.iter().enumerate() {
            let mut elapsed = 0u64;
            let mut evs: Vec<&HEvent> = lk.events.iter().collect();
            evs.sort_by_key(|e| e.at);
            for e in evs {
                let at = e.at.min(lk.gap);
                if at > elapsed {
                    tokio::time::sleep(ms(at - elapsed)).await;
                    elapsed = at;
                }
                net.inject(e.server, &e.what);
            }
            if lk.gap > elapsed {
                tokio::time::sleep(ms(lk.gap - elapsed)).await;
            }
            udp_armed.push(net.udp_armed());
            let i0 = net.log_len();
            match tokio::time::timeout(guard, full::lookup(&probe, &net, k, lk.q, 0)).await {
                Ok(c) => {
                    calls.push(c);
                    log_idx.push((i0, net.log_len()));
                }
                Err(_) => {
                    stuck = true;
                    break;
                }
            }
        }
        // let what is scheduled right after the last answer (fin-after-answer) happen
        tokio::time::sleep(ms(1)).await;
        let (log, attempts, runaway) = net.snapshot();
        HRun { calls, udp_armed, log_idx, log, attempts, runaway, stuck }
    })
}
