//! C06 — a signature is accepted only for the exact RRset, key and time window.
//!
//! Observation point: `DnssecDnsHandle::send` over a scripted upstream (`Scripted: DnsHandle`),
//! validator clock = harness variable (custom RuntimeProvider), validation-cache clock tied to
//! it through hook H7. Trust anchor = the zone key(s), so only RRSIG acceptance is in play.
//! Oracle: independent verifier (`refsign`, ring directly) over the *presented* bytes.
//!
//! Only `Secure` verdicts are judged (plus the TTL bound on Secure records), so a stricter
//! validator can never cause an alarm. Don't-cares: benign edits that leave the signed data
//! unchanged (received TTL, record order, letter case of owner names, duplicates) — the
//! independent verifier decides, not the mutation label.

#[path = "../c05/refsign.rs"]
mod refsign;
mod vrt;

use std::collections::HashMap;
use std::pin::Pin;
use std::sync::{Arc, Mutex};

use futures::stream::{self, Stream, StreamExt};
use hickory_net::dnssec::DnssecDnsHandle;
use hickory_net::xfer::DnsHandle;
use hickory_net::NetError;
use hickory_proto::dnssec::{Algorithm, Proof, PublicKeyBuf, TrustAnchors};
use hickory_proto::op::{DnsRequest, DnsRequestOptions, DnsResponse, Query};
use hickory_proto::rr::{RecordType};
use serde_json::{json, Value};

use refsign::{RefKey, SigFields};
use vh::gen::{self, WireBuilder};
use vh::hk;
use vh::mon::{self, hex, unhex, Ctx, Reporter};
use vh::prng::{fnv64, Rng};
use vh::refwire::{self, fold, Labels, WHeader};

const RSA1: &[u8] = include_bytes!("../../../data/rsa-2048-1.pk8");

// ---------------------------------------------------------------------------------------------
// presented data (raw)

#[derive(Clone, Debug, PartialEq)]
struct PRec {
    owner: Labels,
    rtype: u16,
    class: u16,
    ttl: u32,
    rdata: Vec<u8>,
}

#[derive(Clone, Debug, PartialEq)]
struct PSig {
    owner: Labels,
    class: u16,
    ttl: u32,
    f: SigFields,
    sig: Vec<u8>,
}

impl PartialEq for SigFields {
    fn eq(&self, o: &Self) -> bool {
        self.type_covered == o.type_covered
            && self.algorithm == o.algorithm
            && self.labels == o.labels
            && self.original_ttl == o.original_ttl
            && self.expiration == o.expiration
            && self.inception == o.inception
            && self.key_tag == o.key_tag
            && self.signer == o.signer
    }
}

#[derive(Clone, Debug, PartialEq)]
struct PKey {
    owner: Labels,
    ttl: u32,
    flags: u16,
    alg: u8,
    public: Vec<u8>,
}

impl PKey {
    fn rdata(&self) -> Vec<u8> {
        refsign::dnskey_rdata(self.flags, self.alg, &self.public)
    }
}

#[derive(Clone, Debug, PartialEq)]
struct Presented {
    qname: Labels,
    qtype: u16,
    recs: Vec<PRec>,
    sigs: Vec<PSig>,
    zone: Labels,
    keys: Vec<PKey>,
    key_sigs: Vec<PSig>,
}

fn sig_rdata(s: &PSig) -> Vec<u8> {
    let mut out = Vec::new();
    out.extend_from_slice(&s.f.type_covered.to_be_bytes());
    out.push(s.f.algorithm);
    out.push(s.f.labels);
    out.extend_from_slice(&s.f.original_ttl.to_be_bytes());
    out.extend_from_slice(&s.f.expiration.to_be_bytes());
    out.extend_from_slice(&s.f.inception.to_be_bytes());
    out.extend_from_slice(&s.f.key_tag.to_be_bytes());
    refwire::put_name(&mut out, &s.f.signer); // presented case
    out.extend_from_slice(&s.sig);
    out
}

fn response_wire(qname: &Labels, qtype: u16, recs: &[(Labels, u16, u16, u32, Vec<u8>)]) -> Vec<u8> {
    let mut b = Vec::new();
    refwire::put_header(&mut b, &WHeader { id: 0, flags: 0x8400, qd: 1, an: recs.len() as u16, ns: 0, ar: 0 });
    refwire::put_question(&mut b, qname, qtype, 1);
    for (o, t, c, ttl, rd) in recs {
        refwire::put_record(&mut b, o, *t, *c, *ttl, rd);
    }
    b
}

impl Presented {
    fn answer_wire(&self) -> Vec<u8> {
        let mut v: Vec<(Labels, u16, u16, u32, Vec<u8>)> = self.recs.iter().map(|r| (r.owner.clone(), r.rtype, r.class, r.ttl, r.rdata.clone())).collect();
        v.extend(self.sigs.iter().map(|s| (s.owner.clone(), 46, s.class, s.ttl, sig_rdata(s))));
        response_wire(&self.qname, self.qtype, &v)
    }
    fn dnskey_wire(&self) -> Vec<u8> {
        let mut v: Vec<(Labels, u16, u16, u32, Vec<u8>)> = self.keys.iter().map(|k| (k.owner.clone(), 48, 1, k.ttl, k.rdata())).collect();
        v.extend(self.key_sigs.iter().map(|s| (s.owner.clone(), 46, s.class, s.ttl, sig_rdata(s))));
        response_wire(&self.zone, 48, &v)
    }
    fn to_json(&self) -> Value {
        let l = |x: &Labels| x.iter().map(|l| hex(l)).collect::<Vec<_>>();
        let s = |s: &PSig| json!({"owner": l(&s.owner), "class": s.class, "ttl": s.ttl, "type_covered": s.f.type_covered, "algorithm": s.f.algorithm,
            "labels": s.f.labels, "original_ttl": s.f.original_ttl, "expiration": s.f.expiration, "inception": s.f.inception, "key_tag": s.f.key_tag,
            "signer": l(&s.f.signer), "sig": hex(&s.sig)});
        json!({
            "qname": l(&self.qname), "qtype": self.qtype, "zone": l(&self.zone),
            "recs": self.recs.iter().map(|r| json!({"owner": l(&r.owner), "rtype": r.rtype, "class": r.class, "ttl": r.ttl, "rdata": hex(&r.rdata)})).collect::<Vec<_>>(),
            "sigs": self.sigs.iter().map(s).collect::<Vec<_>>(),
            "keys": self.keys.iter().map(|k| json!({"owner": l(&k.owner), "ttl": k.ttl, "flags": k.flags, "alg": k.alg, "public": hex(&k.public)})).collect::<Vec<_>>(),
            "key_sigs": self.key_sigs.iter().map(s).collect::<Vec<_>>(),
        })
    }
    fn from_json(v: &Value) -> Option<Presented> {
        let l = |x: &Value| -> Labels { x.as_array().map(|a| a.iter().map(|y| unhex(y.as_str().unwrap_or(""))).collect()).unwrap_or_default() };
        let u = |x: &Value| x.as_u64().unwrap_or(0);
        let s = |x: &Value| PSig {
            owner: l(&x["owner"]),
            class: u(&x["class"]) as u16,
            ttl: u(&x["ttl"]) as u32,
            f: SigFields {
                type_covered: u(&x["type_covered"]) as u16,
                algorithm: u(&x["algorithm"]) as u8,
                labels: u(&x["labels"]) as u8,
                original_ttl: u(&x["original_ttl"]) as u32,
                expiration: u(&x["expiration"]) as u32,
                inception: u(&x["inception"]) as u32,
                key_tag: u(&x["key_tag"]) as u16,
                signer: l(&x["signer"]),
            },
            sig: unhex(x["sig"].as_str().unwrap_or("")),
        };
        Some(Presented {
            qname: l(&v["qname"]),
            qtype: u(&v["qtype"]) as u16,
            zone: l(&v["zone"]),
            recs: v["recs"].as_array()?.iter().map(|r| PRec { owner: l(&r["owner"]), rtype: u(&r["rtype"]) as u16, class: u(&r["class"]) as u16, ttl: u(&r["ttl"]) as u32, rdata: unhex(r["rdata"].as_str().unwrap_or("")) }).collect(),
            sigs: v["sigs"].as_array()?.iter().map(s).collect(),
            keys: v["keys"].as_array()?.iter().map(|k| PKey { owner: l(&k["owner"]), ttl: u(&k["ttl"]) as u32, flags: u(&k["flags"]) as u16, alg: u(&k["alg"]) as u8, public: unhex(k["public"].as_str().unwrap_or("")) }).collect(),
            key_sigs: v["key_sigs"].as_array()?.iter().map(s).collect(),
        })
    }
}

// ---------------------------------------------------------------------------------------------
// scripted upstream

#[derive(Clone)]
struct Scripted {
    table: Arc<Mutex<HashMap<(Labels, u16), Vec<u8>>>>,
    log: Arc<Mutex<Vec<(Labels, u16)>>>,
}

impl Scripted {
    fn new() -> Self {
        Self { table: Default::default(), log: Default::default() }
    }
    fn load(&self, p: &Presented) {
        let mut t = self.table.lock().unwrap();
        t.clear();
        t.insert((fold(&p.qname), p.qtype), p.answer_wire());
        t.insert((fold(&p.zone), 48), p.dnskey_wire());
    }
}

impl DnsHandle for Scripted {
    type Response = Pin<Box<dyn Stream<Item = Result<DnsResponse, NetError>> + Send>>;
    type Runtime = vrt::VRuntime;
    fn send(&self, request: DnsRequest) -> Self::Response {
        let q = request.queries.first().cloned();
        let table = self.table.clone();
        let log = self.log.clone();
        Box::pin(stream::once(async move {
            let Some(q) = q else { return Err(NetError::from("no query")) };
            let name = fold(&hk::labels_of(&q.name));
            let qt = u16::from(q.query_type);
            log.lock().unwrap().push((name.clone(), qt));
            let wire = table.lock().unwrap().get(&(name.clone(), qt)).cloned().unwrap_or_else(|| response_wire(&name, qt, &[]));
            DnsResponse::from_buffer(wire).map_err(|e| NetError::from(format!("undecodable upstream response: {e}")))
        }))
    }
}

// ---------------------------------------------------------------------------------------------
// independent verifier

struct Verdict {
    /// remaining signature lifetime (max over the valid signatures)
    ttl_bound: u32,
    /// RFC 4035 §5.3.3 minimum (informational)
    rfc_bound: u32,
}

fn serial_distance(from: u32, to: u32) -> u32 {
    to.wrapping_sub(from)
}

fn window_ok(f: &SigFields, now: u32) -> bool {
    refsign::serial_le(f.inception, now) && refsign::serial_le(now, f.expiration)
}

fn key_usable_for(k: &PKey, s: &PSig) -> bool {
    fold(&k.owner) == fold(&s.f.signer)
        && k.alg == s.f.algorithm
        && refsign::key_tag(&k.rdata()) == s.f.key_tag
        && k.flags & 0x0100 != 0
        && k.flags & 0x0080 == 0
}

/// keys of the presented DNSKEY RRset that the trust anchors authenticate at `now`
fn authenticated_keys<'a>(p: &'a Presented, anchors: &[(u8, Vec<u8>)], now: u32) -> Vec<&'a PKey> {
    let zone = fold(&p.zone);
    let keyset: Vec<&PKey> = p.keys.iter().filter(|k| fold(&k.owner) == zone).collect();
    let anchored = |k: &PKey| anchors.iter().any(|(a, pk)| *a == k.alg && *pk == k.public);
    let rdatas: Vec<Vec<u8>> = keyset.iter().map(|k| k.rdata()).collect();
    let set_signed = p.key_sigs.iter().any(|s| {
        fold(&s.owner) == zone
            && s.f.type_covered == 48
            && s.class == 1
            && (s.f.labels as usize) <= refsign::label_count(&zone)
            && window_ok(&s.f, now)
            && keyset.iter().any(|k| {
                anchored(k)
                    && key_usable_for(k, s)
                    && refsign::signed_data(&zone, 1, &s.f, &rdatas).map(|d| refsign::verify(k.alg, &k.public, &d, &s.sig)).unwrap_or(false)
            })
    });
    if set_signed {
        keyset
    } else {
        keyset.into_iter().filter(|k| anchored(k)).collect()
    }
}

/// Is a Secure verdict for the RRset (owner, rtype) of the presented answer justified?
fn rrset_valid(p: &Presented, anchors: &[(u8, Vec<u8>)], owner: &Labels, rtype: u16, class: u16, now: u32) -> Option<Verdict> {
    // only class IN is ever signed here; records of any other class belong to a different RRset that
    // no presented RRSIG covers. The IN RRset is judged on its own members (a validator may either
    // reject the whole answer because of the stray record, or keep the IN set apart and accept it).
    if class != 1 {
        return None;
    }
    let recs: Vec<&PRec> = p.recs.iter().filter(|r| fold(&r.owner) == *owner && r.rtype == rtype && r.class == 1).collect();
    if recs.is_empty() {
        return None;
    }
    let rdatas: Vec<Vec<u8>> = recs.iter().map(|r| r.rdata.clone()).collect();
    let max_ttl = recs.iter().map(|r| r.ttl).max().unwrap_or(0);
    let keys = authenticated_keys(p, anchors, now);
    let mut best: Option<(u32, u32)> = None;
    for s in p.sigs.iter().filter(|s| fold(&s.owner) == *owner && s.f.type_covered == rtype) {
        if s.class != 1 || (s.f.labels as usize) > refsign::label_count(owner) || !window_ok(&s.f, now) {
            continue;
        }
        let Ok(data) = refsign::signed_data(owner, 1, &s.f, &rdatas) else { continue };
        for k in &keys {
            if fold(&k.owner) == fold(&p.zone) && key_usable_for(k, s) && refsign::verify(k.alg, &k.public, &data, &s.sig) {
                // The property statement bounds the TTL by the remaining signature lifetime only;
                // the stricter RFC 4035 §5.3.3 minimum (received TTL, Original TTL) is tracked
                // separately as information.
                let bound = serial_distance(now, s.f.expiration);
                let rfc = max_ttl.min(s.f.original_ttl).min(bound);
                best = Some(best.map_or((bound, rfc), |b| (b.0.max(bound), b.1.max(rfc))));
            }
        }
    }
    best.map(|(ttl_bound, rfc_bound)| Verdict { ttl_bound, rfc_bound })
}

// ---------------------------------------------------------------------------------------------
// base case generation and mutations

struct Zone {
    name: Labels,
    keys: Vec<RefKey>, // anchored
    flags: Vec<u16>,
}

fn sign(key: &RefKey, flags: u16, zone: &Labels, owner: &Labels, rtype: u16, rdatas: &[Vec<u8>], labels: u8, original_ttl: u32, inception: u32, expiration: u32, ttl: u32, signer_case: Option<Labels>) -> PSig {
    let tag = refsign::key_tag(&refsign::dnskey_rdata(flags, key.algorithm(), &key.dnskey_public()));
    let f = SigFields { type_covered: rtype, algorithm: key.algorithm(), labels, original_ttl, expiration, inception, key_tag: tag, signer: signer_case.unwrap_or_else(|| zone.clone()) };
    let data = refsign::signed_data(owner, 1, &f, rdatas).expect("signed data");
    PSig { owner: owner.clone(), class: 1, ttl, f, sig: key.sign(&data) }
}

const TARGET_TYPES: &[u16] = &[1, 28, 16, 15, 2, 33, 12, 52, 257, 99];

fn raw_rdata(rng: &mut Rng, rtype: u16) -> Vec<u8> {
    match rtype {
        257 => {
            let mut b = vec![0u8, 5];
            b.extend_from_slice(b"issue");
            b.extend_from_slice(b"ca.example");
            b.push(b'a' + rng.below(26) as u8);
            b
        }
        99 => rng.bytes_between(1, 20), // opaque/unknown type
        _ => {
            let mut w = WireBuilder::new(0);
            let mut names = |r: &mut Rng| {
                let mut n = gen::name(r, gen::NameStyle::Host);
                n.truncate(4);
                n
            };
            w.rdata(rng, rtype, &mut names);
            w.buf
        }
    }
}

struct Base {
    p: Presented,
    inception: u32,
    expiration: u32,
    key_index: usize,
}

fn gen_base(rng: &mut Rng, z: &Zone) -> Base {
    let mut owner = z.name.clone();
    for _ in 0..rng.below(3) {
        owner.insert(0, gen::label(rng, gen::NameStyle::Host, 10));
    }
    let rtype = *rng.pick(TARGET_TYPES);
    let n = rng.urange(1, 4);
    let ttl = *rng.pick(&[30u32, 300, 3600, 86400]);
    let mut rdatas: Vec<Vec<u8>> = Vec::new();
    while rdatas.len() < n {
        let r = raw_rdata(rng, rtype);
        if !rdatas.contains(&r) {
            rdatas.push(r);
        }
    }
    // window: usually around "now" (T0), sometimes straddling the u32 wrap
    let (inception, expiration) = match rng.below(6) {
        0 => (0xffff_f000u32, 0x0000_1000u32),
        1 => (0x7fff_f000, 0x8000_1000),
        _ => {
            let i = 1_700_000_000u32 - rng.range(10, 100_000) as u32;
            (i, i + rng.range(200, 10_000_000) as u32)
        }
    };
    let original_ttl = if rng.chance(1, 3) { ttl } else { *rng.pick(&[60u32, 300, 7200, 0xffff_ffff]) };
    let ki = rng.usize_below(z.keys.len());
    let labels = refsign::label_count(&owner) as u8;
    let sig = sign(&z.keys[ki], z.flags[ki], &z.name, &owner, rtype, &rdatas, labels, original_ttl, inception, expiration, ttl, None);
    let recs: Vec<PRec> = rdatas.iter().map(|r| PRec { owner: owner.clone(), rtype, class: 1, ttl, rdata: r.clone() }).collect();
    let keys: Vec<PKey> = z.keys.iter().zip(z.flags.iter()).map(|(k, f)| PKey { owner: z.name.clone(), ttl: 3600, flags: *f, alg: k.algorithm(), public: k.dnskey_public() }).collect();
    let key_rdatas: Vec<Vec<u8>> = keys.iter().map(|k| k.rdata()).collect();
    let ks = sign(&z.keys[0], z.flags[0], &z.name, &z.name, 48, &key_rdatas, refsign::label_count(&z.name) as u8, 3600, inception, expiration, 3600, None);
    Base { p: Presented { qname: owner, qtype: rtype, recs, sigs: vec![sig], zone: z.name.clone(), keys, key_sigs: vec![ks] }, inception, expiration, key_index: ki }
}

fn flip_label_case(l: &mut Labels) -> bool {
    for lab in l.iter_mut() {
        for c in lab.iter_mut() {
            if c.is_ascii_alphabetic() {
                *c ^= 0x20;
                return true;
            }
        }
    }
    false
}

const MUTATIONS: &[&str] = &[
    "none",
    "rec-rdata-bit",
    "rec-owner-octet",
    "rec-owner-case",
    "rec-class",
    "rec-add-other-class",
    "rec-type",
    "rec-add",
    "rec-remove",
    "rec-duplicate",
    "rec-ttl",
    "rec-reorder",
    "sig-type-covered",
    "sig-algorithm",
    "sig-labels-minus",
    "sig-labels-plus",
    "sig-original-ttl",
    "sig-expiration-plus",
    "sig-expiration-minus",
    "sig-inception-minus",
    "sig-inception-plus",
    "sig-key-tag",
    "sig-signer-other",
    "sig-signer-case",
    "sig-signature-bit",
    "sig-signature-truncate",
    "sig-owner-other",
    "sig-class",
    "sig-remove",
    "sig-extra-bad-first",
    "key-clear-zone-flag",
    "key-set-revoke",
    "key-toggle-sep",
    "key-algorithm",
    "key-public-bit",
    "key-replaced-by-attacker",
    "key-attacker-added-unsigned",
    "key-standby-added-signed",
    "key-nonzone-added-signed",
    "key-revoked-resigned",
    "key-revoked-vouches-for-zsk",
    "keysig-remove",
    "keysig-signature-bit",
    "attacker-resigned-all",
];

struct Attacker {
    key: RefKey,
}

/// Apply mutation `m` to a copy of the honest presentation. Returns None if not applicable.
fn mutate(rng: &mut Rng, b: &Base, z: &Zone, atk: &Attacker, m: &str) -> Option<Presented> {
    let mut p = b.p.clone();
    let nrec = p.recs.len();
    let i = rng.usize_below(nrec);
    match m {
        "none" => {}
        "rec-rdata-bit" => {
            let r = &mut p.recs[i].rdata;
            if r.is_empty() {
                return None;
            }
            let pos = rng.usize_below(r.len());
            r[pos] ^= 1 << rng.below(8);
        }
        "rec-owner-octet" => {
            let o = &mut p.recs[i].owner;
            if o.is_empty() {
                return None;
            }
            let li = rng.usize_below(o.len());
            let ci = rng.usize_below(o[li].len());
            o[li][ci] = if o[li][ci] == b'q' { b'r' } else { b'q' };
            if nrec == 1 {
                p.qname = p.recs[0].owner.clone();
                for s in p.sigs.iter_mut() {
                    s.owner = p.qname.clone();
                }
            }
        }
        "rec-owner-case" => {
            if !flip_label_case(&mut p.recs[i].owner) {
                return None;
            }
        }
        "rec-class" => p.recs[i].class = 3,
        "rec-add-other-class" => {
            // an unsigned record of the same owner and type but another class, spliced in at any position
            let mut r = p.recs[i].clone();
            r.class = *rng.pick(&[3u16, 4, 254, 255, 2, 1000]);
            if rng.chance(1, 2) {
                r.rdata = raw_rdata(rng, r.rtype);
            }
            let at = rng.usize_below(p.recs.len() + 1);
            p.recs.insert(at, r);
        }
        "rec-type" => {
            if matches!(p.qtype, 1 | 28) {
                return None; // fixed-length rdata would not decode as another type
            }
            for r in p.recs.iter_mut() {
                r.rtype = 99;
            }
            p.qtype = 99;
        }
        "rec-add" => {
            let mut r = p.recs[i].clone();
            r.rdata = raw_rdata(rng, r.rtype);
            p.recs.push(r);
        }
        "rec-remove" => {
            if nrec < 2 {
                return None;
            }
            p.recs.remove(i);
        }
        "rec-duplicate" => {
            let r = p.recs[i].clone();
            p.recs.push(r);
        }
        "rec-ttl" => p.recs[i].ttl = p.recs[i].ttl / 2 + rng.below(5) as u32,
        "rec-reorder" => {
            if nrec < 2 {
                return None;
            }
            p.recs.reverse();
        }
        "sig-type-covered" => p.sigs[0].f.type_covered ^= 1 << rng.below(4),
        "sig-algorithm" => p.sigs[0].f.algorithm = *rng.pick(&[8u8, 10, 13, 14, 15, 5, 0]),
        "sig-labels-minus" => {
            if p.sigs[0].f.labels == 0 {
                return None;
            }
            p.sigs[0].f.labels -= 1
        }
        "sig-labels-plus" => p.sigs[0].f.labels += 1,
        "sig-original-ttl" => p.sigs[0].f.original_ttl = p.sigs[0].f.original_ttl.wrapping_add(1),
        "sig-expiration-plus" => p.sigs[0].f.expiration = p.sigs[0].f.expiration.wrapping_add(rng.range(1, 1_000_000) as u32),
        "sig-expiration-minus" => p.sigs[0].f.expiration = p.sigs[0].f.expiration.wrapping_sub(1),
        "sig-inception-minus" => p.sigs[0].f.inception = p.sigs[0].f.inception.wrapping_sub(rng.range(1, 1_000_000) as u32),
        "sig-inception-plus" => p.sigs[0].f.inception = p.sigs[0].f.inception.wrapping_add(1),
        "sig-key-tag" => p.sigs[0].f.key_tag ^= 1 << rng.below(16),
        "sig-signer-other" => {
            let mut s = p.sigs[0].f.signer.clone();
            s.insert(0, b"x".to_vec());
            p.sigs[0].f.signer = s;
        }
        "sig-signer-case" => {
            if !flip_label_case(&mut p.sigs[0].f.signer) {
                return None;
            }
        }
        "sig-signature-bit" => {
            let s = &mut p.sigs[0].sig;
            let pos = rng.usize_below(s.len());
            s[pos] ^= 1 << rng.below(8);
        }
        "sig-signature-truncate" => {
            let s = &mut p.sigs[0].sig;
            let cut = rng.usize_below(s.len());
            s.truncate(cut);
        }
        "sig-owner-other" => p.sigs[0].owner.insert(0, b"y".to_vec()),
        "sig-class" => p.sigs[0].class = 3,
        "sig-remove" => p.sigs.clear(),
        "sig-extra-bad-first" => {
            let mut bad = p.sigs[0].clone();
            bad.sig[0] ^= 0x80;
            p.sigs.insert(0, bad);
        }
        "key-clear-zone-flag" => p.keys[b.key_index].flags &= !0x0100,
        "key-set-revoke" => p.keys[b.key_index].flags |= 0x0080,
        "key-toggle-sep" => p.keys[b.key_index].flags ^= 0x0001,
        "key-algorithm" => p.keys[b.key_index].alg = if p.keys[b.key_index].alg == 15 { 13 } else { 15 },
        "key-public-bit" => {
            let k = &mut p.keys[b.key_index].public;
            let pos = rng.usize_below(k.len());
            k[pos] ^= 1 << rng.below(8);
        }
        "key-replaced-by-attacker" | "attacker-resigned-all" | "key-attacker-added-unsigned" => {
            let a = PKey { owner: z.name.clone(), ttl: 3600, flags: 257, alg: atk.key.algorithm(), public: atk.key.dnskey_public() };
            let rdatas: Vec<Vec<u8>> = p.recs.iter().map(|r| r.rdata.clone()).collect();
            let owner = p.recs[0].owner.clone();
            let asig = sign(&atk.key, 257, &z.name, &owner, p.qtype, &rdatas, p.sigs[0].f.labels, p.sigs[0].f.original_ttl, b.inception, b.expiration, p.recs[0].ttl, None);
            match m {
                "key-replaced-by-attacker" => {
                    // honest signatures, attacker keyset
                    p.keys = vec![a];
                }
                "key-attacker-added-unsigned" => {
                    // attacker key slipped into the keyset (keyset signature no longer matches), target signed by attacker
                    p.keys.push(a);
                    p.sigs = vec![asig];
                }
                _ => {
                    // everything re-signed by the attacker with a self-signed keyset
                    let key_rdatas = vec![a.rdata()];
                    let ks = sign(&atk.key, 257, &z.name, &z.name, 48, &key_rdatas, refsign::label_count(&z.name) as u8, 3600, b.inception, b.expiration, 3600, None);
                    p.keys = vec![a];
                    p.key_sigs = vec![ks];
                    p.sigs = vec![asig];
                }
            }
        }
        "key-standby-added-signed" => {
            // the operator legitimately publishes a second (non-anchored) key, keyset signed by the
            // anchored key, target signed by the new key: Secure is justified
            let a = PKey { owner: z.name.clone(), ttl: 3600, flags: 256, alg: atk.key.algorithm(), public: atk.key.dnskey_public() };
            p.keys.push(a);
            let key_rdatas: Vec<Vec<u8>> = p.keys.iter().map(|k| k.rdata()).collect();
            p.key_sigs = vec![sign(&z.keys[0], z.flags[0], &z.name, &z.name, 48, &key_rdatas, refsign::label_count(&z.name) as u8, 3600, b.inception, b.expiration, 3600, None)];
            let rdatas: Vec<Vec<u8>> = p.recs.iter().map(|r| r.rdata.clone()).collect();
            let owner = p.recs[0].owner.clone();
            p.sigs = vec![sign(&atk.key, 256, &z.name, &owner, p.qtype, &rdatas, p.sigs[0].f.labels, p.sigs[0].f.original_ttl, b.inception, b.expiration, p.recs[0].ttl, None)];
        }
        "key-nonzone-added-signed" => {
            // as above, but the published second key is NOT a zone key (RFC 4034 2.1.1: Zone Key bit 7 clear
            // => MUST NOT be used to verify RRSIGs over RRsets), whatever other (reserved) flag bits it
            // carries; the keyset is honestly signed, the target is signed by that key: never Secure
            const NONZONE: &[u16] = &[0x0000, 0x0001, 0x0200, 0x0201, 0x0400, 0x0800, 0x1000, 0x2000, 0x4000, 0x8000, 0x8001, 0xfe00, 0xfe7f, 0xfe01];
            let mut flags = NONZONE[rng.usize_below(NONZONE.len())];
            if rng.chance(1, 4) {
                flags = (rng.below(0x1_0000) as u16) & !0x0100 & !0x0080;
            }
            let a = PKey { owner: z.name.clone(), ttl: 3600, flags, alg: atk.key.algorithm(), public: atk.key.dnskey_public() };
            p.keys.push(a);
            let key_rdatas: Vec<Vec<u8>> = p.keys.iter().map(|k| k.rdata()).collect();
            p.key_sigs = vec![sign(&z.keys[0], z.flags[0], &z.name, &z.name, 48, &key_rdatas, refsign::label_count(&z.name) as u8, 3600, b.inception, b.expiration, 3600, None)];
            let rdatas: Vec<Vec<u8>> = p.recs.iter().map(|r| r.rdata.clone()).collect();
            let owner = p.recs[0].owner.clone();
            p.sigs = vec![sign(&atk.key, flags, &z.name, &owner, p.qtype, &rdatas, p.sigs[0].f.labels, p.sigs[0].f.original_ttl, b.inception, b.expiration, p.recs[0].ttl, None)];
        }
        "key-revoked-resigned" | "key-revoked-vouches-for-zsk" => {
            // The anchored key is published with the REVOKE flag (RFC 5011 2.1) and everything is signed
            // consistently with the flagged key (tag computed over it): a revoked key may only be used to
            // validate its own self-signature as a revocation, never to establish trust. Either the target
            // is signed by the revoked key itself, or by a non-anchored ZSK that only the revoked key vouches for.
            let ki = b.key_index.min(z.keys.len() - 1);
            let rflags = z.flags[ki] | 0x0080;
            let revoked = PKey { owner: z.name.clone(), ttl: 3600, flags: rflags, alg: z.keys[ki].algorithm(), public: z.keys[ki].dnskey_public() };
            let rdatas: Vec<Vec<u8>> = p.recs.iter().map(|r| r.rdata.clone()).collect();
            let owner = p.recs[0].owner.clone();
            let (labels, ottl, ttl) = (p.sigs[0].f.labels, p.sigs[0].f.original_ttl, p.recs[0].ttl);
            if m == "key-revoked-resigned" {
                p.keys = vec![revoked];
                p.sigs = vec![sign(&z.keys[ki], rflags, &z.name, &owner, p.qtype, &rdatas, labels, ottl, b.inception, b.expiration, ttl, None)];
            } else {
                let zsk = PKey { owner: z.name.clone(), ttl: 3600, flags: 256, alg: atk.key.algorithm(), public: atk.key.dnskey_public() };
                p.keys = vec![revoked, zsk];
                p.sigs = vec![sign(&atk.key, 256, &z.name, &owner, p.qtype, &rdatas, labels, ottl, b.inception, b.expiration, ttl, None)];
            }
            let key_rdatas: Vec<Vec<u8>> = p.keys.iter().map(|k| k.rdata()).collect();
            p.key_sigs = vec![sign(&z.keys[ki], rflags, &z.name, &z.name, 48, &key_rdatas, refsign::label_count(&z.name) as u8, 3600, b.inception, b.expiration, 3600, None)];
        }
        "keysig-remove" => p.key_sigs.clear(),
        "keysig-signature-bit" => {
            let s = &mut p.key_sigs[0].sig;
            let pos = rng.usize_below(s.len());
            s[pos] ^= 1 << rng.below(8);
        }
        _ => return None,
    }
    Some(p)
}

const CLOCK_POINTS: &[&str] = &["inception-1", "inception", "mid", "expiration", "expiration+1", "far-future"];

fn clock_at(b: &Base, point: &str) -> u32 {
    match point {
        "inception-1" => b.inception.wrapping_sub(1),
        "inception" => b.inception,
        "mid" => b.inception.wrapping_add(b.expiration.wrapping_sub(b.inception) / 2),
        "expiration" => b.expiration,
        "expiration+1" => b.expiration.wrapping_add(1),
        _ => b.expiration.wrapping_add(0x4000_0000),
    }
}

// ---------------------------------------------------------------------------------------------

struct Harness {
    rt: tokio::runtime::Runtime,
    anchors: Vec<(u8, Vec<u8>)>,
    trust: Arc<TrustAnchors>,
}

#[derive(Debug)]
struct Observed {
    /// (folded owner, type, proof, ttl, class) of each non-RRSIG answer record
    records: Vec<(Labels, u16, Proof, u32, u16)>,
    error: Option<String>,
}

impl Harness {
    fn new_validator(&self, up: &Scripted) -> DnssecDnsHandle<Scripted> {
        DnssecDnsHandle::with_trust_anchor(up.clone(), self.trust.clone())
    }

    fn validate(&self, v: &DnssecDnsHandle<Scripted>, p: &Presented) -> Result<Observed, mon::PanicRecord> {
        let name = hk::to_name(&p.qname).expect("qname");
        let q = Query::new(name, RecordType::from(p.qtype));
        mon::catch(|| {
            let r = self.rt.block_on(async { v.lookup(q, DnsRequestOptions::default()).next().await });
            match r {
                Some(Ok(resp)) => Observed {
                    records: resp
                        .answers
                        .iter()
                        .filter(|r| r.record_type() != RecordType::RRSIG)
                        .map(|r| (fold(&hk::labels_of(&r.name)), u16::from(r.record_type()), r.proof, r.ttl, u16::from(r.dns_class)))
                        .collect(),
                    error: None,
                },
                Some(Err(e)) => Observed { records: vec![], error: Some(e.to_string().chars().take(120).collect()) },
                None => Observed { records: vec![], error: Some("empty stream".into()) },
            }
        })
    }
}

struct Step {
    clock: u32,
    clock_label: String,
    mutation: String,
    p: Presented,
}

fn run_history(h: &Harness, rep: &mut Reporter, steps: &[Step]) {
    let up = Scripted::new();
    let v = h.new_validator(&up);
    let t0 = steps[0].clock as u64;
    vrt::clock_reset(t0);
    let mut prev_clock = t0;
    for (si, st) in steps.iter().enumerate() {
        // clocks inside one history only move forward (wrap-around handled by u32 distance)
        let delta = (st.clock.wrapping_sub(prev_clock as u32)) as u64;
        let now64 = prev_clock + delta;
        if si > 0 {
            vrt::clock_set_forward(now64);
        }
        prev_clock = now64;
        up.load(&st.p);
        rep.eval();
        let case = || {
            json!({"anchors": h.anchors.iter().map(|(a, pk)| json!({"alg": a, "public": hex(pk)})).collect::<Vec<_>>(), "steps": steps[..=si].iter().map(|s| json!({"clock": s.clock, "clock_label": s.clock_label, "mutation": s.mutation, "presented": s.p.to_json()})).collect::<Vec<_>>()})
        };
        let via = if si == 0 { "fresh" } else { "via-history" };
        let obs = match h.validate(&v, &st.p) {
            Ok(o) => o,
            Err(pn) => {
                // A panic yields no Secure verdict, so it is outside this property's statement;
                // validator panics on tampered input are judged by C07. Counted here for the record.
                rep.count("validator_panics_observed_not_judged_here");
                let _ = pn;
                return;
            }
        };
        rep.count(&format!("mutation/{}", st.mutation));
        rep.count(&format!("clock/{}", st.clock_label));
        if obs.error.is_some() {
            rep.count("outcome/error");
        }
        // judge each RRset group in the answer
        // an RRset is (owner, class, type): records of another class are not part of the signed IN set
        let mut groups: Vec<(Labels, u16, u16)> = obs.records.iter().map(|r| (r.0.clone(), r.1, r.4)).collect();
        groups.sort();
        groups.dedup();
        for (owner, rtype, class) in groups {
            let members: Vec<&(Labels, u16, Proof, u32, u16)> = obs.records.iter().filter(|r| r.0 == owner && r.1 == rtype && r.4 == class).collect();
            let secure = members.iter().any(|r| r.2 == Proof::Secure);
            rep.count(&format!("verdict/{}", members[0].2));
            let valid = rrset_valid(&st.p, &h.anchors, &owner, rtype, class, st.clock);
            match (secure, valid) {
                (true, None) => {
                    let sig = format!("{}|{}|{}", st.mutation, st.clock_label, via);
                    rep.violation(
                        "secure-but-invalid",
                        &sig,
                        case(),
                        json!("not Secure: no presented RRSIG is valid for this RRset, key and clock per the independent verifier"),
                        json!({"owner": refwire::show(&owner), "type": rtype, "proofs": members.iter().map(|r| r.2.to_string()).collect::<Vec<_>>()}),
                    );
                }
                (true, Some(vd)) => {
                    rep.count("secure_justified");
                    rep.count(&format!("secure_justified/{}", st.mutation));
                    if st.mutation == "none" {
                        rep.count("secure_on_genuine");
                    }
                    rep.nontrivial(fnv64(st.p.to_json().to_string().as_bytes()) ^ st.clock as u64);
                    let worst = members.iter().map(|r| r.3).max().unwrap_or(0);
                    if worst > vd.rfc_bound {
                        rep.count("info_ttl_above_rfc4035_minimum_not_judged");
                    }
                    if worst > vd.ttl_bound {
                        let sig = format!("{}|{}|{}", st.mutation, st.clock_label, via);
                        rep.violation(
                            "ttl-exceeds-signature-lifetime",
                            &sig,
                            case(),
                            json!({"max_ttl": vd.ttl_bound}),
                            json!({"ttl": worst, "owner": refwire::show(&owner), "type": rtype}),
                        );
                    }
                }
                (false, Some(_)) => rep.count("valid_but_not_secure"),
                (false, None) => rep.count("invalid_rejected"),
            }
        }
    }
}

fn main() {
    let ctx = Ctx::from_args("C06");
    mon::install_panic_monitor();
    let mut rep = Reporter::new(&ctx);
    let rt = tokio::runtime::Builder::new_current_thread().enable_all().build().unwrap();

    let mut rng = ctx.rng("main");
    // zone keys: two anchored keys of different algorithms per zone flavour
    let mk_zone = |name: &str, algs: &[u8], flags: &[u16]| Zone { name: refwire::labels_of(name), keys: algs.iter().map(|a| RefKey::generate(*a, RSA1)).collect(), flags: flags.to_vec() };
    let zones = vec![
        mk_zone("example.", &[15], &[257]),
        mk_zone("Zone.Test.", &[13, 15], &[257, 256]),
        mk_zone("sec.", &[14], &[256]),
        mk_zone("rsa.example.org.", &[8, 10], &[257, 256]),
        // the root: no DS lookup stands between the anchors and a keyset that also holds non-anchored keys,
        // so what the keyset's own signature authenticates (stand-by keys, revoked keys) is decisive here
        mk_zone(".", &[15, 13], &[257, 256]),
    ];
    let atk = Attacker { key: RefKey::generate(15, RSA1) };

    let harness_for = |z: &Zone| {
        let mut ta = TrustAnchors::empty();
        let mut anchors = Vec::new();
        for k in &z.keys {
            ta.insert(&PublicKeyBuf::new(k.dnskey_public(), Algorithm::from_u8(k.algorithm())));
            anchors.push((k.algorithm(), k.dnskey_public()));
        }
        (Arc::new(ta), anchors)
    };

    if let Some(w) = ctx.replay_case() {
        // replay needs the keys' *public* parts only: anchors are whatever keys the presented
        // DNSKEY RRset of step 0 ... no: anchors are recorded in the witness
        let steps_json = w["case"]["steps"].as_array().cloned().unwrap_or_default();
        let anchors: Vec<(u8, Vec<u8>)> = w["case"]["anchors"].as_array().map(|a| a.iter().map(|x| (x["alg"].as_u64().unwrap_or(0) as u8, unhex(x["public"].as_str().unwrap_or("")))).collect()).unwrap_or_default();
        let mut ta = TrustAnchors::empty();
        for (a, pk) in &anchors {
            ta.insert(&PublicKeyBuf::new(pk.clone(), Algorithm::from_u8(*a)));
        }
        let h = Harness { rt, anchors, trust: Arc::new(ta) };
        let steps: Vec<Step> = steps_json
            .iter()
            .filter_map(|s| {
                Some(Step { clock: s["clock"].as_u64()? as u32, clock_label: s["clock_label"].as_str()?.to_string(), mutation: s["mutation"].as_str()?.to_string(), p: Presented::from_json(&s["presented"])? })
            })
            .collect();
        if !steps.is_empty() {
            run_history(&h, &mut rep, &steps);
        }
        rep.replay_finish();
    }

    rep.must("secure_on_genuine", 200);
    rep.must("invalid_rejected", 1000);
    for m in MUTATIONS {
        rep.must(&format!("mutation/{m}"), 20);
    }
    for c in CLOCK_POINTS {
        rep.must(&format!("clock/{c}"), 50);
    }
    rep.must("history_steps_after_first", 200);

    let mut h = Harness { rt, anchors: vec![], trust: Arc::new(TrustAnchors::empty()) };
    let n_bases = ctx.budget(1_600, 60_000);
    for bi in 0..n_bases {
        let z = &zones[(bi as usize + ctx.shard as usize) % zones.len()];
        let (trust, anchors) = harness_for(z);
        h.trust = trust;
        h.anchors = anchors;
        let b = gen_base(&mut rng, z);
        if bi < 2 {
            let pj = b.p.to_json();
            rep.sample(|| json!({"workload": "base", "presented": pj}));
        }
        // (1) every mutation at the mid clock point, fresh validator each
        for m in MUTATIONS {
            let Some(p) = mutate(&mut rng, &b, z, &atk, m) else { continue };
            let point = if rng.chance(1, 4) { *rng.pick(CLOCK_POINTS) } else { "mid" };
            run_history_w(&h, &mut rep, &[Step { clock: clock_at(&b, point), clock_label: point.to_string(), mutation: m.to_string(), p }]);
        }
        // (2) the genuine presentation at every clock point, fresh validator each
        for c in CLOCK_POINTS {
            run_history_w(&h, &mut rep, &[Step { clock: clock_at(&b, c), clock_label: c.to_string(), mutation: "none".into(), p: b.p.clone() }]);
        }
        // (3) histories on one validator (validation cache participates)
        for _ in 0..3 {
            let mut steps = Vec::new();
            let seq: &[&str] = match rng.below(4) {
                0 => &["mid", "expiration", "expiration+1"],
                1 => &["inception", "mid", "expiration+1", "far-future"],
                2 => &["mid", "mid", "expiration+1"],
                _ => &["inception-1", "inception", "expiration", "expiration+1"],
            };
            for (k, c) in seq.iter().enumerate() {
                let m = if k > 0 && rng.chance(1, 2) { *rng.pick(&["rec-ttl", "rec-reorder", "rec-owner-case", "sig-signer-case", "rec-duplicate", "none", "rec-rdata-bit", "sig-signature-bit"]) } else { "none" };
                let p = mutate(&mut rng, &b, z, &atk, m).unwrap_or_else(|| b.p.clone());
                steps.push(Step { clock: clock_at(&b, c), clock_label: c.to_string(), mutation: m.to_string(), p });
            }
            rep.add("history_steps_after_first", steps.len() as u64 - 1);
            run_history_w(&h, &mut rep, &steps);
        }
    }

    std::process::exit(rep.finish().min(0));
}

fn run_history_w(h: &Harness, rep: &mut Reporter, steps: &[Step]) {
    run_history(h, rep, steps);
}
