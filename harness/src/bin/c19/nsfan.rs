//! Hostile NS fan-out. On by default (`ENABLED_BY_DEFAULT`); it was opt-in while the two defects it found
//! on the then unchanged tree were open: C19-F5a/b (no cap on the glueless name-server names resolved per
//! delegation, repaired by /repo 2635bd3) and C19-F6 (a reply that is still truncated over TCP was re-requested
//! until the deadline, repaired by /repo 0d1cd46). Both are `fixed` entries of known_findings.json now.
//!
//! The sibling of the CNAME fan-out (fanout.rs) in the delegation dimension: the hostile (but in
//! bailiwick) server of `evil.<tld>` delegates `sub.evil.<tld>` with k NS records in ONE referral
//! and no glue. `ns_pool_for_name()` hands every name-server name without glue to
//! `append_ips_from_lookup()`, which looks up A and AAAA for ALL of them (and walks the delegations
//! of the out-of-zone ones) - there is no cap on the number of name-server names per delegation,
//! so one client query costs a number of upstream queries proportional to the size of the hostile
//! referral (the NXNSAttack pattern; RFC 1034 5.3.3 "the amount of work which a resolver will do
//! in response to a client request must be limited").
//!
//!  * `ns-fanout-child`    names `n<i>.sub.evil.<tld>` (below the delegated zone: asked of the
//!                         delegating server, A + AAAA each, every answer the large referral again)
//!  * `ns-fanout-sibling`  names `n<i>.evil.<tld>` (outside the delegated zone: a delegation walk
//!                         for every name, then A + AAAA unless the walk ends in NXDOMAIN)
//!
//! No clause of its own: the worlds are data (the NS records are zone data served by the table
//! driven responder over TCP after TC=1) and are judged by the generic clauses of main.rs; the one
//! that fires is `termination-budget` (more than 16 x (recursion_limit + ns_recursion_limit + 64)
//! upstream messages for one request; signature = the world's `ns-fanout-*` tag).

use serde_json::json;

use vh::mon::{Ctx, Reporter};
use vh::prng::Rng;

use crate::depth::{tlds, B};
use crate::world::World;

pub const ENABLED_BY_DEFAULT: bool = true;
pub const WHERE: &[&str] = &["child", "sibling"];
// the largest ones exceed the budget of every limit pair used here however a truncated exchange
// and its repetition over TCP are counted (2 queries per child name, >= 1 per sibling name)
const K_CHILD: &[u32] = &[8, 65, 700, 1000];
const K_SIBLING: &[u32] = &[8, 65, 700, 2000];

pub fn enabled() -> bool {
    ENABLED_BY_DEFAULT || std::env::var_os("C19_NSFAN").is_some()
}

pub fn gen_world(rng: &mut Rng, idx: u64) -> (World, u32) {
    let wh = WHERE[(idx % 2) as usize];
    let k = if wh == "child" { K_CHILD } else { K_SIBLING }[(idx / 2 % 4) as usize];
    let mut b = B::new(rng);
    let t = tlds(rng, &mut b);
    let home = format!("evil.{}", t[0]);
    b.solid(&t[0], &home);
    let sub = format!("sub.{home}");
    for i in 0..k {
        let n = if wh == "child" { format!("n{i}.{sub}") } else { format!("n{i}.{home}") };
        b.add(&home, &sub, "NS", &n);
    }
    for s in b.w.servers.iter_mut() {
        s.tcp = true;
    }
    let (rec, ns) = *rng.pick(&[(8u8, 8u8), (10, 12), (12, 12), (24, 24)]);
    b.w.opts.recursion_limit = rec;
    b.w.opts.ns_recursion_limit = ns;
    b.w.tags = vec!["nsfan".into(), format!("ns-fanout-{wh}")];
    if rng.bool() {
        b.w.queries.push((format!("www.{home}"), "A".into()));
    }
    b.w.queries.push((format!("www.{sub}"), "A".into()));
    (b.w, k)
}

pub fn run(ctx: &Ctx, rep: &mut Reporter) {
    if !enabled() {
        return;
    }
    let n = ctx.budget(64, 16_000);
    let mut rng = ctx.rng("nsfan");
    for j in 0..n {
        let idx = ctx.shard * n + j;
        let mut r = rng.fork();
        let (w, k) = gen_world(&mut r, idx);
        let wh = WHERE[(idx % 2) as usize];
        if let Some(run) = crate::do_world(&w, rep, idx) {
            rep.count(&format!("nsfan_worlds/{wh}"));
            let most = run.tops.iter().map(|t| t.sent).max().unwrap_or(0);
            rep.max(&format!("nsfan_max_upstream_messages/{wh}/k={k}"), most as f64);
            rep.max(&format!("nsfan_max_upstream_messages_x100_per_ns_record/{wh}"), most as f64 * 100.0 / k as f64);
            if j < 1 {
                rep.sample(|| json!({"nsfan_world_index": idx, "where": wh, "k": k, "upstream_messages": most, "budget": crate::budget(&w)}));
            }
        }
    }
}

pub fn musts(rep: &mut Reporter) {
    if !enabled() {
        return;
    }
    for wh in WHERE {
        rep.must(&format!("nsfan_worlds/{wh}"), 40);
    }
}
