//! Observation point (R): the VALIDATING RECURSOR. The real `Recursor` built with
//! `DnssecPolicy::ValidateWithStaticKey { trust_anchor = root KSK }` resolves iteratively over the
//! simulated internet of `rnet.rs` (one authoritative responder per zone of the generated hierarchy,
//! tamper layer at the responder boundary). What is judged is the value `Recursor::resolve` returns:
//! the `Message`, or the records inside the error forms a consumer passes on (hickory's server turns
//! `Negative` / `Net(NoRecordsFound)` into NXDOMAIN / NODATA answers and `Nsec{Insecure}` into an
//! unauthenticated negative answer; every other error becomes SERVFAIL).
//!
//! Clauses (rule ids carry the prefix `rec-`): (i) `secure-not-genuine` / `secure-rrset-incomplete`,
//! (ii) `false-denial`, (iii) `insecure-in-signed-zone` / `unauthenticated-denial` of `oracle.rs`
//! applied to that value, `validator-panic`, plus
//!  (v) `cache-proofs-differ`: on one recursor, with an honest network, a repeated resolve of the same
//!      query (answered from the caches of the recursor) carries exactly the records and proofs of the
//!      first one (DO=0 after DO=1: of the records that are not DNSSEC records); and every step of a
//!      history (tampered resolve, then honest resolve of the same query on the same recursor) is
//!      judged by (i)-(iii) again: what a tampered resolve that raised no alarm left in the caches must
//!      not come back as Secure / silently Insecure (signature `..|via-history|honest-step-after-
//!      rejected-tampering`). An alarm AFTER a step that already raised one is the acceptance reported
//!      at that step kept by the caches: counted (`rec/info_alarm_after_accepted_tampering_not_reported`),
//!      not reported. A history alarm is first flattened (all its faults in ONE resolve on a fresh
//!      recursor): if that shows the alarm too, the caches play no part and it is reported as a
//!      single-step case.
//!  (vi) `proof-records-missing` (DO=1 only): a Secure RRset in answer / authority comes without any
//!      RRSIG covering it: the link that establishes "Secure" is not handed to the security-aware client.
//!  (vii) `nsec3-hard-limit-not-applied`: some hierarchies whose NSEC3 zones use 5 iterations are
//!      resolved with `nsec3_soft_iteration_limit = 3, nsec3_hard_iteration_limit = 4` configured; a
//!      negative / wildcard outcome passed on as validated whose Secure NSEC3 records lie above the hard
//!      limit means the configured policy did not reach the validator (documented semantics of the
//!      option: Bogus above the hard limit; iteration counts between the limits are never generated).
//! Clause (iv) (provenance) of the DnssecDnsHandle point is not applied here.
//!
//! Don't-cares in addition to those of `oracle.rs`: honest answers that are rejected (counted as
//! `rec/info_honest_rejected/..`); DO=0 results are judged by (i) and the mark part of (iii) only
//! (their denial records are legitimately absent); which cache answered a repeated resolve; TTLs;
//! order of records; duplicates; timing (virtual time is only bounded: 600 s per resolve).
#![allow(dead_code)]

use std::collections::BTreeSet;
use std::sync::Arc;
use std::time::{Duration, Instant};

use hickory_net::runtime::TokioHandle;
use hickory_net::{DnsError, NetError};
use hickory_proto::dnssec::Proof;
use hickory_proto::op::{Message, Query};
use hickory_proto::rr::{Record, RecordType};
use hickory_resolver::recursor::{DnssecConfig, DnssecPolicy, Recursor, RecursorError, RecursorOptions};
use serde_json::{json, Value};

use vh::hk;
use vh::mon::{self, Reporter};
use vh::prng::{fnv64, Rng};

use crate::fault::{Attacker, Fault, Prim};
use crate::hier::{canon, Status};
use crate::oracle::{self, Case, Observed, OutKind};
use crate::refzone::{self, fold, show, ty, Name};
use crate::rnet::{AuthExchange, AuthNet, RFault, SimRuntime};
use crate::upstream::Exchange;
use crate::world::{Rec, SEC_AN, SEC_AR, SEC_NS};
use crate::{vrt, Bench, QueryCase};

// ---------------------------------------------------------------------------------------------
// cases

#[derive(Clone, Debug, PartialEq)]
pub struct RStep {
    pub qname: Name,
    pub qtype: u16,
    pub do_bit: bool,
    pub faults: Vec<RFault>,
}

impl RStep {
    pub fn honest(q: &QueryCase, do_bit: bool) -> RStep {
        RStep { qname: q.qname.clone(), qtype: q.qtype, do_bit, faults: Vec::new() }
    }
    pub fn tampered(q: &QueryCase, f: &RFault) -> RStep {
        RStep { qname: q.qname.clone(), qtype: q.qtype, do_bit: true, faults: vec![f.clone()] }
    }
    pub fn to_json(&self) -> Value {
        json!({"qname": show(&self.qname), "qtype": self.qtype, "do": self.do_bit, "faults": self.faults.iter().map(|f| f.to_json()).collect::<Vec<_>>()})
    }
    pub fn from_json(v: &Value) -> Option<RStep> {
        Some(RStep {
            qname: refzone::name(v["qname"].as_str()?),
            qtype: v["qtype"].as_u64()? as u16,
            do_bit: v["do"].as_bool().unwrap_or(true),
            faults: v["faults"].as_array().map(|a| a.iter().filter_map(RFault::from_json).collect()).unwrap_or_default(),
        })
    }
}

/// configuration of the recursor beyond the trust anchor
#[derive(Clone, Copy, Debug, Default, PartialEq)]
pub struct ROpts {
    /// `DnssecConfig::{nsec3_soft_iteration_limit, nsec3_hard_iteration_limit}`
    pub nsec3_limits: Option<(u16, u16)>,
}

impl ROpts {
    pub fn to_json(&self) -> Value {
        json!({"nsec3_limits": self.nsec3_limits.map(|(s, h)| vec![s, h])})
    }
    pub fn from_json(v: &Value) -> ROpts {
        let l = &v["nsec3_limits"];
        ROpts { nsec3_limits: match (l[0].as_u64(), l[1].as_u64()) { (Some(s), Some(h)) => Some((s as u16, h as u16)), _ => None } }
    }
}

pub struct RResult {
    pub obs: Observed,
    pub log: Vec<AuthExchange>,
    pub cap_hit: bool,
    /// which variant of `Result<Message, RecursorError>` came back
    pub variant: String,
    /// (responses above the EDNS payload size, TCP connects, datagrams to addresses nobody serves, undecodable queries) so far on this network
    pub net_stats: (u64, u64, u64, u64),
}

/// per-resolve cap on datagrams the simulated network answers (a runaway loop stays finite)
const DATAGRAM_CAP: usize = 800;

fn recs_of(sec: u8, list: &[Record], out: &mut Vec<(Rec, Proof)>) {
    for r in list {
        let x = (crate::hk_rec(sec, r), r.proof);
        if !out.contains(&x) {
            out.push(x);
        }
    }
}

fn observe_message(kind: OutKind, rcode: u16, m: &Message) -> Observed {
    let mut recs = Vec::new();
    recs_of(SEC_AN, &m.answers, &mut recs);
    recs_of(SEC_NS, &m.authorities, &mut recs);
    recs_of(SEC_AR, &m.additionals, &mut recs);
    let n = recs.len();
    Observed { kind, rcode, recs, alts: vec![None; n], remapped: true }
}

fn observe_negative(rcode: u16, soa: Option<Record>, authorities: Option<&[Record]>) -> Observed {
    let mut recs = Vec::new();
    if let Some(s) = soa {
        recs_of(SEC_NS, &[s], &mut recs);
    }
    if let Some(a) = authorities {
        recs_of(SEC_NS, a, &mut recs);
    }
    let n = recs.len();
    Observed { kind: OutKind::Ok, rcode, recs, alts: vec![None; n], remapped: true }
}

fn err_obs(kind: OutKind) -> Observed {
    Observed { kind, rcode: 0, recs: vec![], alts: vec![], remapped: false }
}

fn variant_name<T: std::fmt::Debug>(e: &T) -> String {
    let s = format!("{e:?}");
    let end = s.find(|c: char| !(c.is_alphanumeric() || c == '_')).unwrap_or(s.len());
    s[..end].to_string()
}

/// what `Recursor::resolve` returned, as the records + proofs a consumer acts on
fn observe(r: Result<Message, RecursorError>) -> (Observed, String) {
    match r {
        Ok(m) => (observe_message(OutKind::Ok, u16::from(m.response_code), &m), "Ok".into()),
        Err(RecursorError::Net(NetError::Dns(DnsError::NoRecordsFound(nr)))) => {
            let soa = nr.soa.as_ref().map(|s| (**s).clone().into_record_of_rdata());
            (observe_negative(u16::from(nr.response_code), soa, nr.authorities.as_deref()), "Net-NoRecordsFound".into())
        }
        Err(RecursorError::Negative(a)) => {
            let soa = a.soa.as_ref().map(|s| (**s).clone().into_record_of_rdata());
            (observe_negative(if a.nx_domain { 3 } else { 0 }, soa, a.authorities.as_deref()), "Negative".into())
        }
        Err(RecursorError::Net(NetError::Dns(DnsError::Nsec { response, proof, .. }))) => (observe_message(OutKind::ErrNsec(proof), u16::from(response.response_code), &response), "Net-Nsec".into()),
        Err(RecursorError::Net(e)) => (err_obs(OutKind::Err(format!("Net: {}", e.to_string().chars().take(100).collect::<String>()))), format!("Net-{}", variant_name(&e))),
        Err(e) => {
            let v = variant_name(&e);
            (err_obs(OutKind::Err(format!("{v}: {}", e.to_string().chars().take(100).collect::<String>()))), v)
        }
    }
}

/// Run a history of resolves on ONE validating recursor (fresh for this call) over the simulated
/// internet of the bench's hierarchy.
pub fn run_rsteps(b: &Bench, attacker: &Arc<Attacker>, steps: &[RStep], opts: &ROpts) -> Result<Vec<RResult>, String> {
    let rt = tokio::runtime::Builder::new_current_thread().enable_time().start_paused(true).build().map_err(|e| e.to_string())?;
    let net = Arc::new(AuthNet::new(b.world.clone(), attacker.clone(), DATAGRAM_CAP));
    let roots = net.roots();
    if roots.is_empty() {
        return Err("the root zone has no name server address".into());
    }
    vrt::clock_reset(b.truth().hier.now as u64);
    let mut out: Vec<RResult> = Vec::new();
    let mut build_err: Option<String> = None;
    let caught = mon::catch(|| {
        rt.block_on(async {
            let provider = SimRuntime { handle: TokioHandle::default(), net: net.clone() };
            let mut o = RecursorOptions::default();
            // the simulated servers live on TEST-NET addresses
            o.deny_server = Vec::new();
            o.allow_server = Vec::new();
            o.edns_payload_len = crate::rnet::PAYLOAD as u16;
            let mut dc = DnssecConfig::default();
            dc.trust_anchor = Some(b.trust.clone());
            if let Some((soft, hard)) = opts.nsec3_limits {
                dc.nsec3_soft_iteration_limit = Some(soft);
                dc.nsec3_hard_iteration_limit = Some(hard);
            }
            let rec = match Recursor::new(&roots, DnssecPolicy::ValidateWithStaticKey(dc), None, o, provider) {
                Ok(r) => r,
                Err(e) => {
                    build_err = Some(format!("Recursor::new: {e}"));
                    return;
                }
            };
            if !rec.is_validating() {
                build_err = Some("Recursor::new(ValidateWithStaticKey) is not validating".into());
                return;
            }
            for st in steps {
                net.begin_step(st.faults.clone());
                let q = Query::new(hk::to_name(&st.qname).expect("qname"), RecordType::from(st.qtype));
                let r = tokio::time::timeout(Duration::from_secs(600), rec.resolve(q, Instant::now(), st.do_bit)).await;
                let (log, cap_hit) = net.take_log();
                let (obs, variant) = match r {
                    Ok(r) => observe(r),
                    Err(_) => (err_obs(OutKind::Err("virtual timeout (600 s)".into())), "VirtualTimeout".into()),
                };
                let net_stats = {
                    let st = net.st.lock().unwrap();
                    (st.oversize, st.tcp_connects, st.unrouted, st.undecodable_queries)
                };
                out.push(RResult { obs, log, cap_hit, variant, net_stats });
            }
        })
    });
    if let Some(e) = build_err {
        return Err(e);
    }
    if let Err(p) = caught {
        // the step that was running when the panic happened
        let (log, cap_hit) = net.take_log();
        out.push(RResult { obs: err_obs(OutKind::Panic(format!("{} @ {}", p.message.chars().take(80).collect::<String>(), crate::crate_site(&p.site())))), log, cap_hit, variant: "Panic".into(), net_stats: (0, 0, 0, 0) });
        while out.len() < steps.len() {
            out.push(RResult { obs: err_obs(OutKind::Err("not run: an earlier step panicked".into())), log: vec![], cap_hit: false, variant: "NotRun".into(), net_stats: (0, 0, 0, 0) });
        }
    }
    Ok(out)
}

// ---------------------------------------------------------------------------------------------
// fault enumeration at the responder boundary

/// the distinct (server, qname, qtype) exchanges of a run; the authoritative exchange that answered
/// the top-level question first, the rest in canonical order
pub fn distinct_auth(log: &[AuthExchange], qname: &Name, qtype: u16) -> Vec<AuthExchange> {
    let mut v: Vec<AuthExchange> = Vec::new();
    for e in log {
        if !v.iter().any(|x| x.server == e.server && x.ex.qname == e.ex.qname && x.ex.qtype == e.ex.qtype) {
            v.push(e.clone());
        }
    }
    v.sort_by(|a, b| refzone::canonical_cmp(&a.ex.qname, &b.ex.qname).then(a.ex.qtype.cmp(&b.ex.qtype)).then(refzone::canonical_cmp(&a.server, &b.server)));
    // the last exchange for the query itself that was not a referral is "the answer"
    if let Some(i) = v.iter().rposition(|e| e.ex.qname == *qname && e.ex.qtype == qtype && !e.ex.honest.kind.starts_with("referral")) {
        let top = v.remove(i);
        v.insert(0, top);
    }
    v
}

fn is_top(e: &AuthExchange, qname: &Name, qtype: u16) -> bool {
    e.ex.qname == *qname && e.ex.qtype == qtype && !e.ex.honest.kind.starts_with("referral")
}

/// chain link an exchange sits on, seen from the top-level query
pub fn rlink(e: &AuthExchange, top: bool) -> &'static str {
    if e.ex.honest.kind.starts_with("referral") {
        return "referral";
    }
    if top {
        return if e.ex.honest.is_negative() { "denial" } else { "answer" };
    }
    match e.ex.qtype {
        ty::DNSKEY => "dnskey",
        ty::DS => {
            if e.ex.honest.is_negative() {
                "denial"
            } else {
                "ds"
            }
        }
        ty::NS => "nsprobe",
        _ => "other",
    }
}

pub struct Recorded {
    pub q: QueryCase,
    pub ex: Vec<AuthExchange>,
}

/// record- / response-level faults on every authoritative exchange of the honest run, bound to the
/// server that gave the response, plus the chain-level attacks of the DnssecDnsHandle point (their
/// primitives address (qname, qtype) exchanges or whole zones: they hit whichever server answers)
pub fn enumerate_faults(rng: &mut Rng, b: &Bench, r: &Recorded, pool: &[Rec], tops: &[Exchange], attacker_tags: &[u16]) -> Vec<RFault> {
    let mut out: Vec<RFault> = Vec::new();
    for e in &r.ex {
        let top = is_top(e, &r.q.qname, r.q.qtype);
        let link = rlink(e, top);
        for mut f in crate::local_faults(rng, std::slice::from_ref(&e.ex), top, pool, tops, false) {
            // link as seen at this observation point (referrals exist only here)
            if link == "referral" || (f.link != "denial" && f.link != link) {
                f.link = link.to_string();
            }
            out.push(RFault::at(&e.server, f));
        }
    }
    let plain: Vec<Exchange> = r.ex.iter().map(|e| e.ex.clone()).collect();
    if !plain.is_empty() && is_top(&r.ex[0], &r.q.qname, r.q.qtype) {
        for f in crate::chain_faults(rng, b, &r.q, &plain, attacker_tags) {
            out.push(RFault::any(f));
        }
    }
    // fake insecure delegation as an iterative resolver meets it: the referral loses its DS, the DS
    // query at the parent is answered "no data" (bare / SOA only), the child's signatures are gone
    for e in r.ex.iter().filter(|e| e.ex.honest.kind.starts_with("referral") && e.ex.honest.recs.iter().any(|x| x.rtype == ty::DS)) {
        let Some(cut) = e.ex.honest.recs.iter().find(|x| x.rtype == ty::DS).map(|x| fold(&x.owner)) else { continue };
        let stripped: Vec<Rec> = e.ex.honest.recs.iter().filter(|x| !(x.rtype == ty::DS || x.covered() == Some(ty::DS))).cloned().collect();
        let parent_soa: Vec<Rec> = b.world.parent_side_denial(e.zone, &cut, false).into_iter().filter(|x| x.rtype == ty::SOA || x.covered() == Some(ty::SOA)).collect();
        for (vi, ds_answer) in [Vec::new(), parent_soa].into_iter().enumerate() {
            let prims = vec![
                Prim::new("replace-response").at(&e.ex.qname, e.ex.qtype).recs(stripped.clone()).rcode(0),
                Prim::new("replace-response").at(&cut, ty::DS).recs(ds_answer).rcode(0).n(vi as u64),
                Prim::new("strip-zone-sigs").zone(&cut),
            ];
            out.push(RFault::any(Fault::new(["fake-insecure-delegation:referral-ds-stripped-bare", "fake-insecure-delegation:referral-ds-stripped-soa"][vi], "referral", prims)));
        }
    }
    out
}

/// all when few, otherwise a sample stratified by `key` (strata visited round-robin in a
/// seed-dependent order: with a small cap the same strata must not always win)
pub fn sample_stratified<T: Clone>(rng: &mut Rng, all: &[T], cap: usize, key: impl Fn(&T) -> (String, String)) -> Vec<T> {
    if all.len() <= cap {
        return all.to_vec();
    }
    let mut idx: Vec<usize> = (0..all.len()).collect();
    rng.shuffle(&mut idx);
    let mut by: std::collections::BTreeMap<(String, String), Vec<usize>> = Default::default();
    for i in idx {
        by.entry(key(&all[i])).or_default().push(i);
    }
    let mut keys: Vec<(String, String)> = by.keys().cloned().collect();
    rng.shuffle(&mut keys);
    let mut out = Vec::new();
    while out.len() < cap {
        let mut progressed = false;
        for k in &keys {
            if out.len() >= cap {
                break;
            }
            if let Some(i) = by.get_mut(k).and_then(|v| v.pop()) {
                out.push(all[i].clone());
                progressed = true;
            }
        }
        if !progressed {
            break;
        }
    }
    out
}

pub fn sample_rfaults(rng: &mut Rng, all: &[RFault], cap: usize) -> Vec<RFault> {
    sample_stratified(rng, all, cap, |f| (kind_base(&f.fault.kind), f.fault.link.clone()))
}

/// link as it appears in signatures: the exchanges that exist only in iterative resolution (referrals,
/// NS probes of QNAME minimisation, name-server address lookups) form one class
pub fn sig_link(link: &str) -> &str {
    match link {
        "referral" | "nsprobe" | "other" => "iterative",
        l => l,
    }
}

pub fn kind_base(kind: &str) -> String {
    kind.split(':').next().unwrap_or("").to_string()
}

// ---------------------------------------------------------------------------------------------
// judging

pub struct RJudge<'a> {
    pub rep: &'a mut Reporter,
    pub opts: ROpts,
    pub attacker: Arc<Attacker>,
    pub hier_json: Value,
    pub hier_hash: u64,
}

pub struct RAlarm {
    pub rule: String,
    pub detail: String,
    pub expected: Value,
    pub observed: Value,
}

/// canonical multiset of what a result carries: (section, owner, type, canonical RDATA, proof)
fn content(obs: &Observed, with_dnssec_types: bool) -> BTreeSet<(u8, Name, u16, Vec<u8>, String)> {
    obs.recs
        .iter()
        .filter(|(r, _)| with_dnssec_types || !matches!(r.rtype, ty::RRSIG | ty::NSEC | ty::NSEC3 | ty::DS | ty::DNSKEY | ty::NSEC3PARAM))
        .map(|(r, p)| (r.sec, fold(&r.owner), r.rtype, canon(r.rtype, &r.rdata), p.to_string()))
        .collect()
}

fn outcome_class(obs: &Observed) -> String {
    match &obs.kind {
        OutKind::Ok => format!("ok/{}", obs.rcode),
        OutKind::ErrNsec(p) => format!("err-nsec-{p}"),
        OutKind::Err(_) => "err".into(),
        OutKind::Panic(_) => "panic".into(),
    }
}

/// alarms of one step: clauses (i)-(iii) of `oracle.rs` plus (vi)
pub fn judge_step(b: &Bench, st: &RStep, res: &RResult, honest_so_far: bool, opts: &ROpts) -> Vec<RAlarm> {
    let t = b.truth();
    // the reference answer of a perfect resolver: only used to name the zones an honest answer draws from
    let href = b.world.honest(&st.qname, st.qtype, true);
    let log = vec![Exchange { qname: st.qname.clone(), qtype: st.qtype, dnssec: true, honest: href.clone(), presented: href, decodable: true }];
    let c = Case { truth: t, world: &b.world, qname: &st.qname, qtype: st.qtype, obs: &res.obs, log: &log, fresh: false, honest: honest_so_far };
    let mut out: Vec<RAlarm> = Vec::new();
    for a in oracle::judge(&c) {
        // a DO=0 client is not sent NSEC / NSEC3 / RRSIG records: negative conclusions cannot be
        // judged from what it gets
        if !st.do_bit && matches!(a.rule, "unauthenticated-denial" | "false-denial") {
            continue;
        }
        out.push(RAlarm { rule: a.rule.to_string(), detail: a.detail, expected: a.expected, observed: a.observed });
    }
    // (vi) DO=1: a Secure RRset travels with a signature covering it
    if st.do_bit && matches!(res.obs.kind, OutKind::Ok) {
        let mut seen: Vec<(u8, Name, u16)> = Vec::new();
        for (r, p) in &res.obs.recs {
            if *p != Proof::Secure || r.rtype == ty::RRSIG || r.sec == SEC_AR {
                continue;
            }
            let g = (r.sec, fold(&r.owner), r.rtype);
            if seen.contains(&g) {
                continue;
            }
            seen.push(g.clone());
            let anchors_only = r.rtype == ty::DNSKEY && res.obs.recs.iter().filter(|(x, _)| x.sec == g.0 && x.rtype == ty::DNSKEY && fold(&x.owner) == g.1).all(|(x, _)| x.rdata.len() > 4 && x.rdata[3] == t.anchor.0 && x.rdata[4..] == t.anchor.1[..]);
            let has_sig = res.obs.recs.iter().any(|(x, _)| x.sec == g.0 && x.rtype == ty::RRSIG && x.covered() == Some(g.2) && fold(&x.owner) == g.1);
            if !has_sig && !anchors_only {
                out.push(RAlarm {
                    rule: "proof-records-missing".into(),
                    detail: format!("rrsig-of-{}", oracle::tclass(r.rtype)),
                    expected: json!("DO=1: a Secure RRset comes with an RRSIG covering it"),
                    observed: json!({"section": r.sec, "owner": show(&r.owner), "type": refzone::type_name(r.rtype)}),
                });
            }
        }
    }
    // (vii) configured NSEC3 hard iteration limit: a denial above it is never passed on as validated
    if let (Some((_, hard)), true) = (opts.nsec3_limits, res.obs.is_passed_on() && matches!(res.obs.kind, OutKind::Ok)) {
        for (r, p) in &res.obs.recs {
            if r.sec == SEC_NS && r.rtype == ty::NSEC3 && *p == Proof::Secure && r.rdata.len() >= 4 && u16::from_be_bytes([r.rdata[2], r.rdata[3]]) > hard && !res.obs.recs.iter().any(|(x, px)| x.sec != SEC_AR && x.rtype != ty::RRSIG && *px == Proof::Bogus) {
                out.push(RAlarm {
                    rule: "nsec3-hard-limit-not-applied".into(),
                    detail: if res.obs.recs.iter().any(|(x, _)| x.sec == SEC_AN) { "wildcard-answer".into() } else { "denial".into() },
                    expected: json!({"configured_hard_iteration_limit": hard, "outcome": "Bogus / error"}),
                    observed: json!({"owner": show(&r.owner), "iterations": u16::from_be_bytes([r.rdata[2], r.rdata[3]]), "proof": "Secure", "outcome": "passed on as validated"}),
                });
                break;
            }
        }
    }
    let mut seen: Vec<(String, String)> = Vec::new();
    out.retain(|a| {
        let k = (a.rule.clone(), a.detail.clone());
        if seen.contains(&k) {
            false
        } else {
            seen.push(k);
            true
        }
    });
    out
}

/// (v) a repeated honest resolve of the same query on the same recursor
pub fn cache_alarm(first: &RResult, second: &RResult, same_do: bool) -> Option<RAlarm> {
    let (a, b) = (content(&first.obs, same_do), content(&second.obs, same_do));
    let same_outcome = outcome_class(&first.obs) == outcome_class(&second.obs);
    if a == b && same_outcome {
        return None;
    }
    let only_first: Vec<_> = a.difference(&b).collect();
    let only_second: Vec<_> = b.difference(&a).collect();
    // what changed: the outcome, a proof of a record both carry, or the record set
    let key = |x: &(u8, Name, u16, Vec<u8>, String)| (x.0, x.1.clone(), x.2, x.3.clone());
    let proof_changed = only_first.iter().find_map(|x| only_second.iter().find(|y| key(x) == key(y)).map(|y| (x.4.clone(), y.4.clone(), x.2)));
    let detail = if !same_outcome {
        format!("outcome:{}->{}", outcome_class(&first.obs), outcome_class(&second.obs))
    } else if let Some((p1, p2, t)) = &proof_changed {
        format!("proof:{}:{}->{}", oracle::tclass(*t), p1, p2)
    } else if let Some(x) = only_first.first() {
        format!("record-lost:{}:{}", oracle::tclass(x.2), x.4)
    } else {
        let x = only_second.first().expect("sets differ");
        format!("record-added:{}:{}", oracle::tclass(x.2), x.4)
    };
    Some(RAlarm {
        rule: "cache-proofs-differ".into(),
        detail,
        expected: json!("the repeated resolve carries the records and proofs of the first one"),
        observed: json!({"first": first.obs.to_json(), "second": second.obs.to_json(), "second_resolve_upstream_exchanges": second.log.len()}),
    })
}

fn ground_kind(b: &Bench, qname: &Name, qtype: u16) -> String {
    let zi = b.truth().responsible(qname, qtype);
    let z = &b.truth().zones[zi];
    let kind = b.world.honest(qname, qtype, true).kind;
    format!("{}|{}", kind, if !z.spec.signed { "unsigned" } else if z.spec.nsec3.is_some() { "nsec3" } else { "nsec" })
}

impl RJudge<'_> {
    /// (rule, detail) at the last step, and no alarm at any earlier step (a history whose earlier
    /// tampering was accepted shows that acceptance, reported there, not a defect of the caches)
    fn reproduces(&self, b: &Bench, steps: &[RStep], rule: &str, detail: &str) -> bool {
        let Ok(rs) = run_rsteps(b, &self.attacker, steps, &self.opts) else { return false };
        let si = steps.len() - 1;
        for i in 0..si {
            let h = steps[..=i].iter().all(|s| s.faults.is_empty());
            if judge_step(b, &steps[i], &rs[i], h, &self.opts).iter().any(|a| a.rule != "honest-rejected") {
                return false;
            }
        }
        let honest = steps.iter().all(|s| s.faults.is_empty());
        if rule == "cache-proofs-differ" {
            return si >= 1 && cache_alarm(&rs[si - 1], &rs[si], steps[si - 1].do_bit == steps[si].do_bit).is_some_and(|a| a.detail == detail);
        }
        judge_step(b, &steps[si], &rs[si], honest, &self.opts).iter().any(|a| a.rule == rule && a.detail == detail)
    }

    /// smallest history / fault set / primitive set that still shows (rule, detail) at its last step
    fn minimize(&mut self, b: &Bench, steps: &[RStep], rule: &str, detail: &str) -> Vec<RStep> {
        let mut cur = steps.to_vec();
        let cache_rule = rule == "cache-proofs-differ";
        if cur.len() > 1 && !cache_rule {
            let single = vec![cur.last().unwrap().clone()];
            if self.reproduces(b, &single, rule, detail) {
                cur = single;
            } else {
                let mut i = 0;
                while cur.len() > 2 && i + 1 < cur.len() {
                    let mut t = cur.clone();
                    t.remove(i);
                    if self.reproduces(b, &t, rule, detail) {
                        cur = t;
                    } else {
                        i += 1;
                    }
                }
            }
        }
        // whole faults that are not needed (a step may become honest)
        for si in (0..cur.len()).rev() {
            let mut fi = 0;
            while fi < cur[si].faults.len() {
                if cur.len() == 1 && cur[si].faults.len() == 1 {
                    break;
                }
                let mut t = cur.clone();
                t[si].faults.remove(fi);
                if self.reproduces(b, &t, rule, detail) {
                    cur = t;
                } else {
                    fi += 1;
                }
            }
        }
        // is the history needed at all? the same tampering presented to a fresh recursor in ONE resolve:
        // if that is accepted as well, the caches play no part (the validator accepts it as it comes)
        if cur.len() > 1 && !cache_rule {
            let last = cur.last().unwrap().clone();
            let mut all: Vec<RFault> = Vec::new();
            for s in &cur {
                for f in &s.faults {
                    if !all.contains(f) {
                        all.push(f.clone());
                    }
                }
            }
            let flat = vec![RStep { faults: all, ..last }];
            if !flat[0].faults.is_empty() && self.reproduces(b, &flat, rule, detail) {
                cur = flat;
            }
        }
        let li = cur.len() - 1;
        if cur[li].faults.len() > 1 {
            for f in cur[li].faults.clone() {
                let mut t = cur.clone();
                t[li].faults = vec![f];
                if self.reproduces(b, &t, rule, detail) {
                    cur = t;
                    break;
                }
            }
        }
        for si in 0..cur.len() {
            for fi in 0..cur[si].faults.len() {
                let mut pi = 0;
                while cur[si].faults[fi].fault.prims.len() > 1 && pi < cur[si].faults[fi].fault.prims.len() {
                    let mut t = cur.clone();
                    t[si].faults[fi].fault.prims.remove(pi);
                    if self.reproduces(b, &t, rule, detail) {
                        cur = t;
                    } else {
                        pi += 1;
                    }
                }
            }
        }
        self.rep.count("rec/violations_minimized");
        cur
    }

    fn signature(&self, b: &Bench, rule: &str, detail: &str, min_steps: &[RStep]) -> String {
        let last = min_steps.last().unwrap();
        let tampered_before = min_steps[..min_steps.len() - 1].iter().any(|s| !s.faults.is_empty());
        if rule == "validator-panic" {
            return detail.split_whitespace().collect::<Vec<_>>().join(" ");
        }
        if rule == "nsec3-hard-limit-not-applied" || rule == "proof-records-missing" {
            // a matter of configuration reaching the validator / of the shape of what is returned,
            // whatever else happened in the run
            return detail.to_string();
        }
        let do_tag = if last.do_bit { "" } else { "|do0" };
        if min_steps.len() > 1 {
            // needs the history: the caches of the recursor take part
            let how = match (tampered_before, last.faults.is_empty()) {
                (false, true) => "repeated-honest-resolve",
                (true, true) => "honest-step-after-rejected-tampering",
                (_, false) => "tampered-step",
            };
            return format!("{detail}|via-history:{}|{how}{do_tag}", crate::fault_kinds(min_steps.iter().flat_map(|s| s.faults.iter().map(|f| f.fault.kind.as_str()))));
        }
        if last.faults.is_empty() {
            return format!("{detail}|honest|{}{do_tag}", ground_kind(b, &last.qname, last.qtype));
        }
        if last.faults.len() > 1 {
            return format!("{detail}|multi-fault:{}{do_tag}", crate::fault_kinds(last.faults.iter().map(|f| f.fault.kind.as_str())));
        }
        let f = &last.faults[0].fault;
        format!("{detail}|{}|{}{do_tag}", f.kind, sig_link(&f.link))
    }

    fn report(&mut self, b: &Bench, steps: &[RStep], a: RAlarm, workload: &str) {
        let needs_min = a.rule != "nsec3-hard-limit-not-applied" && a.rule != "proof-records-missing" && (steps.len() > 1 || steps.last().is_some_and(|s| s.faults.len() > 1 || s.faults.iter().any(|f| f.fault.prims.len() > 1)));
        let min_steps = if needs_min { self.minimize(b, steps, &a.rule, &a.detail) } else { steps.to_vec() };
        let sig = self.signature(b, &a.rule, &a.detail, &min_steps);
        let (obs_json, ex_json, variant) = match run_rsteps(b, &self.attacker, &min_steps, &self.opts) {
            Ok(rs) => {
                let r = rs.last().unwrap();
                (
                    r.obs.to_json(),
                    r.log.iter().map(|e| format!("@{} {} {} -> {}{}", show(&e.server), show(&e.ex.qname), refzone::type_name(e.ex.qtype), e.ex.honest.kind, if e.ex.presented != e.ex.honest { " (tampered)" } else { "" })).collect::<Vec<_>>(),
                    r.variant.clone(),
                )
            }
            Err(e) => (json!(e), vec![], String::new()),
        };
        let case = json!({"mode": "rec", "opts": self.opts.to_json(), "hier": self.hier_json, "rsteps": min_steps.iter().map(|s| s.to_json()).collect::<Vec<_>>(), "workload": workload});
        self.rep.violation(&format!("rec-{}", a.rule), &sig, case, a.expected, json!({"alarm": a.observed, "returned": variant, "outcome": obs_json, "authoritative_exchanges": ex_json}));
    }

    /// judge every step of a history
    pub fn judge(&mut self, b: &Bench, steps: &[RStep], results: &[RResult], workload: &str) {
        let mut earlier_alarm = false;
        for (si, (st, res)) in steps.iter().zip(results.iter()).enumerate() {
            let honest = steps[..=si].iter().all(|s| s.faults.is_empty());
            let alarms = judge_step(b, st, res, honest, &self.opts);
            let any_real = alarms.iter().any(|a| a.rule != "honest-rejected");
            if workload == "replay" && si + 1 < steps.len() {
                earlier_alarm |= any_real;
                continue;
            }
            self.rep.eval();
            let outcome = crate::outcome_label(&res.obs);
            self.rep.count(&format!("rec/outcome/{}/{}", if st.faults.is_empty() { if honest { "honest" } else { "honest-after-tampering" } } else { "tampered" }, outcome));
            self.rep.count(&format!("rec/returned/{}", res.variant));
            self.rep.max("rec/max_authoritative_exchanges_per_resolve", res.log.len() as f64);
            if res.cap_hit {
                self.rep.count("rec/info_datagram_cap_hit_not_judged");
            }
            if si + 1 == steps.len() {
                let (oversize, tcp, unrouted, undec) = res.net_stats;
                self.rep.add("rec/info_responses_above_edns_payload", oversize);
                self.rep.add("rec/info_tcp_connects_refused", tcp);
                self.rep.add("rec/info_datagrams_to_unserved_addresses", unrouted);
                self.rep.add("rec/info_undecodable_queries", undec);
            }
            if res.log.len() >= 3 {
                let h = fnv64(format!("rec|{}|{}", self.hier_hash, serde_json::to_string(&steps[..=si].iter().map(|s| s.to_json()).collect::<Vec<_>>()).unwrap()).as_bytes());
                self.rep.nontrivial(h);
            }
            for f in &st.faults {
                self.rep.count(&format!("rec/fault/{}/{}", kind_base(&f.fault.kind), f.fault.link));
                self.rep.count(&format!("rec/tampered_runs/{}", kind_base(&f.fault.kind)));
                if si == 0 && steps.len() == 1 {
                    self.rep.count(&format!("rec/fault_outcome/{}/{}", kind_base(&f.fault.kind), outcome));
                }
            }
            if !st.faults.is_empty() && res.log.iter().any(|e| e.ex.presented != e.ex.honest) {
                self.rep.count("rec/tampered_runs_where_the_fault_hit");
            }
            if si > 0 && st.faults.is_empty() && !honest {
                self.rep.count("rec/history_honest_after_tampered");
                if !earlier_alarm {
                    self.rep.count("rec/history_honest_after_rejected_tampering");
                }
            }
            if std::env::var("C07_RDUMP").is_ok_and(|d| d == "all" || d == outcome) {
                eprintln!("RDUMP {} {} do={} faults={:?} -> {} [{}] {}", show(&st.qname), refzone::type_name(st.qtype), st.do_bit, st.faults.iter().map(|f| format!("{}|{}", f.fault.kind, f.fault.link)).collect::<Vec<_>>(), outcome, res.variant, res.obs.to_json());
                for e in &res.log {
                    eprintln!("    @{} {} {} -> {} rcode={} recs={}{}", show(&e.server), show(&e.ex.qname), refzone::type_name(e.ex.qtype), e.ex.honest.kind, e.ex.presented.rcode, e.ex.presented.recs.len(), if e.ex.presented != e.ex.honest { " (tampered)" } else { "" });
                }
            }
            for a in alarms {
                self.rep.count(&format!("rec/alarms_raw/{}", a.rule));
                if a.rule == "honest-rejected" {
                    // information only, as at the DnssecDnsHandle point: a stricter resolver is not unsound
                    self.rep.count(&format!("rec/info_honest_rejected{}/{}/{}", if self.opts.nsec3_limits.is_some() { "_with_nsec3_limits" } else { "" }, a.detail, ground_kind(b, &st.qname, st.qtype).replace('|', "/")));
                    continue;
                }
                if si > 0 && earlier_alarm {
                    // the tampering of an earlier step was accepted there (and is reported there): that
                    // the caches then keep what was accepted is not a defect of its own
                    self.rep.count("rec/info_alarm_after_accepted_tampering_not_reported");
                    continue;
                }
                self.report(b, &steps[..=si], a, workload);
            }
            // (v) repeated honest resolve
            if si > 0 && honest && steps[si - 1].qname == st.qname && steps[si - 1].qtype == st.qtype {
                self.rep.eval();
                self.rep.count("rec/cache_second_resolve");
                if res.log.is_empty() {
                    self.rep.count("rec/cache_second_resolve_without_network");
                }
                if steps[si - 1].do_bit != st.do_bit {
                    self.rep.count("rec/cache_second_resolve_other_do");
                }
                if let Some(a) = cache_alarm(&results[si - 1], res, steps[si - 1].do_bit == st.do_bit) {
                    self.rep.count("rec/alarms_raw/cache-proofs-differ");
                    self.report(b, &steps[..=si], a, workload);
                }
            }
            earlier_alarm |= any_real;
        }
    }
}

// ---------------------------------------------------------------------------------------------
// workload for one hierarchy

pub struct RParams {
    pub n_queries: usize,
    pub cap_single: usize,
    pub n_hist: usize,
}

pub fn workload(rep: &mut Reporter, attacker: &Arc<Attacker>, b: &Bench, hier_json: &Value, hier_hash: u64, queries: &[QueryCase], attacker_tags: &[u16], p: &RParams) {
    let t = b.truth();
    let mut rng = Rng::new(hier_hash ^ fnv64(b"rec/queries"));
    // some hierarchies with an NSEC3 zone of 5 iterations are resolved with iteration limits (3, 4)
    // configured: its denials then lie above the hard limit
    let high = t.zones.iter().any(|z| z.spec.signed && z.spec.nsec3.as_ref().is_some_and(|n| n.iterations > 4));
    let opts = ROpts { nsec3_limits: if high && rng.chance(2, 3) { Some((3, 4)) } else { None } };
    let mut j = RJudge { rep, opts, attacker: attacker.clone(), hier_json: hier_json.clone(), hier_hash };
    if opts.nsec3_limits.is_some() {
        j.rep.count("rec/hierarchies_with_nsec3_limits_configured");
    }
    // a stable choice of queries: distinct kinds first
    let mut qs: Vec<QueryCase> = queries.to_vec();
    rng.shuffle(&mut qs);
    let mut chosen: Vec<QueryCase> = Vec::new();
    if let Some((_, hard)) = opts.nsec3_limits {
        // with limits configured: first the queries whose answer needs an NSEC3 proof above the hard limit
        for q in &qs {
            let z = &t.zones[t.responsible(&q.qname, q.qtype)];
            let needs_proof = { let k = b.world.honest(&q.qname, q.qtype, true).kind; k.contains("nodata") || k.contains("nxdomain") || k.contains("wildcard") };
            if chosen.len() < 2 && needs_proof && z.spec.signed && z.spec.nsec3.as_ref().is_some_and(|n| n.iterations > hard) {
                chosen.push(q.clone());
            }
        }
    }
    for q in &qs {
        if chosen.len() < p.n_queries && !chosen.iter().any(|c| c.label == q.label) {
            chosen.push(q.clone());
        }
    }
    for q in &qs {
        if chosen.len() < p.n_queries && !chosen.iter().any(|c| c.qname == q.qname && c.qtype == q.qtype) {
            chosen.push(q.clone());
        }
    }
    j.rep.count("rec/hierarchies");
    if AuthNet::new(b.world.clone(), attacker.clone(), 1).shared_addresses() > 0 {
        j.rep.count("rec/hierarchies_with_a_server_address_shared_by_zones");
    }

    // ---- honest pass: resolve, resolve again (caches), resolve for a DO=0 client --------------
    let mut recorded: Vec<Recorded> = Vec::new();
    let mut pool: Vec<Rec> = Vec::new();
    let mut tops: Vec<Exchange> = Vec::new();
    for q in &chosen {
        let steps = vec![RStep::honest(q, true), RStep::honest(q, true), RStep::honest(q, false)];
        let results = match run_rsteps(b, attacker, &steps, &opts) {
            Ok(r) => r,
            Err(e) => {
                j.rep.inconclusive(&format!("validating-recursor point: {e}"));
                return;
            }
        };
        j.judge(b, &steps, &results, "rec-honest");
        j.rep.count(&format!("rec/honest_query/{}", q.label));
        let res = &results[0];
        if let Some((_, hard)) = opts.nsec3_limits {
            let over = |e: &AuthExchange| e.ex.presented.recs.iter().any(|x| x.rtype == ty::NSEC3 && x.rdata.len() >= 4 && u16::from_be_bytes([x.rdata[2], x.rdata[3]]) > hard);
            if res.log.iter().any(|e| is_top(e, &q.qname, q.qtype) && over(e)) {
                j.rep.count("rec/nsec3_over_hard_limit_honest_resolves");
                if !(matches!(res.obs.kind, OutKind::Ok) && crate::outcome_label(&res.obs) != "ok-with-bogus") {
                    j.rep.count("rec/nsec3_over_hard_limit_honest_resolves_rejected");
                } else if std::env::var("C07_RDUMP").is_ok_and(|d| d == "overlimit") {
                    eprintln!("OVERLIMIT {} {} -> [{}] {}", show(&q.qname), refzone::type_name(q.qtype), res.variant, res.obs.to_json());
                }
            }
        }
        // what the honest resolve showed, against the ground truth of each record's zone
        let mut all_as_expected = matches!(res.obs.kind, OutKind::Ok) && !res.obs.recs.is_empty();
        for (r, pr) in res.obs.recs.iter().filter(|(r, _)| r.rtype != ty::RRSIG && r.sec != SEC_AR) {
            let zs = t.zones_of_record(&r.owner, r.rtype);
            let expect: Vec<Status> = zs.iter().map(|z| t.zones[*z].status).collect();
            let ok = match pr {
                Proof::Secure => expect.contains(&Status::Secure),
                Proof::Insecure => expect.contains(&Status::Insecure),
                _ => false,
            };
            all_as_expected &= ok;
            if *pr == Proof::Secure && ok {
                j.rep.count("rec/honest_secure");
                j.rep.count(&format!("rec/honest_secure/{}", if t.zones[zs[0]].spec.nsec3.is_some() { "nsec3" } else { "nsec" }));
                if matches!(r.rtype, ty::NSEC | ty::NSEC3) {
                    j.rep.count("rec/honest_secure_denial_records");
                }
            }
            if *pr == Proof::Insecure && ok {
                j.rep.count("rec/honest_insecure");
            }
        }
        if all_as_expected {
            let zi = t.responsible(&q.qname, q.qtype);
            j.rep.count(&format!("rec/honest_expected_marks/{}", t.zones[zi].spec.mode.split('+').next().unwrap_or("")));
        }
        let ex = distinct_auth(&res.log, &q.qname, q.qtype);
        for e in &ex {
            j.rep.count(&format!("rec/authoritative_response/{}", e.ex.honest.kind.split('>').next().unwrap_or("")));
            for r in &e.ex.honest.recs {
                if !pool.contains(r) {
                    pool.push(r.clone());
                }
            }
            if !tops.iter().any(|x| x.qname == e.ex.qname && x.qtype == e.ex.qtype && x.honest == e.ex.honest) {
                tops.push(e.ex.clone());
            }
        }
        recorded.push(Recorded { q: q.clone(), ex });
    }

    // ---- tamper passes ---------------------------------------------------------------------------
    for (qi, r) in recorded.iter().enumerate() {
        if r.ex.is_empty() {
            continue;
        }
        let stage = |label: &str, k: u64| Rng::new(hier_hash ^ fnv64(format!("rec/{qi}/{label}/{k}").as_bytes()));
        let mut rng = stage("single", 0);
        let all = enumerate_faults(&mut rng, b, r, &pool, &tops, attacker_tags);
        j.rep.add("rec/single_faults_enumerated", all.len() as u64);
        let picked = sample_rfaults(&mut rng, &all, p.cap_single);
        for f in &picked {
            let steps = vec![RStep::tampered(&r.q, f)];
            let Ok(results) = run_rsteps(b, attacker, &steps, &opts) else { continue };
            j.judge(b, &steps, &results, "rec-single-fault");
        }
        // histories on one recursor: what a tampered resolve leaves behind
        for hn in 0..p.n_hist {
            let mut rng = stage("history", hn as u64);
            if all.is_empty() {
                break;
            }
            let f = rng.pick(&all).clone();
            let steps = match hn % 3 {
                0 => vec![RStep::tampered(&r.q, &f), RStep::honest(&r.q, true)],
                1 => vec![RStep::honest(&r.q, true), RStep::tampered(&r.q, &f), RStep::honest(&r.q, true)],
                _ => {
                    let other = &recorded[rng.usize_below(recorded.len())].q;
                    vec![RStep::tampered(other, &f), RStep::tampered(&r.q, rng.pick(&all)), RStep::honest(&r.q, true)]
                }
            };
            let Ok(results) = run_rsteps(b, attacker, &steps, &opts) else { continue };
            j.rep.count("rec/history_runs");
            j.judge(b, &steps, &results, "rec-history");
        }
    }
}

/// `--replay` of a witness of this observation point
pub fn replay(rep: &mut Reporter, attacker: &Arc<Attacker>, b: &Bench, hier_json: &Value, c: &Value, dump: bool) {
    let steps: Vec<RStep> = c["rsteps"].as_array().map(|a| a.iter().filter_map(RStep::from_json).collect()).unwrap_or_default();
    if steps.is_empty() {
        eprintln!("bad replay case: no rsteps");
        return;
    }
    let opts = ROpts::from_json(&c["opts"]);
    let mut j = RJudge { rep, opts, attacker: attacker.clone(), hier_json: hier_json.clone(), hier_hash: fnv64(hier_json.to_string().as_bytes()) };
    match run_rsteps(b, attacker, &steps, &opts) {
        Ok(results) => {
            if dump {
                for (st, r) in steps.iter().zip(results.iter()) {
                    println!("STEP {} {} do={} -> [{}] {}", show(&st.qname), refzone::type_name(st.qtype), st.do_bit, r.variant, serde_json::to_string_pretty(&r.obs.to_json()).unwrap());
                    for e in &r.log {
                        println!("    @{} {} {} do={} -> {} rcode={}{}", show(&e.server), show(&e.ex.qname), refzone::type_name(e.ex.qtype), e.ex.dnssec, e.ex.honest.kind, e.ex.presented.rcode, if e.ex.presented != e.ex.honest { " (tampered)" } else { "" });
                        for x in &e.ex.presented.recs {
                            println!("        {} {} {} {}", ["an", "ns", "ar"][x.sec.min(2) as usize], show(&x.owner), refzone::type_name(x.rtype), refzone::show_rdata(x.rtype, &x.rdata).chars().take(70).collect::<String>());
                        }
                    }
                }
            }
            j.judge(b, &steps, &results, "replay");
        }
        Err(e) => eprintln!("replay: {e}"),
    }
}
