//! Plain representation of resource records (independent of hickory types), their RFC wire
//! encoding (the ground truth the parsed records are compared with) and the record-set generator.

use vh::prng::Rng;

pub type Labels = Vec<Vec<u8>>;

#[derive(Clone, Debug, PartialEq)]
pub enum Param {
    Mandatory(Vec<u16>),
    Alpn(Vec<Vec<u8>>),
    NoDefaultAlpn,
    Port(u16),
    Ip4Hint(Vec<[u8; 4]>),
    Ech(Vec<u8>),
    Ip6Hint(Vec<[u8; 16]>),
    Key(u16, Option<Vec<u8>>),
}

impl Param {
    pub fn key(&self) -> u16 {
        match self {
            Param::Mandatory(_) => 0,
            Param::Alpn(_) => 1,
            Param::NoDefaultAlpn => 2,
            Param::Port(_) => 3,
            Param::Ip4Hint(_) => 4,
            Param::Ech(_) => 5,
            Param::Ip6Hint(_) => 6,
            Param::Key(k, _) => *k,
        }
    }
}

#[derive(Clone, Debug, PartialEq)]
pub enum Field {
    U8(u8),
    U16(u16),
    U32(u32),
    Ip4([u8; 4]),
    Ip6([u8; 16]),
    /// <domain-name>; wire: uncompressed labels
    Name(Labels),
    /// <character-string>; wire: length octet + octets
    Str(Vec<u8>),
    /// CAA tag: bare token; wire: length octet + octets
    Tag(Vec<u8>),
    /// CAA value: <character-string> in text; raw octets on the wire
    Value(Vec<u8>),
    /// hexadecimal, white space allowed inside (DS digest, TLSA/SMIMEA data)
    Hex(Vec<u8>),
    /// hexadecimal in one token (SSHFP: hickory takes exactly one token)
    Hex1(Vec<u8>),
    /// base64 in one token (CERT, OPENPGPKEY: hickory takes exactly one token)
    B64(Vec<u8>),
    /// DS algorithm: decimal or RFC 4034 A.1 mnemonic
    Alg(u8),
    /// CSYNC type bit map (sorted, distinct type codes)
    Types(Vec<u16>),
    /// SVCB/HTTPS SvcParams, strictly increasing keys
    Params(Vec<Param>),
}

#[derive(Clone, Debug, PartialEq)]
pub struct Rec {
    pub owner: Labels,
    pub class: u16,
    pub ttl: u32,
    pub tname: &'static str,
    pub tcode: u16,
    pub fields: Vec<Field>,
}

/// every type RData::from_tokens accepts (record_data.rs), with the code hickory assigns
pub const TYPES: &[(&str, u16)] = &[
    ("A", 1),
    ("AAAA", 28),
    ("ANAME", 65305),
    ("CAA", 257),
    ("CERT", 37),
    ("CNAME", 5),
    ("CSYNC", 62),
    ("DS", 43),
    ("HINFO", 13),
    ("HTTPS", 65),
    ("MX", 15),
    ("NAPTR", 35),
    ("NS", 2),
    ("OPENPGPKEY", 61),
    ("PTR", 12),
    ("SMIMEA", 53),
    ("SOA", 6),
    ("SRV", 33),
    ("SSHFP", 44),
    ("SVCB", 64),
    ("TLSA", 52),
    ("TXT", 16),
];

/// mnemonics usable inside a CSYNC bit map (hickory's RecordType::from_str has no TYPEnnn form)
pub const BITMAP_TYPES: &[(&str, u16)] = &[
    ("A", 1),
    ("NS", 2),
    ("CNAME", 5),
    ("SOA", 6),
    ("PTR", 12),
    ("HINFO", 13),
    ("MX", 15),
    ("TXT", 16),
    ("AAAA", 28),
    ("SRV", 33),
    ("NAPTR", 35),
    ("CERT", 37),
    ("DS", 43),
    ("SSHFP", 44),
    ("TLSA", 52),
    ("SMIMEA", 53),
    ("OPENPGPKEY", 61),
    ("CSYNC", 62),
    ("SVCB", 64),
    ("HTTPS", 65),
    ("CAA", 257),
];

pub const CLASS_IN: u16 = 1;
pub const CLASS_CH: u16 = 3;
pub const CLASS_HS: u16 = 4;

pub fn class_name(c: u16) -> &'static str {
    match c {
        1 => "IN",
        3 => "CH",
        4 => "HS",
        _ => "IN",
    }
}

pub fn fold(l: &[Vec<u8>]) -> Labels {
    l.iter().map(|x| x.to_ascii_lowercase()).collect()
}

pub fn show_name(l: &[Vec<u8>]) -> String {
    if l.is_empty() {
        return ".".into();
    }
    let mut s = String::new();
    for x in l {
        for &b in x {
            if b == b'.' {
                s.push_str("\\.");
            } else {
                s.push(b as char);
            }
        }
        s.push('.');
    }
    s
}

// ---------------------------------------------------------------------------------------------
// wire encoding (RFC 1035 §3.3, 2782, 3403, 3596, 4034, 4255, 4398, 6698, 7477, 7929, 8162, 8659, 9460)

fn put_name(out: &mut Vec<u8>, mask: &mut Vec<bool>, l: &[Vec<u8>]) {
    for x in l {
        out.push(x.len() as u8);
        mask.push(false);
        out.extend_from_slice(x);
        mask.extend(std::iter::repeat(true).take(x.len()));
    }
    out.push(0);
    mask.push(false);
}

fn put(out: &mut Vec<u8>, mask: &mut Vec<bool>, b: &[u8]) {
    out.extend_from_slice(b);
    mask.extend(std::iter::repeat(false).take(b.len()));
}

pub fn type_bitmap(types: &[u16]) -> Vec<u8> {
    let mut t = types.to_vec();
    t.sort_unstable();
    t.dedup();
    let mut out = Vec::new();
    let mut i = 0;
    while i < t.len() {
        let w = (t[i] >> 8) as u8;
        let mut bits = [0u8; 32];
        let mut maxb = 0usize;
        while i < t.len() && (t[i] >> 8) as u8 == w {
            let lo = (t[i] & 0xff) as usize;
            bits[lo / 8] |= 0x80 >> (lo % 8);
            maxb = maxb.max(lo / 8);
            i += 1;
        }
        out.push(w);
        out.push((maxb + 1) as u8);
        out.extend_from_slice(&bits[..=maxb]);
    }
    out
}

fn param_value(p: &Param) -> Vec<u8> {
    let mut v = Vec::new();
    match p {
        Param::Mandatory(ks) => {
            for k in ks {
                v.extend_from_slice(&k.to_be_bytes());
            }
        }
        Param::Alpn(ids) => {
            for id in ids {
                v.push(id.len() as u8);
                v.extend_from_slice(id);
            }
        }
        Param::NoDefaultAlpn => {}
        Param::Port(p) => v.extend_from_slice(&p.to_be_bytes()),
        Param::Ip4Hint(a) => {
            for x in a {
                v.extend_from_slice(x);
            }
        }
        Param::Ech(b) => v.extend_from_slice(b),
        Param::Ip6Hint(a) => {
            for x in a {
                v.extend_from_slice(x);
            }
        }
        Param::Key(_, val) => {
            if let Some(x) = val {
                v.extend_from_slice(x);
            }
        }
    }
    v
}

/// RDATA bytes and a mask of the octets that belong to domain-name labels (compared
/// case-insensitively: the parser folds names, which DNS equality permits)
pub fn rdata_wire(fields: &[Field]) -> (Vec<u8>, Vec<bool>) {
    let mut o = Vec::new();
    let mut m = Vec::new();
    for f in fields {
        match f {
            Field::U8(x) | Field::Alg(x) => put(&mut o, &mut m, &[*x]),
            Field::U16(x) => put(&mut o, &mut m, &x.to_be_bytes()),
            Field::U32(x) => put(&mut o, &mut m, &x.to_be_bytes()),
            Field::Ip4(a) => put(&mut o, &mut m, a),
            Field::Ip6(a) => put(&mut o, &mut m, a),
            Field::Name(l) => put_name(&mut o, &mut m, l),
            Field::Str(s) | Field::Tag(s) => {
                put(&mut o, &mut m, &[s.len() as u8]);
                put(&mut o, &mut m, s);
            }
            Field::Value(s) | Field::Hex(s) | Field::Hex1(s) | Field::B64(s) => put(&mut o, &mut m, s),
            Field::Types(t) => put(&mut o, &mut m, &type_bitmap(t)),
            Field::Params(ps) => {
                for p in ps {
                    let v = param_value(p);
                    put(&mut o, &mut m, &p.key().to_be_bytes());
                    put(&mut o, &mut m, &(v.len() as u16).to_be_bytes());
                    put(&mut o, &mut m, &v);
                }
            }
        }
    }
    (o, m)
}

/// wire bytes with the name octets folded (canonical key for de-duplication)
pub fn rdata_key(fields: &[Field]) -> Vec<u8> {
    let (mut w, m) = rdata_wire(fields);
    for (b, is_name) in w.iter_mut().zip(m.iter()) {
        if *is_name {
            *b = b.to_ascii_lowercase();
        }
    }
    w
}

// ---------------------------------------------------------------------------------------------
// generators

const ALNUM: &[u8] = b"abcdefghijklmnopqrstuvwxyzABCDEFGHIJKLMNOPQRSTUVWXYZ0123456789";
const LOWER_NUM: &[u8] = b"abcdefghijklmnopqrstuvwxyz0123456789";

fn ldh_word(rng: &mut Rng, maxlen: usize) -> Vec<u8> {
    let n = if rng.chance(1, 30) { maxlen } else { rng.urange(1, maxlen.min(8)) };
    let mut v = Vec::with_capacity(n);
    for i in 0..n {
        // hyphens anywhere but first, also last and doubled (`web-`, `a--b`): the master-file syntax has no
        // hostname (LDH) rule. A LEADING hyphen is not generated: hickory's text parser refuses it by design
        // ("Malformed label"), and the statement's name forms do not settle whether it must load (don't-care).
        if i > 0 && rng.chance(1, 10) {
            v.push(b'-');
        } else if rng.chance(1, 6) {
            v.push(*rng.pick(b"0123456789"));
        } else if rng.chance(1, 5) {
            v.push(*rng.pick(b"ABCDEFGHIJKLMNOPQRSTUVWXYZ"));
        } else {
            v.push(*rng.pick(b"abcdefghijklmnopqrstuvwxyz"));
        }
    }
    // keep clear of IDNA A-labels: the parser validates "xn--" labels as punycode
    if v.len() >= 4 && v[..4].eq_ignore_ascii_case(b"xn--") {
        v[0] = b'y';
    }
    v
}

/// A label as the text parser supports it: LDH host label, optionally with a leading underscore,
/// optionally with dots inside (printed as `\.`).
pub fn gen_label(rng: &mut Rng, maxlen: usize) -> Vec<u8> {
    let maxlen = maxlen.clamp(1, 63);
    let mut v = Vec::new();
    if rng.chance(1, 10) && maxlen >= 2 {
        v.push(b'_');
    }
    let room = maxlen - v.len();
    v.extend(ldh_word(rng, room.max(1)));
    if rng.chance(1, 12) {
        // escaped dot(s) inside the label
        let k = rng.urange(1, 2);
        for _ in 0..k {
            if v.len() + 2 <= maxlen {
                match rng.below(8) {
                    // (an underscore is only supported as the very first octet of a label)
                    0 if v[0] != b'_' => v.insert(0, b'.'),
                    1 => v.push(b'.'),
                    _ => {
                        v.push(b'.');
                        let room = maxlen - v.len();
                        v.extend(ldh_word(rng, room.clamp(1, 5)));
                    }
                }
            }
        }
    }
    v.truncate(maxlen);
    v
}

pub fn wire_len(l: &[Vec<u8>]) -> usize {
    1 + l.iter().map(|x| x.len() + 1).sum::<usize>()
}

pub fn gen_origin(rng: &mut Rng) -> Labels {
    let n = match rng.below(12) {
        0 => 0,
        1..=3 => 1,
        4..=8 => 2,
        _ => 3,
    };
    (0..n).map(|_| gen_label(rng, 12)).collect()
}

/// names of one zone: below the origin, the origin itself, below a sibling, unrelated
pub struct Universe {
    pub origin: Labels,
    pub alt_origins: Vec<Labels>,
    pub names: Vec<Labels>,
}

pub fn gen_universe(rng: &mut Rng) -> Universe {
    let origin = gen_origin(rng);
    let mut alt: Vec<Labels> = Vec::new();
    // child, parent, sibling, unrelated
    let mut child = vec![gen_label(rng, 10)];
    child.extend(origin.iter().cloned());
    alt.push(child);
    if !origin.is_empty() {
        alt.push(origin[1..].to_vec());
        let mut sib = vec![gen_label(rng, 10)];
        sib.extend(origin[1..].iter().cloned());
        alt.push(sib);
    }
    alt.push(vec![gen_label(rng, 10), gen_label(rng, 6)]);
    let mut names: Vec<Labels> = vec![origin.clone()];
    let n = rng.urange(2, 7);
    for _ in 0..n {
        let base = if rng.chance(3, 4) { origin.clone() } else { rng.pick(&alt).clone() };
        let depth = rng.urange(1, 3);
        let mut l: Labels = Vec::new();
        for d in 0..depth {
            if d == 0 && rng.chance(1, 12) {
                l.push(b"*".to_vec());
            } else if rng.chance(1, 40) {
                l.push(gen_label(rng, 63));
            } else {
                l.push(gen_label(rng, 10));
            }
        }
        l.extend(base.iter().cloned());
        if wire_len(&l) <= 255 {
            names.push(l);
        }
    }
    if rng.chance(1, 30) {
        // a name of maximal length
        let mut l: Labels = Vec::new();
        let mut base = origin.clone();
        base.truncate(2);
        while wire_len(&l) + wire_len(&base) - 1 + 64 <= 255 {
            l.push(gen_label(rng, 63));
        }
        l.extend(base);
        names.push(l);
    }
    Universe { origin, alt_origins: alt, names }
}

fn strip_wildcard(mut l: Labels) -> Labels {
    if l.first().map(|x| x.as_slice() == b"*").unwrap_or(false) {
        l.remove(0);
    }
    l
}

pub fn gen_u8(rng: &mut Rng) -> u8 {
    match rng.below(6) {
        0 => 0,
        1 => 255,
        2 => rng.below(4) as u8,
        _ => rng.u8(),
    }
}
pub fn gen_u16(rng: &mut Rng) -> u16 {
    match rng.below(6) {
        0 => 0,
        1 => 65535,
        2 => rng.below(100) as u16,
        _ => rng.u16(),
    }
}
pub fn gen_u32(rng: &mut Rng, max: u32) -> u32 {
    match rng.below(6) {
        0 => 0,
        1 => max,
        2 => rng.below(100_000) as u32,
        _ => (rng.next_u32()) % max.max(1),
    }
}

/// printable ASCII character-string in one of the content classes the statement talks about
pub fn gen_str(rng: &mut Rng, maxlen: usize) -> Vec<u8> {
    const SIMPLE: &[u8] = b"abcdefghijklmnopqrstuvwxyzABCDEFGHIJKLMNOPQRSTUVWXYZ0123456789-_.:/=+!^*%&'<>?[]{}|~#,$@";
    const SPACEY: &[u8] = b"abcdefghijklmnopqrstuvwxyz0123456789  ;;()@$=.-:";
    let class = rng.below(20);
    if class == 0 {
        return Vec::new();
    }
    let n = if rng.chance(1, 25) { maxlen } else { rng.urange(1, maxlen.min(20)) };
    let mut v = Vec::with_capacity(n);
    for _ in 0..n {
        let c = match class {
            1..=9 => *rng.pick(SIMPLE),
            10..=14 => *rng.pick(SPACEY),
            15..=16 => {
                if rng.chance(1, 4) {
                    b'"'
                } else {
                    *rng.pick(SIMPLE)
                }
            }
            17..=18 => {
                if rng.chance(1, 4) {
                    b'\\'
                } else {
                    *rng.pick(SIMPLE)
                }
            }
            _ => rng.range(0x20, 0x7e) as u8,
        };
        v.push(c);
    }
    v
}

fn gen_blob(rng: &mut Rng, lo: usize, hi: usize) -> Vec<u8> {
    let n = if rng.chance(1, 20) { hi } else { rng.urange(lo, hi.min(lo + 40)) };
    rng.bytes(n)
}

fn gen_ip6(rng: &mut Rng) -> [u8; 16] {
    let mut a = [0u8; 16];
    match rng.below(5) {
        0 => {}
        1 => a[15] = 1,
        2 => {
            let b = rng.bytes(16);
            a.copy_from_slice(&b);
        }
        _ => {
            // groups of zeros in random places
            for g in 0..8 {
                if rng.chance(1, 2) {
                    let x = if rng.bool() { rng.u16() } else { rng.below(256) as u16 };
                    a[2 * g..2 * g + 2].copy_from_slice(&x.to_be_bytes());
                }
            }
        }
    }
    a
}

fn gen_params(rng: &mut Rng) -> Vec<Param> {
    let mut ps: Vec<Param> = Vec::new();
    if rng.chance(1, 5) {
        return ps;
    }
    if rng.chance(1, 2) {
        let n = rng.urange(1, 3);
        let ids = (0..n)
            .map(|_| {
                let k = rng.urange(1, 6);
                (0..k).map(|_| *rng.pick(b"abcdefghijklmnopqrstuvwxyz0123456789/.-")).collect::<Vec<u8>>()
            })
            .collect();
        ps.push(Param::Alpn(ids));
    }
    if rng.chance(1, 6) {
        ps.push(Param::NoDefaultAlpn);
    }
    if rng.chance(1, 3) {
        ps.push(Param::Port(gen_u16(rng)));
    }
    if rng.chance(1, 3) {
        let n = rng.urange(1, 3);
        ps.push(Param::Ip4Hint((0..n).map(|_| [rng.u8(), rng.u8(), rng.u8(), rng.u8()]).collect()));
    }
    if rng.chance(1, 5) {
        ps.push(Param::Ech(gen_blob(rng, 1, 60)));
    }
    if rng.chance(1, 3) {
        let n = rng.urange(1, 2);
        ps.push(Param::Ip6Hint((0..n).map(|_| gen_ip6(rng)).collect()));
    }
    let mut k = 6u16;
    for _ in 0..rng.below(3) {
        k = k.saturating_add(rng.range(1, 20000) as u16);
        if k >= 65535 {
            break;
        }
        let val = if rng.chance(1, 4) {
            None
        } else {
            let n = rng.urange(1, 10);
            Some((0..n).map(|_| *rng.pick(LOWER_NUM)).collect())
        };
        ps.push(Param::Key(k, val));
    }
    if !ps.is_empty() && rng.chance(1, 4) {
        let mut ks: Vec<u16> = ps.iter().map(|p| p.key()).filter(|_| rng.bool()).collect();
        if ks.is_empty() {
            ks.push(ps[0].key());
        }
        ks.sort_unstable();
        ps.insert(0, Param::Mandatory(ks));
    }
    ps
}

/// Field values for one record of type `t`.
///
/// Restrictions (each documented in main.rs): SOA REFRESH/RETRY/EXPIRE ≤ 2^31-1; CSYNC flags ≤ 3;
/// CAA tags lower-case alphanumerics; NAPTR flags alphanumerics; SvcParams in increasing key
/// order with simple (escape-free) values; character-strings are printable ASCII.
pub fn gen_fields(rng: &mut Rng, t: &str, u: &Universe) -> Vec<Field> {
    let name = |rng: &mut Rng| -> Field {
        if rng.chance(1, 25) {
            return Field::Name(Vec::new());
        }
        Field::Name(strip_wildcard(rng.pick(&u.names).clone()))
    };
    match t {
        "A" => vec![Field::Ip4([gen_u8(rng), gen_u8(rng), gen_u8(rng), gen_u8(rng)])],
        "AAAA" => vec![Field::Ip6(gen_ip6(rng))],
        "NS" | "CNAME" | "PTR" | "ANAME" => vec![name(rng)],
        "MX" => vec![Field::U16(gen_u16(rng)), name(rng)],
        "SOA" => vec![
            name(rng),
            name(rng),
            Field::U32(gen_u32(rng, u32::MAX)),
            Field::U32(gen_u32(rng, i32::MAX as u32)),
            Field::U32(gen_u32(rng, i32::MAX as u32)),
            Field::U32(gen_u32(rng, i32::MAX as u32)),
            Field::U32(gen_u32(rng, u32::MAX)),
        ],
        "SRV" => vec![Field::U16(gen_u16(rng)), Field::U16(gen_u16(rng)), Field::U16(gen_u16(rng)), name(rng)],
        "TXT" => {
            let n = match rng.below(10) {
                0..=5 => 1,
                6..=8 => rng.urange(2, 4),
                _ => rng.urange(5, 12),
            };
            (0..n).map(|_| Field::Str(gen_str(rng, 255))).collect()
        }
        "HINFO" => vec![Field::Str(gen_str(rng, 255)), Field::Str(gen_str(rng, 255))],
        "NAPTR" => {
            let fl = rng.urange(0, 2);
            let flags: Vec<u8> = (0..fl).map(|_| *rng.pick(ALNUM)).collect();
            vec![
                Field::U16(gen_u16(rng)),
                Field::U16(gen_u16(rng)),
                Field::Str(flags),
                Field::Str(gen_str(rng, 60)),
                Field::Str(gen_str(rng, 255)),
                name(rng),
            ]
        }
        "CAA" => {
            let tl = rng.urange(1, 10);
            let tag: Vec<u8> = if rng.chance(2, 3) {
                rng.pick(&[&b"issue"[..], &b"issuewild"[..], &b"iodef"[..]]).to_vec()
            } else {
                (0..tl).map(|_| *rng.pick(LOWER_NUM)).collect()
            };
            let flags = *rng.pick(&[0u8, 128, 0, 128, 1, 255]);
            vec![Field::U8(flags), Field::Tag(tag), Field::Value(gen_str(rng, 255))]
        }
        "CERT" => vec![Field::U16(gen_u16(rng)), Field::U16(gen_u16(rng)), Field::U8(gen_u8(rng)), Field::B64(gen_blob(rng, 1, 300))],
        "OPENPGPKEY" => vec![Field::B64(gen_blob(rng, 1, 600))],
        "CSYNC" => {
            let n = rng.urange(1, 6);
            let mut ts: Vec<u16> = (0..n).map(|_| rng.pick(BITMAP_TYPES).1).collect();
            ts.sort_unstable();
            ts.dedup();
            vec![Field::U32(gen_u32(rng, u32::MAX)), Field::U16(rng.below(4) as u16), Field::Types(ts)]
        }
        "DS" => {
            let alg = if rng.chance(1, 3) { *rng.pick(&[1u8, 2, 3, 4, 5, 252, 253, 254]) } else { gen_u8(rng) };
            vec![Field::U16(gen_u16(rng)), Field::Alg(alg), Field::U8(gen_u8(rng)), Field::Hex(gen_blob(rng, 1, 64))]
        }
        "SSHFP" => vec![Field::U8(gen_u8(rng)), Field::U8(gen_u8(rng)), Field::Hex1(gen_blob(rng, 1, 64))],
        "TLSA" | "SMIMEA" => vec![Field::U8(gen_u8(rng)), Field::U8(gen_u8(rng)), Field::U8(gen_u8(rng)), Field::Hex(gen_blob(rng, 1, 64))],
        "SVCB" | "HTTPS" => {
            let prio = if rng.chance(1, 5) { 0 } else { gen_u16(rng) };
            vec![Field::U16(prio), name(rng), Field::Params(gen_params(rng))]
        }
        _ => unreachable!("type {t}"),
    }
}

pub struct Zone {
    pub origin: Labels,
    pub alt_origins: Vec<Labels>,
    pub recs: Vec<Rec>,
}

/// A record set that is a legal zone content for the parser's container: one TTL and one class
/// per RRset (RFC 2181 §5.2), no duplicate RDATA inside an RRset, at most one SOA, at most one
/// CNAME / ANAME per owner.
pub fn gen_zone(rng: &mut Rng, type_cursor: &mut usize) -> Zone {
    let u = gen_universe(rng);
    let n = match rng.below(20) {
        0 => 1,
        1..=12 => rng.urange(2, 6),
        _ => rng.urange(7, 14),
    };
    let ttl_palette: Vec<u32> = (0..rng.urange(1, 3))
        .map(|_| match rng.below(6) {
            0 => 0,
            1 => i32::MAX as u32,
            2 => 3600,
            _ => rng.below(1_000_000) as u32,
        })
        .collect();
    let mut recs: Vec<Rec> = Vec::new();
    let mut rrset: std::collections::BTreeMap<(Labels, u16), (u32, u16)> = Default::default();
    let mut seen: std::collections::BTreeSet<(Labels, u16, Vec<u8>)> = Default::default();
    let mut have_soa = false;
    let mut prev_owner: Option<Labels> = None;
    for _ in 0..n {
        // rotate through the types so that every type appears often, with random extras
        let (tname, tcode) = if rng.chance(1, 2) {
            *type_cursor += 1;
            TYPES[*type_cursor % TYPES.len()]
        } else if rng.chance(1, 2) {
            *rng.pick(&[("TXT", 16u16), ("NS", 2), ("MX", 15), ("A", 1), ("HINFO", 13), ("SOA", 6)])
        } else {
            *rng.pick(TYPES)
        };
        let owner = match &prev_owner {
            Some(p) if rng.chance(2, 5) => p.clone(),
            _ => rng.pick(&u.names).clone(),
        };
        let fo = fold(&owner);
        if tname == "SOA" {
            if have_soa {
                continue;
            }
            have_soa = true;
        }
        if matches!(tname, "CNAME" | "ANAME") && rrset.contains_key(&(fo.clone(), tcode)) {
            continue;
        }
        let fields = gen_fields(rng, tname, &u);
        if !seen.insert((fo.clone(), tcode, rdata_key(&fields))) {
            continue;
        }
        let (ttl, class) = *rrset.entry((fo, tcode)).or_insert_with(|| {
            let ttl = *rng.pick(&ttl_palette);
            // other classes only for class-independent types
            let class = if matches!(tname, "TXT" | "CNAME" | "NS" | "PTR" | "MX" | "HINFO") && rng.chance(1, 4) {
                *rng.pick(&[CLASS_CH, CLASS_HS])
            } else {
                CLASS_IN
            };
            (ttl, class)
        });
        prev_owner = Some(owner.clone());
        recs.push(Rec { owner, class, ttl, tname, tcode, fields });
    }
    if recs.is_empty() {
        recs.push(Rec { owner: u.names[0].clone(), class: CLASS_IN, ttl: 60, tname: "A", tcode: 1, fields: vec![Field::Ip4([192, 0, 2, 1])] });
    }
    Zone { origin: u.origin, alt_origins: u.alt_origins, recs }
}
