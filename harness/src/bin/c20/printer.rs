//! Independent master-file printer (RFC 1035 §5.1, RFC 2308 §4 `$TTL`, and the presentation
//! format of each type from its own RFC). Never calls hickory's Display implementations.
//!
//! A `Plan` is a list of items (records with per-record layout *wishes*, directives, blank and
//! comment lines). The printer keeps the master-file state (current origin, last stated owner,
//! last stated class, last explicit TTL, `$TTL` default) and honours a wish only when the text
//! then still denotes the record: a field is omitted only when its inherited value equals the
//! denoted one, a name is written relative only when it lies below the current origin, `@` only
//! when it equals it. Because wishes degrade gracefully, any sub-plan (items removed, wishes
//! reset) is again a valid text for the remaining records — which is what the shrinker uses.

use std::collections::BTreeSet;

use vh::prng::Rng;

use crate::model::*;

#[derive(Clone, Copy, Debug, PartialEq)]
pub enum NameForm {
    Abs,
    Rel,
    At,
}

#[derive(Clone, Copy, Debug, PartialEq)]
pub enum OwnerForm {
    Name(NameForm),
    Blank,
}

#[derive(Clone, Copy, Debug, PartialEq)]
pub enum StrForm {
    /// always quoted
    Quoted,
    /// unquoted when the content allows it without escapes, else quoted
    Bare,
    /// unquoted with `\"` / `\\` escapes when the content has no blanks etc. (else quoted)
    BareEsc,
}

#[derive(Clone, Debug, PartialEq)]
pub enum Paren {
    None,
    /// open before RDATA token `open`, close after token `close-1` (indices clamped)
    Rdata { open: usize, close: usize, multiline: bool, comments: bool },
    /// open right after the owner (before TTL/class/type), close at the end
    Early { multiline: bool },
}

#[derive(Clone, Debug, PartialEq)]
pub struct RecWish {
    pub owner: OwnerForm,
    pub omit_ttl: bool,
    pub omit_class: bool,
    pub class_first: bool,
    pub lc_mnemonic: bool,
    pub uc_names: bool,
    pub rd_names: NameForm,
    pub strings: StrForm,
    pub hex_split: bool,
    pub hex_upper: bool,
    pub alt_forms: bool,
    pub paren: Paren,
    pub tabs: bool,
    pub comment: Option<String>,
    pub glue_comment: bool,
    pub seed: u64,
}

impl RecWish {
    pub fn plain() -> Self {
        RecWish {
            owner: OwnerForm::Name(NameForm::Abs),
            omit_ttl: false,
            omit_class: false,
            class_first: false,
            lc_mnemonic: false,
            uc_names: false,
            rd_names: NameForm::Abs,
            strings: StrForm::Quoted,
            hex_split: false,
            hex_upper: false,
            alt_forms: false,
            paren: Paren::None,
            tabs: false,
            comment: None,
            glue_comment: false,
            seed: 0,
        }
    }
}

#[derive(Clone, Debug, PartialEq)]
pub enum Item {
    Rec(usize, RecWish),
    Origin(Labels, Option<String>),
    Ttl(u32, Option<String>),
    BlankLine(String),
    CommentLine(String, String),
}

#[derive(Clone, Debug, PartialEq)]
pub struct Plan {
    pub items: Vec<Item>,
    pub crlf: bool,
    pub final_newline: bool,
}

pub struct Printed {
    pub text: String,
    pub features: BTreeSet<&'static str>,
    /// indices (into the record list) of the records the text denotes, in file order
    pub denoted: Vec<usize>,
    /// the text of each plan item (item i of the plan is `item_lines[i]`; a parenthesised record
    /// may span several physical lines), and the line terminator that joins them
    pub item_lines: Vec<String>,
    pub nl: &'static str,
}

/// all layout features the printer can produce; `RISKY` ones are known to hit confirmed parser
/// defects and are therefore requested only in a small share of the cases
pub const FEATURES: &[&str] = &[
    "abs-owner",
    "rel-owner",
    "at-owner",
    "blank-owner",
    "origin-switch",
    "ttl-directive",
    "ttl-omitted",
    "class-omitted",
    "ttl-first",
    "class-first",
    "comment",
    "comment-line",
    "blank-line",
    "paren",
    "paren-multiline",
    "comment-in-paren",
    "quoted-string",
    "bare-string",
    "esc-dot",
    "esc-quote",
    "esc-backslash",
    "tabs",
    "no-final-newline",
    "rdata-abs-name",
    "rdata-rel-name",
    "crlf",
    "lc-mnemonic",
    "uc-name",
    "hex-split",
    "rdata-at",
    "bare-esc",
    "paren-early",
    "long-comment",
    "quoted-in-paren",
];
pub const RISKY: &[&str] = &["rdata-at", "bare-esc", "paren-early", "long-comment", "quoted-in-paren"];
/// counted but left out of signatures: derived features (their constituents are in) and the
/// unquoted form of a string (every other RDATA token is written that way too)
pub const DERIVED: &[&str] = &["quoted-in-paren", "bare-string"];
/// the plainest choices; not counted as "layout features" for the non-triviality rule nor in signatures
pub const PLAIN: &[&str] = &["abs-owner", "ttl-first", "rdata-abs-name"];

struct Tok {
    text: String,
    quoted: bool,
}

struct St {
    origin: Labels,
    last_owner: Option<Labels>,
    last_class: Option<u16>,
    last_ttl: Option<u32>,
    default_ttl: Option<u32>,
}

fn is_below(name: &[Vec<u8>], origin: &[Vec<u8>]) -> bool {
    name.len() > origin.len() && fold(&name[name.len() - origin.len()..]) == fold(origin)
}

fn label_text(l: &[u8], uc: bool, r: &mut Rng, feats: &mut BTreeSet<&'static str>) -> String {
    let mut s = String::new();
    for &b in l {
        if b == b'.' {
            s.push_str("\\.");
            feats.insert("esc-dot");
        } else if uc && b.is_ascii_alphabetic() && r.bool() {
            let c = if b.is_ascii_lowercase() { b.to_ascii_uppercase() } else { b.to_ascii_lowercase() };
            s.push(c as char);
            feats.insert("uc-name");
        } else {
            s.push(b as char);
        }
    }
    s
}

/// returns (text, form actually used)
fn name_text(name: &[Vec<u8>], origin: &[Vec<u8>], form: NameForm, uc: bool, r: &mut Rng, feats: &mut BTreeSet<&'static str>) -> (String, NameForm) {
    let equal = fold(name) == fold(origin);
    if form == NameForm::At && equal {
        return ("@".to_string(), NameForm::At);
    }
    if form != NameForm::Abs && is_below(name, origin) {
        let k = name.len() - origin.len();
        let parts: Vec<String> = name[..k].iter().map(|l| label_text(l, uc, r, feats)).collect();
        return (parts.join("."), NameForm::Rel);
    }
    if name.is_empty() {
        return (".".to_string(), NameForm::Abs);
    }
    let mut s = String::new();
    for l in name {
        s.push_str(&label_text(l, uc, r, feats));
        s.push('.');
    }
    (s, NameForm::Abs)
}

fn bare_ok(s: &[u8]) -> bool {
    !s.is_empty() && !matches!(s[0], b'@' | b'$') && s.iter().all(|&b| b > 0x20 && b < 0x7f && !matches!(b, b'"' | b'(' | b')' | b';' | b'\\'))
}

fn bare_esc_ok(s: &[u8]) -> bool {
    !s.is_empty()
        && !matches!(s[0], b'@' | b'$')
        && s.iter().all(|&b| b > 0x20 && b < 0x7f && !matches!(b, b'(' | b')' | b';'))
        && s.iter().any(|&b| matches!(b, b'"' | b'\\'))
}

fn str_tok(s: &[u8], form: StrForm, feats: &mut BTreeSet<&'static str>) -> Tok {
    match form {
        StrForm::Bare | StrForm::BareEsc if bare_ok(s) => {
            feats.insert("bare-string");
            return Tok { text: String::from_utf8_lossy(s).into_owned(), quoted: false };
        }
        StrForm::BareEsc if bare_esc_ok(s) => {
            feats.insert("bare-esc");
            let mut t = String::new();
            for &b in s {
                if b == b'"' || b == b'\\' {
                    t.push('\\');
                }
                t.push(b as char);
            }
            return Tok { text: t, quoted: false };
        }
        _ => {}
    }
    feats.insert("quoted-string");
    let mut t = String::from("\"");
    for &b in s {
        if b == b'"' {
            t.push('\\');
            feats.insert("esc-quote");
        } else if b == b'\\' {
            t.push('\\');
            feats.insert("esc-backslash");
        }
        t.push(b as char);
    }
    t.push('"');
    Tok { text: t, quoted: true }
}

fn plain(s: impl Into<String>) -> Tok {
    Tok { text: s.into(), quoted: false }
}

pub fn hex_text(b: &[u8], upper: bool) -> String {
    let mut s = String::new();
    for x in b {
        if upper {
            s.push_str(&format!("{x:02X}"));
        } else {
            s.push_str(&format!("{x:02x}"));
        }
    }
    s
}

/// RFC 4648 §4 base64 with padding
pub fn base64_text(b: &[u8]) -> String {
    const A: &[u8] = b"ABCDEFGHIJKLMNOPQRSTUVWXYZabcdefghijklmnopqrstuvwxyz0123456789+/";
    let mut s = String::new();
    for c in b.chunks(3) {
        let n = (c[0] as u32) << 16 | (*c.get(1).unwrap_or(&0) as u32) << 8 | *c.get(2).unwrap_or(&0) as u32;
        s.push(A[(n >> 18) as usize & 63] as char);
        s.push(A[(n >> 12) as usize & 63] as char);
        s.push(if c.len() > 1 { A[(n >> 6) as usize & 63] as char } else { '=' });
        s.push(if c.len() > 2 { A[n as usize & 63] as char } else { '=' });
    }
    s
}

fn ip4_text(a: &[u8; 4]) -> String {
    format!("{}.{}.{}.{}", a[0], a[1], a[2], a[3])
}

/// RFC 4291 §2.2 text forms: 1 (full) or 2 (one "::" for the longest run of zero groups)
fn ip6_text(a: &[u8; 16], compress: bool, upper: bool) -> String {
    let g: Vec<u16> = (0..8).map(|i| u16::from_be_bytes([a[2 * i], a[2 * i + 1]])).collect();
    let h = |x: u16| if upper { format!("{x:X}") } else { format!("{x:x}") };
    if compress {
        let (mut best, mut best_len, mut i) = (0usize, 0usize, 0usize);
        while i < 8 {
            if g[i] == 0 {
                let mut j = i;
                while j < 8 && g[j] == 0 {
                    j += 1;
                }
                if j - i > best_len {
                    best = i;
                    best_len = j - i;
                }
                i = j;
            } else {
                i += 1;
            }
        }
        if best_len >= 1 {
            let left: Vec<String> = g[..best].iter().map(|x| h(*x)).collect();
            let right: Vec<String> = g[best + best_len..].iter().map(|x| h(*x)).collect();
            return format!("{}::{}", left.join(":"), right.join(":"));
        }
    }
    g.iter().map(|x| h(*x)).collect::<Vec<_>>().join(":")
}

fn alg_mnemonic(a: u8) -> Option<&'static str> {
    // RFC 4034 Appendix A.1
    Some(match a {
        1 => "RSAMD5",
        2 => "DH",
        3 => "DSA",
        4 => "ECC",
        5 => "RSASHA1",
        252 => "INDIRECT",
        253 => "PRIVATEDNS",
        254 => "PRIVATEOID",
        _ => return None,
    })
}

fn key_name(k: u16) -> String {
    match k {
        0 => "mandatory".into(),
        1 => "alpn".into(),
        2 => "no-default-alpn".into(),
        3 => "port".into(),
        4 => "ipv4hint".into(),
        5 => "ech".into(),
        6 => "ipv6hint".into(),
        k => format!("key{k}"),
    }
}

fn param_text(p: &Param, alt: bool, r: &mut Rng) -> String {
    let q = |v: String, r: &mut Rng| if alt && r.chance(1, 3) { format!("\"{v}\"") } else { v };
    match p {
        Param::Mandatory(ks) => format!("mandatory={}", ks.iter().map(|k| key_name(*k)).collect::<Vec<_>>().join(",")),
        Param::Alpn(ids) => {
            let v = ids.iter().map(|i| String::from_utf8_lossy(i).into_owned()).collect::<Vec<_>>().join(",");
            format!("alpn={}", q(v, r))
        }
        Param::NoDefaultAlpn => "no-default-alpn".into(),
        Param::Port(p) => format!("port={p}"),
        Param::Ip4Hint(a) => format!("ipv4hint={}", a.iter().map(ip4_text).collect::<Vec<_>>().join(",")),
        Param::Ech(b) => format!("ech={}", base64_text(b)),
        Param::Ip6Hint(a) => format!("ipv6hint={}", a.iter().map(|x| ip6_text(x, r.bool(), false)).collect::<Vec<_>>().join(",")),
        Param::Key(k, None) => format!("key{k}"),
        Param::Key(k, Some(v)) => format!("key{k}={}", String::from_utf8_lossy(v)),
    }
}

fn rdata_tokens(rec: &Rec, w: &RecWish, origin: &[Vec<u8>], r: &mut Rng, feats: &mut BTreeSet<&'static str>) -> Vec<Tok> {
    let mut t: Vec<Tok> = Vec::new();
    for f in &rec.fields {
        match f {
            Field::U8(x) => t.push(plain(x.to_string())),
            Field::U16(x) => t.push(plain(x.to_string())),
            Field::U32(x) => t.push(plain(x.to_string())),
            Field::Ip4(a) => t.push(plain(ip4_text(a))),
            Field::Ip6(a) => t.push(plain(ip6_text(a, w.alt_forms || r.bool(), w.hex_upper))),
            Field::Name(l) => {
                let (s, used) = name_text(l, origin, w.rd_names, w.uc_names, r, feats);
                feats.insert(match used {
                    NameForm::Abs => "rdata-abs-name",
                    NameForm::Rel => "rdata-rel-name",
                    NameForm::At => "rdata-at",
                });
                t.push(plain(s));
            }
            Field::Str(s) | Field::Value(s) => t.push(str_tok(s, w.strings, feats)),
            Field::Tag(s) => t.push(plain(String::from_utf8_lossy(s).into_owned())),
            Field::Hex(b) => {
                let h = hex_text(b, w.hex_upper);
                if w.hex_split && h.len() >= 2 {
                    feats.insert("hex-split");
                    let mut rest = h.as_str();
                    while !rest.is_empty() {
                        let k = if rest.len() > 1 && r.chance(2, 3) { r.urange(1, rest.len().min(24)) } else { rest.len() };
                        t.push(plain(&rest[..k]));
                        rest = &rest[k..];
                    }
                } else {
                    t.push(plain(h));
                }
            }
            Field::Hex1(b) => t.push(plain(hex_text(b, w.hex_upper))),
            Field::B64(b) => t.push(plain(base64_text(b))),
            Field::Alg(a) => match alg_mnemonic(*a) {
                Some(m) if w.alt_forms => t.push(plain(m)),
                _ => t.push(plain(a.to_string())),
            },
            Field::Types(ts) => {
                let mut ts = ts.clone();
                if w.alt_forms {
                    r.shuffle(&mut ts);
                }
                for c in ts {
                    let m = BITMAP_TYPES.iter().find(|x| x.1 == c).map(|x| x.0).unwrap_or("A");
                    t.push(plain(m));
                }
            }
            Field::Params(ps) => {
                for p in ps {
                    t.push(plain(param_text(p, w.alt_forms, r)));
                }
            }
        }
    }
    t
}

fn sep(w: &RecWish, r: &mut Rng, feats: &mut BTreeSet<&'static str>) -> String {
    if w.tabs {
        match r.below(4) {
            0 => " ".into(),
            1 => {
                feats.insert("tabs");
                "\t\t".into()
            }
            2 => {
                feats.insert("tabs");
                " \t ".into()
            }
            _ => {
                feats.insert("tabs");
                "\t".into()
            }
        }
    } else {
        " ".repeat(r.urange(1, 3))
    }
}

fn mnemonic(s: &str, w: &RecWish, r: &mut Rng, feats: &mut BTreeSet<&'static str>) -> String {
    if !w.lc_mnemonic {
        return s.to_string();
    }
    let t: String = if r.bool() { s.to_ascii_lowercase() } else { s.chars().map(|c| if r.bool() { c.to_ascii_lowercase() } else { c }).collect() };
    if t != s {
        feats.insert("lc-mnemonic");
    }
    t
}

fn comment_text(c: &str, feats: &mut BTreeSet<&'static str>) -> String {
    if c.len() > 4000 {
        feats.insert("long-comment");
    }
    format!(";{c}")
}

pub fn print(origin0: &[Vec<u8>], recs: &[Rec], plan: &Plan) -> Printed {
    let nl = if plan.crlf { "\r\n" } else { "\n" };
    let mut feats: BTreeSet<&'static str> = BTreeSet::new();
    let mut st = St { origin: origin0.to_vec(), last_owner: None, last_class: None, last_ttl: None, default_ttl: None };
    let mut lines: Vec<String> = Vec::new();
    let mut denoted = Vec::new();
    if plan.crlf {
        feats.insert("crlf");
    }
    for item in &plan.items {
        match item {
            Item::BlankLine(ws) => {
                feats.insert("blank-line");
                lines.push(ws.clone());
            }
            Item::CommentLine(ws, c) => {
                feats.insert("comment-line");
                lines.push(format!("{ws}{}", comment_text(c, &mut feats)));
            }
            Item::Origin(o, c) => {
                feats.insert("origin-switch");
                let mut l = format!("$ORIGIN {}", show_name(o));
                if let Some(c) = c {
                    l.push(' ');
                    l.push_str(&comment_text(c, &mut feats));
                    feats.insert("comment");
                }
                lines.push(l);
                st.origin = o.clone();
            }
            Item::Ttl(t, c) => {
                feats.insert("ttl-directive");
                let mut l = format!("$TTL {t}");
                if let Some(c) = c {
                    l.push('\t');
                    l.push_str(&comment_text(c, &mut feats));
                    feats.insert("comment");
                }
                lines.push(l);
                st.default_ttl = Some(*t);
            }
            Item::Rec(idx, w) => {
                let rec = &recs[*idx];
                denoted.push(*idx);
                let mut r = Rng::new(w.seed);
                let mut line = String::new();
                // ---- owner
                let same_owner = st.last_owner.as_ref().map(|o| fold(o) == fold(&rec.owner)).unwrap_or(false);
                match w.owner {
                    OwnerForm::Blank if same_owner => {
                        feats.insert("blank-owner");
                    }
                    OwnerForm::Blank => {
                        let (s, used) = name_text(&rec.owner, &st.origin, NameForm::Rel, w.uc_names, &mut r, &mut feats);
                        feats.insert(if used == NameForm::Rel { "rel-owner" } else { "abs-owner" });
                        line.push_str(&s);
                    }
                    OwnerForm::Name(form) => {
                        let (s, used) = name_text(&rec.owner, &st.origin, form, w.uc_names, &mut r, &mut feats);
                        feats.insert(match used {
                            NameForm::Abs => "abs-owner",
                            NameForm::Rel => "rel-owner",
                            NameForm::At => "at-owner",
                        });
                        line.push_str(&s);
                    }
                }
                st.last_owner = Some(rec.owner.clone());
                // ---- ttl / class
                let inherited_ttl = st.default_ttl.or(st.last_ttl);
                let omit_ttl = w.omit_ttl && inherited_ttl == Some(rec.ttl);
                // before any class was stated only IN may be left out (universal practice; the
                // RFC leaves the initial default to the loader)
                let inherited_class = st.last_class.unwrap_or(CLASS_IN);
                let omit_class = w.omit_class && inherited_class == rec.class;
                let mut head: Vec<String> = Vec::new();
                let ttl_s = rec.ttl.to_string();
                let class_s = mnemonic(class_name(rec.class), w, &mut r, &mut feats);
                match (omit_ttl, omit_class) {
                    (false, false) => {
                        if w.class_first {
                            feats.insert("class-first");
                            head.push(class_s);
                            head.push(ttl_s);
                        } else {
                            feats.insert("ttl-first");
                            head.push(ttl_s);
                            head.push(class_s);
                        }
                    }
                    (true, false) => {
                        feats.insert("ttl-omitted");
                        head.push(class_s);
                    }
                    (false, true) => {
                        feats.insert("class-omitted");
                        head.push(ttl_s);
                    }
                    (true, true) => {
                        feats.insert("ttl-omitted");
                        feats.insert("class-omitted");
                    }
                }
                if !omit_ttl {
                    st.last_ttl = Some(rec.ttl);
                }
                if !omit_class {
                    st.last_class = Some(rec.class);
                }
                head.push(mnemonic(rec.tname, w, &mut r, &mut feats));
                // ---- rdata
                let toks = rdata_tokens(rec, w, &st.origin, &mut r, &mut feats);
                let any_quoted = toks.iter().any(|t| t.quoted);
                let cont = |r: &mut Rng, feats: &mut BTreeSet<&'static str>, comments: bool| -> String {
                    // a line break inside parentheses, optionally preceded by a comment
                    let mut s = String::new();
                    if comments && r.chance(1, 2) {
                        feats.insert("comment-in-paren");
                        s.push_str(" ; ");
                        s.push_str(*r.pick(&["serial", "a (nested) one", "x \" y", "", "; ;"]));
                    }
                    s.push_str(nl);
                    s.push_str(*r.pick(&["", " ", "\t", "        ", "\t\t  "]));
                    feats.insert("paren-multiline");
                    s
                };
                match &w.paren {
                    Paren::Early { multiline } => {
                        feats.insert("paren-early");
                        if any_quoted {
                            feats.insert("quoted-in-paren");
                        }
                        line.push_str(&sep(w, &mut r, &mut feats));
                        line.push('(');
                        for h in head.iter().cloned().chain(toks.iter().map(|t| t.text.clone())) {
                            if *multiline && r.chance(1, 3) {
                                line.push_str(&cont(&mut r, &mut feats, false));
                            } else {
                                line.push_str(&sep(w, &mut r, &mut feats));
                            }
                            line.push_str(&h);
                        }
                        line.push_str(" )");
                    }
                    p => {
                        for h in &head {
                            line.push_str(&sep(w, &mut r, &mut feats));
                            line.push_str(h);
                        }
                        let (open, close, multiline, comments) = match p {
                            Paren::Rdata { open, close, multiline, comments } if !toks.is_empty() => {
                                let o = (*open).min(toks.len() - 1);
                                let c = (*close).clamp(o + 1, toks.len());
                                (o, c, *multiline, *comments)
                            }
                            _ => (usize::MAX, usize::MAX, false, false),
                        };
                        for (i, t) in toks.iter().enumerate() {
                            if i == open {
                                feats.insert("paren");
                                line.push_str(&sep(w, &mut r, &mut feats));
                                line.push('(');
                                if multiline && r.chance(1, 3) {
                                    line.push_str(&cont(&mut r, &mut feats, comments));
                                } else if r.chance(2, 3) {
                                    line.push(' ');
                                }
                            } else if i > open && i < close && multiline && r.chance(1, 2) {
                                line.push_str(&cont(&mut r, &mut feats, comments));
                                if r.chance(1, 2) {
                                    line.push(' ');
                                }
                            } else {
                                line.push_str(&sep(w, &mut r, &mut feats));
                            }
                            if t.quoted && i >= open && i < close {
                                feats.insert("quoted-in-paren");
                            }
                            line.push_str(&t.text);
                            if i + 1 == close {
                                if multiline && r.chance(1, 3) {
                                    line.push_str(&cont(&mut r, &mut feats, comments));
                                } else if r.chance(2, 3) {
                                    line.push(' ');
                                }
                                line.push(')');
                            }
                        }
                    }
                }
                if let Some(c) = &w.comment {
                    feats.insert("comment");
                    if !w.glue_comment {
                        line.push_str(&sep(w, &mut r, &mut feats));
                    }
                    line.push_str(&comment_text(c, &mut feats));
                } else if r.chance(1, 8) {
                    // trailing blanks
                    line.push_str(&sep(w, &mut r, &mut feats));
                }
                lines.push(line);
            }
        }
    }
    let mut text = lines.join(nl);
    if plan.final_newline || lines.is_empty() {
        text.push_str(nl);
    } else if lines.last().map(|l| !l.is_empty()).unwrap_or(false) {
        feats.insert("no-final-newline");
    }
    Printed { text, features: feats, denoted, item_lines: lines, nl }
}

// ---------------------------------------------------------------------------------------------
// plan generation

const COMMENTS: &[&str] = &[
    " primary name server",
    "",
    " ; nested ; semicolons",
    " \"quoted\" (text) in a comment",
    " $ORIGIN not.a.directive.",
    " 3600 IN A 192.0.2.1",
    "no space after the semicolon",
    " trailing blanks   ",
    " back\\slash and @ and $TTL 5",
];

fn gen_comment(rng: &mut Rng, long: bool) -> String {
    if long {
        let mut s = String::from(" ");
        while s.len() < 4200 {
            s.push_str("lorem ipsum dolor sit amet, ");
        }
        return s;
    }
    let mut c = rng.pick(COMMENTS).to_string();
    if rng.chance(1, 10) {
        // a few hundred characters
        let n = rng.urange(100, 600);
        while c.len() < n {
            c.push_str(" consectetur adipiscing");
        }
    }
    c
}

#[derive(Clone, Copy, Debug, PartialEq)]
pub enum Risk {
    None,
    RdataAt,
    BareEsc,
    ParenEarly,
    LongComment,
    QuotedInParen,
    SvcbRel,
}

fn rec_needs_quotes(rec: &Rec) -> bool {
    rec.fields.iter().any(|f| matches!(f, Field::Str(s) | Field::Value(s) if !bare_ok(s)))
}

pub fn gen_plan(rng: &mut Rng, zone: &Zone, risk: Risk) -> Plan {
    let mut items: Vec<Item> = Vec::new();
    let n = zone.recs.len();
    // file-level style: how eager this file is for each feature (so that some files are plain,
    // some baroque)
    let eager = |rng: &mut Rng| *rng.pick(&[0u64, 1, 1, 2, 3, 5]);
    let e_rel = eager(rng) + 1;
    let e_omit = eager(rng) + 1;
    let e_paren = eager(rng);
    let e_comment = eager(rng);
    let e_blank = eager(rng);
    let e_origin = eager(rng);
    let e_tabs = eager(rng);
    let mut cur_origin = zone.origin.clone();
    if rng.chance(1, 2) {
        // $TTL up front with the TTL of some record
        let t = zone.recs[rng.usize_below(n)].ttl;
        items.push(Item::Ttl(t, if rng.chance(e_comment, 8) { Some(gen_comment(rng, false)) } else { None }));
    }
    let mut long_comment_left = risk == Risk::LongComment;
    for i in 0..n {
        let rec = &zone.recs[i];
        // directives / filler lines before the record
        if rng.chance(e_blank, 12) {
            items.push(Item::BlankLine(rng.pick(&["", "", " ", "\t", "   \t "]).to_string()));
        }
        if rng.chance(e_comment, 12) || (long_comment_left && rng.chance(1, 3)) {
            let long = long_comment_left && rng.chance(1, 2);
            if long {
                long_comment_left = false;
            }
            items.push(Item::CommentLine(rng.pick(&["", "", "  ", "\t"]).to_string(), gen_comment(rng, long)));
        }
        if rng.chance(e_origin, 14) {
            // switch to an origin that is useful for what follows (an ancestor of an upcoming
            // owner), or to one of the alternatives
            let o = if rng.chance(2, 3) {
                let target = &zone.recs[rng.urange(i, n - 1)].owner;
                let cut = rng.urange(0, target.len());
                target[cut..].to_vec()
            } else if rng.chance(1, 2) {
                zone.origin.clone()
            } else {
                rng.pick(&zone.alt_origins).clone()
            };
            if o.first().map(|l| l.as_slice() != b"*").unwrap_or(true) {
                cur_origin = o.clone();
                items.push(Item::Origin(o, if rng.chance(e_comment, 10) { Some(gen_comment(rng, false)) } else { None }));
            }
        }
        if rng.chance(1, 14) {
            let t = zone.recs[rng.urange(i, n - 1)].ttl;
            items.push(Item::Ttl(t, if rng.chance(e_comment, 10) { Some(gen_comment(rng, false)) } else { None }));
        }
        let _ = &cur_origin;
        let mut w = RecWish::plain();
        w.seed = rng.next_u64();
        w.owner = match rng.below(10) {
            0..=3 => OwnerForm::Blank,
            4 => OwnerForm::Name(NameForm::Abs),
            5 => OwnerForm::Name(NameForm::At),
            _ => {
                if rng.chance(e_rel, 6) {
                    OwnerForm::Name(NameForm::Rel)
                } else {
                    OwnerForm::Name(NameForm::Abs)
                }
            }
        };
        w.omit_ttl = rng.chance(e_omit, 7);
        w.omit_class = rng.chance(e_omit, 7);
        w.class_first = rng.chance(1, 3);
        w.lc_mnemonic = rng.chance(1, 8);
        w.uc_names = rng.chance(1, 6);
        w.rd_names = if rng.chance(e_rel, 7) { NameForm::Rel } else { NameForm::Abs };
        // SVCB/HTTPS targets are not resolved against the origin (confirmed defect): relative
        // targets only when the case asks for it
        if matches!(rec.tname, "SVCB" | "HTTPS") && risk != Risk::SvcbRel {
            w.rd_names = NameForm::Abs;
        }
        w.strings = if rng.chance(1, 2) { StrForm::Bare } else { StrForm::Quoted };
        w.hex_split = rng.chance(1, 3);
        w.hex_upper = rng.chance(1, 3);
        w.alt_forms = rng.chance(1, 3);
        w.tabs = rng.chance(e_tabs, 6);
        if rng.chance(e_comment, 10) {
            w.comment = Some(gen_comment(rng, false));
            w.glue_comment = rng.chance(1, 4);
        }
        if rng.chance(e_paren, 7) || (rec.tname == "SOA" && rng.chance(1, 2)) {
            let open = if rec.tname == "SOA" && rng.chance(2, 3) { 2 } else { rng.usize_below(3) };
            let close = if rng.chance(5, 6) { usize::MAX } else { open + 1 + rng.usize_below(3) };
            w.paren = Paren::Rdata { open, close, multiline: rng.chance(2, 3), comments: rng.chance(1, 2) };
            // quoted strings inside parentheses are a confirmed parser defect: unless this case
            // asks for it, print such records with bare strings or without parentheses
            if risk != Risk::QuotedInParen {
                if rec_needs_quotes(rec) {
                    w.paren = Paren::None;
                } else {
                    w.strings = StrForm::Bare;
                }
            }
        }
        items.push(Item::Rec(i, w));
    }
    // the risky wish goes to one or two records for which it means something
    let rec_items: Vec<usize> = items.iter().enumerate().filter(|(_, it)| matches!(it, Item::Rec(..))).map(|(i, _)| i).collect();
    let mut order = rec_items.clone();
    rng.shuffle(&mut order);
    let mut applied = 0;
    let mut inserts: Vec<(usize, Labels)> = Vec::new();
    for &ii in &order {
        if applied >= 2 {
            break;
        }
        let Item::Rec(ri, w) = &mut items[ii] else { continue };
        let rec = &zone.recs[*ri];
        match risk {
            Risk::RdataAt => {
                if let Some(Field::Name(l)) = rec.fields.iter().find(|f| matches!(f, Field::Name(_))) {
                    w.rd_names = NameForm::At;
                    if !matches!(rec.tname, "SVCB" | "HTTPS") || rng.bool() {
                        inserts.push((ii, l.clone()));
                    }
                    applied += 1;
                }
            }
            Risk::SvcbRel => {
                if matches!(rec.tname, "SVCB" | "HTTPS") {
                    if let Some(Field::Name(l)) = rec.fields.iter().find(|f| matches!(f, Field::Name(_))) {
                        if !l.is_empty() {
                            w.rd_names = NameForm::Rel;
                            inserts.push((ii, l[1..].to_vec()));
                        }
                    }
                }
            }
            Risk::BareEsc => {
                if rec.fields.iter().any(|f| matches!(f, Field::Str(s) | Field::Value(s) if bare_esc_ok(s))) {
                    w.strings = StrForm::BareEsc;
                    applied += 1;
                }
            }
            Risk::ParenEarly => {
                if !rec_needs_quotes(rec) {
                    w.strings = StrForm::Bare;
                    w.paren = Paren::Early { multiline: rng.bool() };
                    applied += 2;
                }
            }
            Risk::QuotedInParen => {
                if rec.fields.iter().any(|f| matches!(f, Field::Str(_) | Field::Value(_))) {
                    w.strings = StrForm::Quoted;
                    w.paren = Paren::Rdata { open: 0, close: usize::MAX, multiline: rng.bool(), comments: false };
                    applied += 1;
                }
            }
            Risk::LongComment => {
                if long_comment_left {
                    w.comment = Some(gen_comment(rng, true));
                    long_comment_left = false;
                    applied += 2;
                }
            }
            Risk::None => break,
        }
    }
    // make the risky name form applicable: switch the origin right before the record
    inserts.sort_by(|a, b| b.0.cmp(&a.0));
    for (ii, o) in inserts {
        items.insert(ii, Item::Origin(o, None));
    }
    // trailing filler
    if rng.chance(e_comment, 12) {
        items.push(Item::CommentLine(String::new(), gen_comment(rng, false)));
    }
    if rng.chance(e_blank, 12) {
        items.push(Item::BlankLine(rng.pick(&["", " ", "\t"]).to_string()));
    }
    Plan { items, crlf: rng.chance(1, 10), final_newline: !rng.chance(1, 4) }
}
