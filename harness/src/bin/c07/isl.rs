//! Observation mode (I): the *anchored signed island*. The configured trust anchor is the
//! keyset-signing key of a NON-root zone Z (`example.`, `isl.example.`, `corp.internal.`); the
//! upstream serves Z and what is delegated below it (signed children with DS, unsigned children,
//! signed children without DS, children whose DS names only an unsupported algorithm / digest, a
//! grandchild now and then) and nothing else: names outside Z get REFUSED, and `Z DS` is answered
//! from the CHILD side of the (non-existent) cut, the only side this upstream has: NODATA, SOA plus
//! Z's apex NSEC (or the NSEC3 matching Z) with the bits NS SOA DNSKEY RRSIG ..., validly signed by Z
//! (RFC 4035 section 3.1.4.1: a server that holds only the child zone answers a DS query with an
//! authoritative "no data" from the child). RFC 6840 section 4.4: that record proves nothing about the
//! delegation; a validator that asks "is Z an insecure delegation?" after signatures went missing must
//! not take it for the proof of "no DS".
//!
//! Same validator entry point (`DnssecDnsHandle::send`, fresh validator per fault), same hierarchy
//! machinery (`hier.rs`: `zones[0]` is Z instead of the root, `Truth::anchor` is Z's key), same honest
//! upstream emulation (`world.rs`), same tamper layer and fault menu (`fault.rs`, `local_faults` /
//! `chain_faults` of main.rs), same oracle clauses (`oracle.rs`: Secure only for genuine, complete
//! RRsets of Z or of children with an unbroken DS -> DNSKEY chain from Z; Insecure only for children
//! that truly have no (supported) DS; provenance). Rule ids carry the prefix `isl-`, counters `isl/`.
//! Witnesses carry `"mode": "isl"`.
#![allow(dead_code)]

use hickory_proto::dnssec::Proof;
use serde_json::{json, Value};

use vh::mon::Reporter;
use vh::prng::{fnv64, Rng};

use crate::chain::Nsec3Params;
use crate::fault::Fault;
use crate::hier::{self, Hier, Status, Truth, ZoneSpec, LINK_MODES};
use crate::oracle::{self, Case, OutKind};
use crate::refsign;
use crate::refzone::{self, child, name, show, ty, Name};
use crate::upstream::Exchange;
use crate::world::Rec;
use crate::{Bench, Lab, QueryCase, Step, StepResult};

pub const ANCHOR_NAMES: &[&str] = &["example.", "isl.example.", "corp.internal."];

// ---------------------------------------------------------------------------------------------
// worlds

/// One island: `zones[0]` is the anchored zone Z (mode "anchor"), then 0-2 children and sometimes a
/// grandchild. `idx` rotates the apex name, the child count and the link mode of the first child.
pub fn gen_island(rng: &mut Rng, idx: u64, attacker_tags: &[u16]) -> Hier {
    hier::reset_key_pool();
    let now = 1_700_000_000u32;
    let z_apex = name(ANCHOR_NAMES[(idx as usize) % ANCHOR_NAMES.len()]);
    let n_child = match idx % 4 {
        3 => 0, // the bare island of the repository's own fixtures
        _ => rng.urange(1, 2),
    };
    let labels: [&[u8]; 2] = [b"ca", b"cb"];
    let mut apexes: Vec<Name> = vec![z_apex.clone()];
    let mut parents: Vec<Option<usize>> = vec![None];
    let mut modes: Vec<String> = vec!["anchor".into()];
    for (l, label) in labels.iter().enumerate().take(n_child) {
        apexes.push(child(label, &z_apex));
        parents.push(Some(0));
        modes.push(if l == 0 { LINK_MODES[((idx / 4) as usize) % LINK_MODES.len()].to_string() } else { (*rng.pick(LINK_MODES)).to_string() });
    }
    if n_child > 0 && rng.chance(1, 3) {
        apexes.push(child(b"g", &apexes[1]));
        parents.push(Some(1));
        modes.push((*rng.pick(LINK_MODES)).to_string());
    }
    let n = apexes.len();
    // below a parent that is not itself securely delegated only unsigned zones / islands (see gen_hier)
    for i in 1..n {
        let p = parents[i].unwrap();
        let parent_secure = matches!(modes[p].as_str(), "anchor" | "ds-good" | "ds-mixed" | "ds-standby");
        if !parent_secure && !matches!(modes[i].as_str(), "no-ds" | "island") {
            modes[i] = if rng.bool() { "no-ds".into() } else { "island".into() };
        }
    }
    let mut zones: Vec<ZoneSpec> = Vec::new();
    for i in 0..n {
        let others: Vec<Name> = apexes.iter().enumerate().filter(|(j, _)| *j != i).map(|(_, a)| a.clone()).collect();
        let zone = hier::zone_content(rng, &apexes[i], &others);
        let mode = modes[i].clone();
        let signed = mode != "no-ds";
        let keys = if !signed {
            Vec::new()
        } else if i == 0 && rng.chance(3, 4) {
            // One combined signing key, the anchor: the key set consists of trust anchors only. The
            // majority, because hickory validates nothing below a non-root anchor whose DNSKEY RRset holds
            // further keys (verify_dnskey_rrset then wants the DS RRset of the anchored zone, whose
            // child-side denial needs the DNSKEY RRset again, and so on until the depth limit: Bogus).
            // That is stricter, not unsound (counted as isl/info_honest_rejected_not_judged); the KSK +
            // ZSK worlds stay in as the minority so that a change of that behaviour becomes visible.
            let alg = if rng.chance(2, 3) { 15 } else { 13 };
            vec![hier::gen_keyspec(rng, alg, 257, true, true)]
        } else {
            hier::gen_zone_keys(rng, mode == "ds-unsupported-alg")
        };
        let nsec3 = if signed && rng.chance(1, 2) {
            let salt_len = *rng.pick(&[0usize, 1, 8]);
            Some(Nsec3Params { salt: rng.bytes(salt_len), iterations: *rng.pick(&[0u16, 1, 5]), opt_out: rng.chance(1, 2) })
        } else {
            None
        };
        zones.push(ZoneSpec { zone, keys, nsec3, signed, mode });
    }
    // some Ed25519 KSKs share their key tag with a key the attacker holds (see gen_hier)
    if !attacker_tags.is_empty() {
        for z in zones.iter_mut() {
            if !z.signed || !rng.chance(1, 3) {
                continue;
            }
            if let Some(k) = z.keys.iter_mut().find(|k| k.signs_keyset && k.alg == 15) {
                for _ in 0..20_000 {
                    let seed = rng.bytes(32);
                    let tag = refsign::key_tag(&refsign::dnskey_rdata(k.flags, 15, &hier::ed25519_public(&seed)));
                    if attacker_tags.contains(&tag) {
                        k.material = seed;
                        z.mode = format!("{}+tagmatch", z.mode);
                        break;
                    }
                }
            }
        }
    }
    for i in 1..n {
        let p = parents[i].unwrap();
        let apex = apexes[i].clone();
        let base_mode = zones[i].mode.split('+').next().unwrap().to_string();
        let ds = hier::delegation_ds(rng, &apex, &base_mode, &zones[i].keys);
        zones[p].zone.add(&apex, ty::NS, refzone::rd_name(&child(b"ns1", &apex)));
        for d in ds {
            zones[p].zone.add(&apex, ty::DS, d);
        }
    }
    Hier { zones, now, inception: now - 86_400, expiration: now + 14 * 86_400, probes_do: rng.chance(3, 4) }
}

/// The queries of one island: a positive answer of Z and Z's own DS first (the two the mode exists
/// for), then the usual candidates of every zone, (label, zone) combinations not taken yet first.
fn pick_queries(rng: &mut Rng, t: &Truth, n: usize) -> Vec<QueryCase> {
    let z = t.anchor_apex().clone();
    let mut out = vec![QueryCase { qname: child(b"www", &z), qtype: ty::A, label: "host-a" }, QueryCase { qname: z.clone(), qtype: ty::DS, label: "anchor-ds" }];
    let mut c = crate::candidate_queries(t);
    rng.shuffle(&mut c);
    let mut seen: Vec<(&'static str, usize)> = vec![("host-a", 0)];
    for pass in 0..2 {
        for q in &c {
            if out.len() >= n {
                break;
            }
            if out.iter().any(|o| o.qname == q.qname && o.qtype == q.qtype) {
                continue;
            }
            let k = (q.label, t.responsible(&q.qname, q.qtype));
            if pass == 0 && seen.contains(&k) {
                continue;
            }
            seen.push(k);
            out.push(q.clone());
        }
    }
    out.truncate(n.max(2));
    out
}

// ---------------------------------------------------------------------------------------------
// judging

pub struct IJudge<'a> {
    pub rep: &'a mut Reporter,
    pub lab: &'a Lab,
    pub hier_json: Value,
    pub hier_hash: u64,
}

fn kind_base(kind: &str) -> &str {
    kind.split(':').next().unwrap_or("")
}

fn alarms_of(b: &Bench, steps: &[Step], si: usize, res: &StepResult) -> Vec<oracle::Alarm> {
    let honest = steps[..=si].iter().all(|s| s.faults.is_empty());
    let c = Case { truth: b.truth(), world: &b.world, qname: &steps[si].qname, qtype: steps[si].qtype, obs: &res.obs, log: &res.log, fresh: steps.len() == 1, honest };
    oracle::judge(&c)
}

fn rejected(outcome: &str) -> bool {
    matches!(outcome, "err" | "err-nsec" | "ok-with-bogus")
}

impl IJudge<'_> {
    fn reproduces(&self, b: &Bench, steps: &[Step], rule: &str, detail: &str) -> bool {
        let rs = crate::run_steps(self.lab, b, steps);
        let li = steps.len() - 1;
        alarms_of(b, steps, li, &rs[li]).iter().any(|a| a.rule == rule && a.detail == detail)
    }

    /// smallest history / fault set / primitive set that still shows (rule, detail) at its last step
    fn minimize(&mut self, b: &Bench, steps: &[Step], rule: &str, detail: &str) -> Vec<Step> {
        let mut cur: Vec<Step> = steps.to_vec();
        if cur.len() > 1 {
            let single = vec![cur.last().unwrap().clone()];
            if self.reproduces(b, &single, rule, detail) {
                cur = single;
            } else {
                let mut i = 0;
                while cur.len() > 2 && i + 1 < cur.len() {
                    let mut t = cur.clone();
                    t.remove(i);
                    if self.reproduces(b, &t, rule, detail) {
                        cur = t;
                    } else {
                        i += 1;
                    }
                }
            }
        }
        let li = cur.len() - 1;
        if cur[li].faults.len() > 1 {
            for f in cur[li].faults.clone() {
                let mut t = cur.clone();
                t[li].faults = vec![f];
                if self.reproduces(b, &t, rule, detail) {
                    cur = t;
                    break;
                }
            }
        }
        for fi in 0..cur[li].faults.len() {
            let mut pi = 0;
            while cur[li].faults[fi].prims.len() > 1 && pi < cur[li].faults[fi].prims.len() {
                let mut t = cur.clone();
                t[li].faults[fi].prims.remove(pi);
                if self.reproduces(b, &t, rule, detail) {
                    cur = t;
                } else {
                    pi += 1;
                }
            }
        }
        self.rep.count("isl/violations_minimized");
        cur
    }

    pub fn judge(&mut self, b: &Bench, steps: &[Step], results: &[StepResult], workload: &str) {
        let t = b.truth();
        let z_apex = t.anchor_apex().clone();
        let fresh = steps.len() == 1;
        let mut earlier_alarm = false;
        for (si, (st, res)) in steps.iter().zip(results.iter()).enumerate() {
            let honest = steps[..=si].iter().all(|s| s.faults.is_empty());
            let alarms = alarms_of(b, steps, si, res);
            let real: Vec<&oracle::Alarm> = alarms.iter().filter(|a| a.rule != "honest-rejected").collect();
            if workload == "replay" && si + 1 < steps.len() {
                continue; // a witness is about its last step
            }
            self.rep.eval();
            self.rep.count("isl/runs");
            let outcome = crate::outcome_label(&res.obs);
            let tampered = !st.faults.is_empty();
            self.rep.count(&format!("isl/outcome/{}/{}", if tampered { "tampered" } else if honest { "honest" } else { "honest-after-tampering" }, outcome));
            self.rep.max("isl/max_upstream_exchanges_per_query", res.log.len() as f64);
            if res.budget_exceeded {
                self.rep.count("isl/info_upstream_exchange_budget_exceeded_not_judged");
            }
            if crate::distinct_exchanges(&res.log).len() >= 3 {
                let h = fnv64(format!("isl|{}|{}", self.hier_hash, serde_json::to_string(&steps[..=si].iter().map(|s| s.to_json()).collect::<Vec<_>>()).unwrap()).as_bytes());
                self.rep.nontrivial(h);
            }
            // did the validator go and ask whether the anchored zone itself is an insecure delegation?
            let asked_anchor_ds = res.log.iter().skip(1).any(|e| e.qtype == ty::DS && e.qname == z_apex && e.presented == e.honest);
            if tampered {
                self.rep.count("isl/tampered_runs");
                for f in &st.faults {
                    self.rep.count(&format!("isl/tampered_runs/{}", kind_base(&f.kind)));
                    self.rep.count(&format!("isl/fault/{}/{}", kind_base(&f.kind), f.link));
                }
                if rejected(outcome) {
                    self.rep.count("isl/tampered_rejected");
                }
                if asked_anchor_ds {
                    self.rep.count("isl/tampered_runs_with_child_side_ds_lookup");
                    if rejected(outcome) {
                        self.rep.count("isl/tampered_rejected_after_child_side_ds_lookup");
                    }
                }
                if !fresh {
                    self.rep.count("isl/history_tampered_steps");
                }
            } else if !honest {
                self.rep.count("isl/history_honest_after_tampered");
                if rejected(outcome) {
                    self.rep.count("isl/info_honest_after_tampered_rejected_not_judged");
                }
            }
            for a in &alarms {
                self.rep.count(&format!("isl/alarms_raw/{}", a.rule));
                if a.rule == "honest-rejected" {
                    // stricter, never unsound: counted, not judged (see main.rs)
                    self.rep.count(&format!("isl/info_honest_rejected_not_judged/{}", a.detail));
                    self.rep.count(if t.zones[0].keys.iter().filter(|k| k.spec.publish).count() == 1 { "isl/info_honest_rejected_not_judged/in-worlds-whose-keyset-is-the-anchor-only" } else { "isl/info_honest_rejected_not_judged/in-worlds-whose-keyset-has-more-than-the-anchor" });
                }
            }
            if si > 0 && earlier_alarm && !real.is_empty() {
                // the tampering of an earlier step was accepted there (and reported there)
                self.rep.count("isl/info_alarm_after_accepted_tampering_not_reported");
                continue;
            }
            earlier_alarm |= !real.is_empty();
            for a in &real {
                let needs_min = si > 0 || st.faults.len() > 1 || st.faults.iter().any(|f| f.prims.len() > 1);
                let min_steps = if needs_min { self.minimize(b, &steps[..=si], a.rule, &a.detail) } else { steps[..=si].to_vec() };
                let last = min_steps.last().unwrap();
                // same scheme as the main part
                let sig = if a.rule == "validator-panic" {
                    a.detail.split_whitespace().collect::<Vec<_>>().join(" ")
                } else if last.faults.is_empty() && min_steps.len() == 1 {
                    let zi = t.responsible(&last.qname, last.qtype);
                    let z = &t.zones[zi];
                    format!("{}|honest|{}|{}", a.detail, b.world.honest(&last.qname, last.qtype, true).kind, if !z.spec.signed { "unsigned" } else if z.spec.nsec3.is_some() { "nsec3" } else { "nsec" })
                } else if min_steps.len() > 1 {
                    format!("{}|via-history:{}|{}", a.detail, crate::fault_kinds(min_steps.iter().flat_map(|s| s.faults.iter().map(|f| f.kind.as_str()))), if last.faults.is_empty() { "honest-step-after-tampering" } else { "tampered-step" })
                } else if last.faults.len() > 1 {
                    format!("{}|multi-fault:{}", a.detail, crate::fault_kinds(last.faults.iter().map(|f| f.kind.as_str())))
                } else if (a.rule == "secure-despite-broken-link" && matches!(a.detail.as_str(), "dnskey" | "own-rrsig:dnskey")) || (a.rule == "secure-rrset-incomplete" && a.detail == "dnskey") {
                    format!("{}|{}", a.detail, last.faults[0].link)
                } else if a.rule == "secure-despite-broken-link" {
                    format!("{}|{}|{}", a.detail, kind_base(&last.faults[0].kind), last.faults[0].link)
                } else {
                    format!("{}|{}|{}", a.detail, last.faults[0].kind, last.faults[0].link)
                };
                let (obs_json, ex_json) = {
                    let rs = crate::run_steps(self.lab, b, &min_steps);
                    let r = rs.last().unwrap();
                    (r.obs.to_json(), r.log.iter().map(|e| format!("{} {}{}", show(&e.qname), refzone::type_name(e.qtype), if e.presented != e.honest { " (tampered)" } else { "" })).collect::<Vec<_>>())
                };
                let case = json!({"mode": "isl", "hier": self.hier_json, "steps": min_steps.iter().map(|s| s.to_json()).collect::<Vec<_>>(), "workload": workload, "trust_anchor": format!("keyset-signing key of {}", show(&z_apex))});
                self.rep.violation(&format!("isl-{}", a.rule), &sig, case, a.expected.clone(), json!({"alarm": a.observed, "outcome": obs_json, "upstream_exchanges": ex_json}));
            }
        }
    }
}

// ---------------------------------------------------------------------------------------------
// workload

pub struct IParams {
    pub n_queries: usize,
    pub cap_single: usize,
    pub n_hist: usize,
}

fn denial_flavour(z: &hier::BZone) -> &'static str {
    match &z.spec.nsec3 {
        None => "nsec",
        Some(p) if p.opt_out => "nsec3-optout",
        Some(_) => "nsec3",
    }
}

pub fn workload(rep: &mut Reporter, lab: &Lab, h: &Hier, attacker_tags: &[u16], p: &IParams, sample: bool) {
    let b = Bench::new(h);
    let t = b.truth();
    let hj = h.to_json();
    let hier_hash = fnv64(hj.to_string().as_bytes());
    let mut j = IJudge { rep, lab, hier_json: hj, hier_hash };
    j.rep.count("isl/worlds");
    j.rep.count(&format!("isl/worlds/{}", denial_flavour(&t.zones[0])));
    j.rep.count(&format!("isl/worlds/anchor-apex-labels/{}", t.anchor_apex().len()));
    j.rep.count(if t.zones[0].keys.iter().filter(|k| k.spec.publish).count() == 1 { "isl/worlds/keyset-is-the-anchor-only" } else { "isl/worlds/keyset-has-more-than-the-anchor" });
    for (zi, z) in t.zones.iter().enumerate() {
        j.rep.count(&format!("isl/zones/{}/{}", t.class_of(zi), z.status.as_str()));
        // the generator's intention and the independently computed ground truth must agree
        let intended_here = match z.spec.mode.split('+').next().unwrap_or("") {
            "anchor" | "ds-good" | "ds-mixed" | "ds-standby" => Some(Status::Secure),
            "no-ds" | "island" | "ds-unsupported-alg" | "ds-unsupported-digest" => Some(Status::Insecure),
            "ds-stale" => Some(Status::Bogus),
            _ => None,
        };
        let parent_status = z.parent.map(|p| t.zones[p].status).unwrap_or(Status::Secure);
        let intended = if parent_status == Status::Secure { intended_here } else { Some(parent_status) };
        if intended != Some(z.status) {
            j.rep.inconclusive(&format!("harness self-check (island): ground truth of zone class {} is {} but the generator intended {:?}", z.spec.mode, z.status.as_str(), intended));
        }
    }
    if sample {
        let zs: Vec<String> = t.zones.iter().enumerate().map(|(i, z)| format!("{} [{} => {}]", show(&z.apex), t.class_of(i), z.status.as_str())).collect();
        let anchor = show(t.anchor_apex());
        j.rep.sample(|| json!({"workload": "anchored-island", "trust_anchor_zone": anchor, "zones": zs}));
    }

    // ---- honest pass + recording ----------------------------------------------------------------
    let mut rng = Rng::new(hier_hash ^ fnv64(b"isl/queries"));
    let queries = pick_queries(&mut rng, t, p.n_queries);
    let mut recorded: Vec<(QueryCase, Vec<Exchange>)> = Vec::new();
    let mut pool: Vec<Rec> = Vec::new();
    let mut tops: Vec<Exchange> = Vec::new();
    for q in &queries {
        let steps = vec![Step { qname: q.qname.clone(), qtype: q.qtype, faults: vec![] }];
        let results = crate::run_steps(lab, &b, &steps);
        j.judge(&b, &steps, &results, "isl-honest");
        let res = &results[0];
        if std::env::var("C07_IDUMP").is_ok() {
            eprintln!("IDUMP {} {} keys={} -> {}\n   log: {:?}", show(&q.qname), q.qtype, t.zones[0].keys.len(), res.obs.to_json(), res.log.iter().map(|e| format!("{} {} rc={} n={}", show(&e.qname), e.qtype, e.presented.rcode, e.presented.recs.len())).collect::<Vec<_>>());
        }
        j.rep.count("isl/honest_queries");
        j.rep.count(&format!("isl/honest_query/{}", q.label));
        let ok = matches!(res.obs.kind, OutKind::Ok);
        let mut as_expected = ok && !res.obs.recs.is_empty();
        let mut any_secure = false;
        let mut any_insecure = false;
        for (r, pf) in res.obs.recs.iter().filter(|(r, _)| r.rtype != ty::RRSIG) {
            let zs = t.zones_of_record(&r.owner, r.rtype);
            let good = match pf {
                Proof::Secure => zs.iter().any(|z| t.zones[*z].status == Status::Secure),
                Proof::Insecure => zs.iter().any(|z| t.zones[*z].status == Status::Insecure),
                _ => false,
            };
            as_expected &= good;
            if good && *pf == Proof::Secure {
                any_secure = true;
                if zs[0] != 0 {
                    j.rep.count("isl/honest_secure_records_below_the_anchor_zone");
                }
            }
            if good && *pf == Proof::Insecure {
                any_insecure = true;
                // the secure ancestor whose denial proves the insecurity
                let mut zc = zs[0];
                while let Some(pz) = t.zones[zc].parent {
                    if t.zones[pz].status == Status::Secure {
                        j.rep.count(&format!("isl/honest_insecure_proven_by_{}_parent", denial_flavour(&t.zones[pz])));
                        break;
                    }
                    zc = pz;
                }
            }
        }
        if as_expected && any_secure {
            j.rep.count("isl/honest_secure");
            j.rep.count(&format!("isl/honest_secure/{}", denial_flavour(&t.zones[0])));
        }
        if as_expected && any_insecure {
            j.rep.count("isl/honest_insecure");
        }
        if q.label == "anchor-ds" {
            // Z DS asked directly: the child-side denial is a correct, validly signed NODATA answer
            let secure_denial = ok && res.obs.recs.iter().any(|(r, pf)| r.is_denial() && r.rtype != ty::RRSIG && *pf == Proof::Secure);
            if secure_denial {
                j.rep.count("isl/child_side_ds_denial_validated");
                j.rep.count(&format!("isl/child_side_ds_denial_validated/{}", denial_flavour(&t.zones[0])));
            }
        }
        let ex = crate::distinct_exchanges(&res.log);
        if ex.is_empty() {
            continue;
        }
        for e in &ex {
            for r in &e.honest.recs {
                if !pool.contains(r) {
                    pool.push(r.clone());
                }
            }
            if !tops.iter().any(|x| x.qname == e.qname && x.qtype == e.qtype) {
                tops.push(e.clone());
            }
        }
        recorded.push((q.clone(), ex));
    }

    // ---- single faults on a fresh validator each, short histories on a shared one -----------------
    for (qi, (q, ex)) in recorded.iter().enumerate() {
        let stage = |label: &str, k: u64| Rng::new(hier_hash ^ fnv64(format!("isl/{qi}/{label}/{k}").as_bytes()));
        let mut rng = stage("single", 0);
        let mut all: Vec<Fault> = crate::local_faults(&mut rng, ex, true, &pool, &tops, false);
        all.extend(crate::chain_faults(&mut rng, &b, q, ex, attacker_tags));
        // "Forged answer signed by the real keys of ANOTHER zone": when the answer (a cross-zone CNAME
        // chain) holds an RRset of the signing zone itself, that part is the zone's operator forging his
        // own data under his own valid signature, which no validator can or should notice. Left out.
        all.retain(|f| {
            if !f.kind.starts_with("cross-zone-signature") {
                return true;
            }
            let Some(signer) = f.prims.first().and_then(|p| p.recs.first()).map(|r| refzone::fold(&r.owner)) else { return true };
            !ex[0].honest.recs.iter().any(|r| r.sec == crate::world::SEC_AN && t.zones[t.zone_of_name(&r.owner)].apex == signer)
        });
        j.rep.add("isl/single_faults_enumerated", all.len() as u64);
        let chosen = crate::sample_faults(&mut rng, all.clone(), p.cap_single);
        for f in &chosen {
            let steps = vec![Step { qname: q.qname.clone(), qtype: q.qtype, faults: vec![f.clone()] }];
            let results = crate::run_steps(lab, &b, &steps);
            j.judge(&b, &steps, &results, "isl-single-fault");
        }
        for hn in 0..p.n_hist {
            let mut rng = stage("history", hn as u64);
            let f = rng.pick(&all).clone();
            let honest = Step { qname: q.qname.clone(), qtype: q.qtype, faults: vec![] };
            let tampered = Step { qname: q.qname.clone(), qtype: q.qtype, faults: vec![f] };
            let steps = if hn % 2 == 0 { vec![tampered, honest] } else { vec![honest.clone(), tampered, honest] };
            let results = crate::run_steps(lab, &b, &steps);
            j.judge(&b, &steps, &results, "isl-history");
        }
    }
}

pub fn replay(rep: &mut Reporter, lab: &Lab, h: &Hier, c: &Value) {
    let steps: Vec<Step> = c["steps"].as_array().map(|a| a.iter().filter_map(Step::from_json).collect()).unwrap_or_default();
    if steps.is_empty() {
        eprintln!("bad replay case: no steps");
        return;
    }
    let b = Bench::new(h);
    let hj = h.to_json();
    let mut j = IJudge { rep, lab, hier_hash: fnv64(hj.to_string().as_bytes()), hier_json: hj };
    let results = crate::run_steps(lab, &b, &steps);
    j.judge(&b, &steps, &results, "replay");
}
