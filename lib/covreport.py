#!/usr/bin/env python3
"""Maintainer tool: which functions of each property's anchor files does that property's check never execute?

Prerequisite: harness built with -Cinstrument-coverage into /verif/target-cov and every binary run once with
LLVM_PROFILE_FILE=/verif/run/cov/cNN/%p.profraw (see DESIGN.md §11.6). Prints, per property, the anchor files with
their region/function coverage under that property's own binary, and the uncovered functions."""
import json, os, subprocess, sys, glob, re
LT = "/root/.rustup/toolchains/nightly-x86_64-unknown-linux-gnu/lib/rustlib/x86_64-unknown-linux-gnu/bin"
V = "/verif"
props = [json.loads(l) for l in open(os.path.join(V, "properties.jsonl"))]
only = sys.argv[1:]
for p in props:
    pid = p["id"]
    if only and pid not in only:
        continue
    n = pid[1:]
    d = os.path.join(V, "run", "cov", "c" + n)
    raws = glob.glob(os.path.join(d, "*.profraw"))
    if not raws:
        print(pid, "no profile"); continue
    prof = os.path.join(d, "m.profdata")
    subprocess.run([LT + "/llvm-profdata", "merge", "-sparse", "-o", prof] + raws, check=True)
    anchors = []
    for a in p["anchors"]["files"]:
        ap = os.path.join("/repo", a)
        if os.path.isdir(ap):
            anchors += sorted(glob.glob(os.path.join(ap, "**", "*.rs"), recursive=True))
        elif os.path.exists(ap):
            anchors.append(ap)
    anchors = [a for a in anchors if "/tests/" not in a]
    r = subprocess.run([LT + "/llvm-cov", "export", "-format=text", "-instr-profile", prof, os.path.join(V, "target-cov", "debug", "c" + n)] + anchors,
                       stdout=subprocess.PIPE, stderr=subprocess.DEVNULL, text=True)
    try:
        data = json.loads(r.stdout)["data"][0]
    except Exception as e:
        print(pid, "llvm-cov failed", e); continue
    print("=====", pid)
    for f in data["files"]:
        s = f["summary"]
        print("  %-62s lines %5.1f%%  functions %3d/%3d" % (f["filename"].replace("/repo/crates/", ""), s["lines"]["percent"], s["functions"]["covered"], s["functions"]["count"]))
    unc = {}
    for fn in data["functions"]:
        if fn["count"] == 0 and any(fn["filenames"][0] == a for a in anchors):
            name = fn["name"]
            try:
                name = subprocess.run(["rustfilt"], input=name, stdout=subprocess.PIPE, text=True).stdout.strip() or name
            except FileNotFoundError:
                pass
            unc.setdefault(fn["filenames"][0].replace("/repo/crates/", ""), set()).add(re.sub(r"::h[0-9a-f]{16}$", "", name)[:110])
    for f, names in sorted(unc.items()):
        names = sorted(n for n in names if "test" not in n.lower() and "fmt" not in n and "serde" not in n.lower())
        if names:
            print("   UNCOVERED in %s (%d): %s" % (f, len(names), "; ".join(names[:40])))
