//! C02 — encode/decode round trip preserves every message.
//!
//! Oracle clauses (DESIGN §7 C02):
//!  (A) for a valid `Message` value m:  decode(encode(m)) == m on an explicit projection
//!  (B) for accepted bytes b:           decode(encode(decode(b))) == decode(b)
//!  (C) RDATA of types whose names are not compressible is byte-for-byte identical between b and
//!      encode(decode(b)); RDATA of the RFC 1035 well-known types is identical after decompression
//!  (D) encode(m) is a well-formed message for the independent walker `refwire` (counts, RDLENGTH,
//!      nothing left over, every pointer targets an earlier label start, no pointer inside RDATA of
//!      non-well-known types, OPT before TSIG, TSIG last)
//!  (E) a message that fits in 65 535 octets encodes: `Err` from `to_vec()` is a violation in every
//!      clause (`A-encode-failed`, `B-reencode-failed`, `S-encode-failed`)
//!  (S) struct-level workload (sgen.rs / sbuild.rs / sjudge.rs): messages ASSEMBLED through the
//!      public constructors from plain field values — no decoder between the generator and the
//!      value that is judged — with (i) must-encode, (D), (iii) must-decode + equality, (iv) RDATA
//!      and header octets equal to what the harness' own writer produces from the same field
//!      values, (v) the harness' own packet decodes to the same value (decoder-side oracle)
//!
//! The projection compares: id, QR, opcode, AA, TC, RD, RA, AD, CD, rcode (numeric, 12 bit);
//! questions (name bytes case-sensitive, type, class); per record owner (`Name::eq_case` *and* raw
//! label bytes), fqdn flag, type, class, TTL, `RData ==` *and* equal `Debug` rendering; EDNS
//! (version, DO, Z flags, max payload, option list incl. order); TSIG record (owner, class, ttl,
//! rdata).  `Record: PartialEq` ignores TTL and `Name: PartialEq` ignores case, hence the explicit
//! comparison.
//!
//! By-design behaviour that is NOT judged (don't-cares):
//!  * whole-packet byte equality (compression choices differ between encoders);
//!  * messages the encoder rejects are JUDGED (clause E: `A-encode-failed` / `B-reencode-failed` /
//!    `S-encode-failed`) unless the message legitimately cannot be encoded, which for the values
//!    this check produces means exactly one thing: its uncompressed size (the harness' own estimate,
//!    `size.rs`, an upper bound of what a compressing encoder needs) exceeds 65 535 octets — counted
//!    as `encoder_rejected/oversize/*`. Nothing else the generators produce is documented by
//!    hickory as unencodable: labels are ≤ 63 and names ≤ 255 octets, character-strings ≤ 255, CAA
//!    tags ≤ 15 octets, SvcParamKeys strictly ascending with non-empty mandatory / alpn lists, TSIG
//!    time < 2^48 and MAC / other-data ≤ 65 535, ECS prefixes ≤ the family's width, NSEC3 salt / hash
//!    ≤ 255 (all either enforced by the decoder the value came from or by the generator);
//!  * generated / mutated bytes the decoder rejects: counted, not judged (that is C01's business);
//!  * extended rcode (> 15) on a message without EDNS: hickory warns and drops the high bits; the
//!    comparison is then on the low 4 bits only and the case is counted (`ext_rcode_without_edns`);
//!  * `Edns::rcode_high` itself (derived: the encoder overwrites it from the header rcode; the
//!    decoder merges it back) — the merged 12-bit rcode is compared instead;
//!  * OPT / TSIG are lifted out of `additionals` into `edns` / `signature` on decode and re-emitted
//!    after the other additional records (OPT, then TSIG); header counts are recomputed. The wire
//!    level comparison (C) pairs records accordingly;
//!  * OPT RDATA is excluded from clause (C): OPT is hop-by-hop and re-built from the `Edns` value
//!    (upstream's own `preserve_rdata` fuzz target makes the same exclusion); OPT class < 512 is
//!    read as 512 (RFC 6891 §6.2.3) — so OPT class / ttl / owner are not compared at wire level,
//!    the Edns projection is;
//!  * clause (C) raw-byte comparison is skipped for a record of a non-well-known type whose
//!    *input* RDATA name already uses a compression pointer (malformed per RFC 3597 §4; hickory
//!    decompresses it) — the decompressed forms are still compared;
//!  * `Record::proof`, `Message` Z header bit (not representable), mDNS bits (feature off).

#[path = "wire.rs"]
mod wire;
mod sbuild;
mod sgen;
mod size;
mod sjudge;

use std::net::{IpAddr, Ipv4Addr, Ipv6Addr};

use hickory_proto::dnssec::{Algorithm, SupportedAlgorithms};
use hickory_proto::op::{Edns, Message, MessageType, OpCode, Query, ResponseCode};
use hickory_proto::rr::rdata::opt::{ClientSubnet, EdnsOption, NSIDPayload};
use hickory_proto::rr::rdata::TSIG;
use hickory_proto::rr::{DNSClass, Name, RData, Record, RecordData, RecordType};
use serde_json::{json, Value};

use vh::gen::{self, MsgOpts, WireBuilder};
use vh::hk;
use vh::mon::{self, hex, unhex, Ctx, Reporter};
use vh::prng::{fnv64, Rng};
use vh::refwire::{self, WHeader, WMessage, WRecord};

// ---------------------------------------------------------------------------------------------
// projection comparison

struct Diff {
    /// structural path without indices, e.g. `answers[].rdata.SVCB`
    path: String,
    detail: String,
    expected: String,
    observed: String,
}

fn name_bytes(n: &Name) -> Vec<Vec<u8>> {
    hk::labels_of(n)
}

fn cmp_name(path: &str, idx: usize, a: &Name, b: &Name) -> Option<Diff> {
    if !a.eq_case(b) || name_bytes(a) != name_bytes(b) {
        return Some(Diff {
            path: path.to_string(),
            detail: format!("index {idx}"),
            expected: refwire::show(&name_bytes(a)),
            observed: refwire::show(&name_bytes(b)),
        });
    }
    if a.is_fqdn() != b.is_fqdn() {
        return Some(Diff {
            path: format!("{path}.fqdn"),
            detail: format!("index {idx}"),
            expected: a.is_fqdn().to_string(),
            observed: b.is_fqdn().to_string(),
        });
    }
    None
}

fn variant_name(r: &Record) -> String {
    if r.data.is_update() {
        return "Update0".into();
    }
    wire::type_name(u16::from(r.record_type()))
}

fn cmp_records(section: &str, a: &[Record], b: &[Record]) -> Option<Diff> {
    if a.len() != b.len() {
        return Some(Diff {
            path: format!("{section}.len"),
            detail: String::new(),
            expected: a.len().to_string(),
            observed: b.len().to_string(),
        });
    }
    for (i, (x, y)) in a.iter().zip(b.iter()).enumerate() {
        if let Some(d) = cmp_name(&format!("{section}[].owner"), i, &x.name, &y.name) {
            return Some(d);
        }
        let f = |field: &str, e: String, o: String| {
            Some(Diff { path: format!("{section}[].{field}"), detail: format!("index {i} type {}", variant_name(x)), expected: e, observed: o })
        };
        if x.record_type() != y.record_type() {
            return f("type", format!("{:?}", x.record_type()), format!("{:?}", y.record_type()));
        }
        if u16::from(x.dns_class) != u16::from(y.dns_class) {
            return f("class", u16::from(x.dns_class).to_string(), u16::from(y.dns_class).to_string());
        }
        if x.ttl != y.ttl {
            return f("ttl", x.ttl.to_string(), y.ttl.to_string());
        }
        let (mut dx, mut dy) = (format!("{:?}", x.data), format!("{:?}", y.data));
        if matches!(x.record_type(), RecordType::NSEC | RecordType::NSEC3 | RecordType::CSYNC) {
            // `RecordTypeSet` caches the octets it was decoded from (`original_encoding`, private,
            // ignored by its `PartialEq`, rendered as "Some(...)" / "None"): not part of the value
            dx = dx.replace("original_encoding: \"Some(...)\"", "original_encoding: \"None\"");
            dy = dy.replace("original_encoding: \"Some(...)\"", "original_encoding: \"None\"");
        }
        if x.data != y.data || dx != dy {
            return f(&format!("rdata.{}", variant_name(x)), dx, dy);
        }
        // names inside RDATA compared on raw label bytes as well (Name: PartialEq folds case)
        let (nx, ny) = (hk::names_in_rdata(&x.data), hk::names_in_rdata(&y.data));
        for (p, q) in nx.iter().zip(ny.iter()) {
            if name_bytes(p) != name_bytes(q) {
                return f(&format!("rdata.{}.name-case", variant_name(x)), refwire::show(&name_bytes(p)), refwire::show(&name_bytes(q)));
            }
        }
    }
    None
}

fn cmp_edns(a: &Option<Edns>, b: &Option<Edns>) -> Option<Diff> {
    let d = |p: &str, e: String, o: String| Some(Diff { path: format!("edns.{p}"), detail: String::new(), expected: e, observed: o });
    match (a, b) {
        (None, None) => None,
        (Some(_), None) | (None, Some(_)) => d("present", a.is_some().to_string(), b.is_some().to_string()),
        (Some(x), Some(y)) => {
            if x.version() != y.version() {
                return d("version", x.version().to_string(), y.version().to_string());
            }
            if x.flags().dnssec_ok != y.flags().dnssec_ok {
                return d("do", x.flags().dnssec_ok.to_string(), y.flags().dnssec_ok.to_string());
            }
            if x.flags().z != y.flags().z {
                return d("z", x.flags().z.to_string(), y.flags().z.to_string());
            }
            if x.max_payload() != y.max_payload() {
                return d("max_payload", x.max_payload().to_string(), y.max_payload().to_string());
            }
            let (ox, oy) = (format!("{:?}", x.options()), format!("{:?}", y.options()));
            if x.options() != y.options() || ox != oy {
                return d("options", ox, oy);
            }
            None
        }
    }
}

fn cmp_sig(a: Option<&Record<TSIG>>, b: Option<&Record<TSIG>>) -> Option<Diff> {
    let d = |p: &str, e: String, o: String| Some(Diff { path: format!("signature.{p}"), detail: String::new(), expected: e, observed: o });
    match (a, b) {
        (None, None) => None,
        (Some(_), None) | (None, Some(_)) => d("present", a.is_some().to_string(), b.is_some().to_string()),
        (Some(x), Some(y)) => {
            if let Some(mut df) = cmp_name("signature.owner", 0, &x.name, &y.name) {
                df.detail = String::new();
                return Some(df);
            }
            if u16::from(x.dns_class) != u16::from(y.dns_class) {
                return d("class", u16::from(x.dns_class).to_string(), u16::from(y.dns_class).to_string());
            }
            if x.ttl != y.ttl {
                return d("ttl", x.ttl.to_string(), y.ttl.to_string());
            }
            let (dx, dy) = (format!("{:?}", x.data), format!("{:?}", y.data));
            if x.data != y.data || dx != dy {
                return d("rdata", dx, dy);
            }
            None
        }
    }
}

/// `low_rcode_only`: the message has an extended rcode but no EDNS (don't-care: low 4 bits only).
fn diff_messages(a: &Message, b: &Message, low_rcode_only: bool) -> Option<Diff> {
    let h = |p: &str, e: String, o: String| Some(Diff { path: format!("header.{p}"), detail: String::new(), expected: e, observed: o });
    let (ma, mb) = (&a.metadata, &b.metadata);
    if ma.id != mb.id {
        return h("id", ma.id.to_string(), mb.id.to_string());
    }
    if ma.message_type != mb.message_type {
        return h("qr", format!("{:?}", ma.message_type), format!("{:?}", mb.message_type));
    }
    if u8::from(ma.op_code) != u8::from(mb.op_code) || ma.op_code != mb.op_code {
        return h("opcode", format!("{:?}", ma.op_code), format!("{:?}", mb.op_code));
    }
    for (n, x, y) in [
        ("aa", ma.authoritative, mb.authoritative),
        ("tc", ma.truncation, mb.truncation),
        ("rd", ma.recursion_desired, mb.recursion_desired),
        ("ra", ma.recursion_available, mb.recursion_available),
        ("ad", ma.authentic_data, mb.authentic_data),
        ("cd", ma.checking_disabled, mb.checking_disabled),
    ] {
        if x != y {
            return h(n, x.to_string(), y.to_string());
        }
    }
    let (ra, rb) = (u16::from(ma.response_code), u16::from(mb.response_code));
    if low_rcode_only {
        if ra & 0xf != rb {
            return h("rcode.low4", (ra & 0xf).to_string(), rb.to_string());
        }
    } else if ra != rb {
        return h("rcode", ra.to_string(), rb.to_string());
    }
    if a.queries.len() != b.queries.len() {
        return Some(Diff { path: "queries.len".into(), detail: String::new(), expected: a.queries.len().to_string(), observed: b.queries.len().to_string() });
    }
    for (i, (x, y)) in a.queries.iter().zip(b.queries.iter()).enumerate() {
        if let Some(d) = cmp_name("queries[].name", i, &x.name, &y.name) {
            return Some(d);
        }
        if x.query_type != y.query_type {
            return Some(Diff { path: "queries[].type".into(), detail: format!("index {i}"), expected: format!("{:?}", x.query_type), observed: format!("{:?}", y.query_type) });
        }
        if u16::from(x.query_class) != u16::from(y.query_class) {
            return Some(Diff { path: "queries[].class".into(), detail: format!("index {i}"), expected: format!("{:?}", x.query_class), observed: format!("{:?}", y.query_class) });
        }
    }
    cmp_records("answers", &a.answers, &b.answers)
        .or_else(|| cmp_records("authorities", &a.authorities, &b.authorities))
        .or_else(|| cmp_records("additionals", &a.additionals, &b.additionals))
        .or_else(|| cmp_edns(&a.edns, &b.edns))
        .or_else(|| cmp_sig(a.signature(), b.signature()))
}

// ---------------------------------------------------------------------------------------------
// the oracle

fn err_kind(e: &dyn std::fmt::Debug) -> String {
    let full = format!("{e:?}");
    let mut s = full.as_str();
    // ProtoError::Decode(DecodeError::X(..)) -> X
    for wrapper in ["Decode(", "Proto(", "Io("] {
        if let Some(rest) = s.strip_prefix(wrapper) {
            s = rest;
        }
    }
    let end = s.find(|c: char| !(c.is_alphanumeric() || c == '_')).unwrap_or(s.len());
    if end == 0 {
        return "Other".into();
    }
    let head = &s[..end];
    if head == "Message" || head == "Msg" {
        // free-text errors: keep a slug of the text
        let slug: String = s[end..].chars().filter(|c| c.is_alphanumeric() || *c == ' ').take(48).collect::<String>().trim().replace(' ', "-");
        return format!("{head}:{slug}");
    }
    head.to_string()
}

/// Clause (E): what in a message value could make an encoder fail although the message fits.
fn cause_class(m: &Message) -> &'static str {
    let mut longest = 0usize;
    let mut label = 0usize;
    let mut names: Vec<&Name> = hk::message_names(m);
    let alg_name;
    if let Some(s) = m.signature() {
        names.push(&s.name);
        alg_name = s.data.algorithm.to_name();
        names.push(&alg_name);
    }
    for n in names {
        let (t, l) = hk::measure(n);
        longest = longest.max(t);
        label = label.max(l);
    }
    if longest == 255 {
        "name-255"
    } else if longest >= 250 {
        "name-250+"
    } else if label == 63 {
        "label-63"
    } else if size::message_size(m) > 60_000 {
        "size-60000+"
    } else {
        "other"
    }
}

struct DFail {
    rule: &'static str,
    sig: String,
    expected: Value,
    observed: Value,
}

/// Clause (D), pure: is `e` a well-formed encoding of `m` for the independent walker?
/// Ok((walk, pointer report, "an RDATA did not follow the generator's schema" (counted only))).
fn check_d(m: &Message, e: &[u8]) -> Result<(WMessage, wire::PointerReport, bool), DFail> {
    let fail = |rule: &'static str, sig: &str, expected: Value, observed: Value| Err(DFail { rule, sig: sig.to_string(), expected, observed });
    let w = match refwire::walk(e) {
        Ok(w) => w,
        Err(err) => return fail("D-malformed", "walk", json!("refwire walks encode(m)"), json!({"error": err, "encoded": hex(e)})),
    };
    if w.end != e.len() {
        return fail("D-malformed", "leftover", json!({"end": e.len()}), json!({"walk_end": w.end, "len": e.len(), "encoded": hex(e)}));
    }
    let exp = [
        m.queries.len(),
        m.answers.len(),
        m.authorities.len(),
        m.additionals.len() + m.edns.is_some() as usize + m.signature.is_some() as usize,
    ];
    let obs = [w.header.qd as usize, w.header.an as usize, w.header.ns as usize, w.header.ar as usize];
    if exp != obs {
        return fail("D-malformed", "counts", json!(exp), json!({"counts": obs, "encoded": hex(e)}));
    }
    // OPT after the ordinary additionals, TSIG last
    let ar = &w.sections[2];
    let n_plain = m.additionals.len();
    let mut k = n_plain;
    if m.edns.is_some() {
        if ar.get(k).map(|r| r.rtype) != Some(41) {
            return fail("D-malformed", "opt-position", json!({"index": k, "type": 41}), json!({"types": ar.iter().map(|r| r.rtype).collect::<Vec<_>>()}));
        }
        k += 1;
    }
    if m.signature.is_some() && (ar.get(k).map(|r| r.rtype) != Some(250) || k + 1 != ar.len()) {
        return fail("D-malformed", "tsig-position", json!({"index": k, "type": 250, "last": true}), json!({"types": ar.iter().map(|r| r.rtype).collect::<Vec<_>>()}));
    }
    let pr = wire::check_pointers(e, &w);
    let mut schema_mismatch = false;
    if let Some((sig, text)) = &pr.problem {
        // a schema mismatch of RDATA that hickory itself produced is worth knowing, but it is
        // only a well-formedness violation when it concerns pointers
        if sig.starts_with("rdata|schema") {
            schema_mismatch = true;
        } else {
            return fail(
                "D-pointer",
                sig,
                json!("every pointer targets an earlier label start; none inside RDATA of non-well-known types"),
                json!({"problem": text, "encoded": hex(e)}),
            );
        }
    }
    Ok((w, pr, schema_mismatch))
}

struct Oracle<'a> {
    rep: &'a mut Reporter,
    /// reports per (rule, sig) in this shard
    reported: std::collections::HashMap<String, u32>,
}

/// A defect in a central routine fails a large share of the cases; the reporter keeps at most
/// 10 000 violation entries per shard, so after this many reports of one signature further
/// occurrences are only counted (`violations_beyond_cap/<rule>`): later clauses keep their witnesses.
const REPORTS_PER_SIG: u32 = 200;

#[derive(Clone)]
enum Case<'a> {
    Bytes(&'a [u8], &'a str),
    Struct(&'a Message, &'a str),
    /// struct-level case: the field values themselves (see sbuild.rs)
    Spec(&'a Value),
}

impl Case<'_> {
    fn json(&self) -> Value {
        match self {
            Case::Bytes(b, origin) => json!({"kind": "bytes", "origin": origin, "hex": hex(b)}),
            Case::Spec(v) => json!({"kind": "spec", "spec": v}),
            Case::Struct(m, origin) => {
                let v = serde_json::to_value(m).unwrap_or(Value::Null);
                // is the serde form an exact image of the value? (else the replay says so)
                let exact = serde_json::from_value::<Message>(v.clone()).map(|m2| diff_messages(m, &m2, false).is_none()).unwrap_or(false);
                json!({"kind": "struct", "origin": origin, "message": v, "serde_exact": exact, "debug": format!("{m:?}").chars().take(4000).collect::<String>()})
            }
        }
    }
}

impl Oracle<'_> {
    fn fail(&mut self, rule: &str, sig: &str, case: &Case, expected: Value, observed: Value) {
        let n = self.reported.entry(format!("{rule}|{sig}")).or_insert(0);
        *n += 1;
        if *n > REPORTS_PER_SIG {
            self.rep.count(&format!("violations_beyond_cap/{rule}"));
            return;
        }
        self.rep.violation(rule, sig, case.json(), expected, observed);
    }

    /// Clause (D) on an encoding `e` of message `m`. Returns the walked message when well-formed.
    fn clause_d(&mut self, case: &Case, m: &Message, e: &[u8]) -> Option<(WMessage, wire::PointerReport)> {
        match check_d(m, e) {
            Ok((w, pr, schema_mismatch)) => {
                if schema_mismatch {
                    self.rep.count("d_rdata_schema_mismatch");
                }
                Some((w, pr))
            }
            Err(f) => {
                self.fail(f.rule, &f.sig, case, f.expected, f.observed);
                None
            }
        }
    }

    /// (A): m is a valid message value. Returns the encoding when everything held.
    fn clause_a(&mut self, m: &Message, origin: &str) -> Option<Vec<u8>> {
        let case = Case::Struct(m, origin);
        self.rep.eval();
        let e = match mon::catch(|| m.to_vec()) {
            Err(p) => {
                self.fail("A-panic", &format!("encode|{}", p.site()), &case, json!("Ok or Err"), json!({"panic": p.message, "at": p.location}));
                return None;
            }
            Ok(Err(err)) => {
                // (E) a message that fits must encode
                let (kind, est) = (err_kind(&err), size::message_size(m));
                if est > 65_535 {
                    self.rep.count(&format!("encoder_rejected/oversize/{kind}"));
                } else {
                    self.fail(
                        "A-encode-failed",
                        &format!("{kind}|{}", cause_class(m)),
                        &case,
                        json!({"encode": "Ok", "because": "the message fits in 65535 octets", "uncompressed_size_estimate": est}),
                        json!({"error": format!("{err:?}"), "text": err.to_string()}),
                    );
                }
                return None;
            }
            Ok(Ok(e)) => e,
        };
        self.rep.count("a_encoded");
        let (w, pr) = self.clause_d(&case, m, &e)?;
        let back = match mon::catch(|| Message::from_vec(&e)) {
            Err(p) => {
                self.fail("A-panic", &format!("decode|{}", p.site()), &case, json!("Ok"), json!({"panic": p.message, "at": p.location, "encoded": hex(&e)}));
                return None;
            }
            Ok(Err(err)) => {
                self.fail("A-redecode-failed", &err_kind(&err), &case, json!("decode(encode(m)) is Ok"), json!({"error": format!("{err:?}"), "encoded": hex(&e)}));
                return None;
            }
            Ok(Ok(x)) => x,
        };
        let ext_no_edns = m.edns.is_none() && u16::from(m.metadata.response_code) > 15;
        if ext_no_edns {
            self.rep.count("ext_rcode_without_edns");
        }
        if let Some(d) = diff_messages(m, &back, ext_no_edns) {
            self.fail("A-roundtrip", &d.path, &case, json!({"path": d.path, "detail": d.detail, "value": d.expected}), json!({"value": d.observed, "encoded": hex(&e)}));
            return None;
        }
        if let (Some(ed), false) = (&back.edns, ext_no_edns) {
            // the derived field must agree with the merged rcode
            if ed.rcode_high() != m.metadata.response_code.high() {
                self.fail("A-roundtrip", "edns.rcode_high", &case, json!(m.metadata.response_code.high()), json!({"value": ed.rcode_high(), "encoded": hex(&e)}));
                return None;
            }
        }
        self.observe(m, &e, &w, &pr, origin);
        Some(e)
    }

    fn observe(&mut self, m: &Message, e: &[u8], w: &WMessage, pr: &wire::PointerReport, origin: &str) {
        let nrec = w.all_records().count();
        if nrec >= 1 && pr.pointers >= 1 {
            self.rep.nontrivial(fnv64(e));
            self.rep.count("nontrivial_cases");
        }
        self.rep.count(&format!("held/{}", origin.split(':').next().unwrap_or(origin)));
        for r in m.all_sections() {
            self.rep.count(&format!("rt_type/{}", variant_name(r)));
        }
        if m.signature.is_some() {
            self.rep.count("rt_type/TSIG");
        }
        if let Some(ed) = &m.edns {
            self.rep.count("rt_type/OPT");
            for (code, opt) in ed.options().as_ref() {
                let kind = match opt {
                    EdnsOption::DAU(_) => "DAU".to_string(),
                    EdnsOption::Subnet(_) => "Subnet".to_string(),
                    EdnsOption::NSID(_) => "NSID".to_string(),
                    EdnsOption::Unknown(..) => match u16::from(*code) {
                        6 => "DHU".into(),
                        7 => "N3U".into(),
                        10 => "Cookie".into(),
                        11 => "Keepalive".into(),
                        12 => "Padding".into(),
                        _ => "Unknown".into(),
                    },
                    _ => "other".to_string(),
                };
                self.rep.count(&format!("rt_opt/{kind}"));
            }
            if u16::from(m.metadata.response_code) > 15 {
                self.rep.count("ext_rcode_with_edns");
            }
        }
        if pr.names > 120 {
            self.rep.count("shape/over_120_names");
        }
        if pr.distinct_targets > 0 && pr.names > 64 {
            self.rep.count("shape/over_64_candidates");
        }
        if e.len() > 0x3FFF {
            self.rep.count("shape/crossing_3fff");
            if w.all_records().any(|r| r.start > 0x3FFF) && pr.pointers > 0 {
                self.rep.count("shape/names_after_3fff");
            }
        }
        self.rep.max("max_pointers", pr.pointers as f64);
        self.rep.max("max_encoded_len", e.len() as f64);
        self.rep.add("pointers_seen", pr.pointers as u64);
    }

    /// (B), (C), (D) on bytes. Returns the decoded message if accepted and all clauses held.
    fn clause_bcd(&mut self, b: &[u8], origin: &str) -> Option<Message> {
        let case = Case::Bytes(b, origin);
        let m0 = match mon::catch(|| Message::from_vec(b)) {
            Err(_) => {
                // a decoder panic is C01's finding, not ours
                self.rep.count("decoder_panicked");
                return None;
            }
            Ok(Err(err)) => {
                self.rep.count(&format!("decoder_rejected/{}/{}", origin.split(':').next().unwrap_or(origin), err_kind(&err)));
                return None;
            }
            Ok(Ok(m)) => m,
        };
        self.rep.eval();
        self.rep.count(&format!("accepted/{}", origin.split(':').next().unwrap_or(origin)));
        let e1 = match mon::catch(|| m0.to_vec()) {
            Err(p) => {
                self.fail("B-panic", &format!("encode|{}", p.site()), &case, json!("Ok or Err"), json!({"panic": p.message, "at": p.location}));
                return None;
            }
            Ok(Err(err)) => {
                // (E) the decoded value fits in a message (it came out of one) unless its names only
                // fitted thanks to compression: the estimate counts every name uncompressed
                let (kind, est) = (err_kind(&err), size::message_size(&m0));
                if est > 65_535 {
                    self.rep.count(&format!("encoder_rejected/oversize/{kind}"));
                } else {
                    self.fail(
                        "B-reencode-failed",
                        &format!("{kind}|{}", cause_class(&m0)),
                        &case,
                        json!({"encode(decode(b))": "Ok", "because": "the message fits in 65535 octets", "uncompressed_size_estimate": est}),
                        json!({"error": format!("{err:?}"), "text": err.to_string()}),
                    );
                }
                return None;
            }
            Ok(Ok(e)) => e,
        };
        self.rep.count("b_encoded");
        let (w1, pr) = self.clause_d(&case, &m0, &e1)?;
        let m1 = match mon::catch(|| Message::from_vec(&e1)) {
            Err(p) => {
                self.fail("B-panic", &format!("decode|{}", p.site()), &case, json!("Ok"), json!({"panic": p.message, "at": p.location, "encoded": hex(&e1)}));
                return None;
            }
            Ok(Err(err)) => {
                self.fail("B-redecode-failed", &err_kind(&err), &case, json!("decode(encode(decode(b))) is Ok"), json!({"error": format!("{err:?}"), "encoded": hex(&e1)}));
                return None;
            }
            Ok(Ok(m)) => m,
        };
        // m0 came from bytes: its rcode is ≤ 15 unless an OPT was present, so no low-bits case here
        if let Some(d) = diff_messages(&m0, &m1, false) {
            self.fail("B-roundtrip", &d.path, &case, json!({"path": d.path, "detail": d.detail, "value": d.expected}), json!({"value": d.observed, "encoded": hex(&e1)}));
            return None;
        }
        // (C) + independent wire-level comparison of owner/type/class/ttl
        let w0 = match refwire::walk(b) {
            Ok(w) => w,
            Err(_) => {
                // hickory accepted what the strict walker refuses (e.g. reserved bits): nothing to cut
                self.rep.count("c_input_not_walkable");
                self.observe(&m0, &e1, &w1, &pr, origin);
                return Some(m0);
            }
        };
        if !self.clause_c(&case, b, &w0, &e1, &w1) {
            return None;
        }
        self.observe(&m0, &e1, &w1, &pr, origin);
        Some(m0)
    }

    /// (S) one struct-level case: assembled through the public constructors from `spec`, judged
    /// by sjudge.rs, reduced to a single part when that part alone fails the same way.
    fn clause_s(&mut self, spec: &Value) {
        let b = match sbuild::build(spec) {
            Ok(b) => b,
            Err(e) if e.starts_with("spec:") => {
                // the generator (or a hand-edited witness) wrote something outside the spec language
                self.rep.count("s/spec_rejected");
                self.rep.inconclusive(&format!("struct-level spec not buildable: {e}"));
                return;
            }
            Err(e) => {
                // a public constructor refused field values that are valid on the wire
                self.rep.eval();
                let slug: String = e.chars().filter(|c| c.is_alphanumeric() || *c == ' ').take(60).collect::<String>().trim().replace(' ', "-");
                self.fail("S-construct-failed", &slug, &Case::Spec(spec), json!("a value"), json!({"error": e}));
                return;
            }
        };
        self.rep.eval();
        self.rep.count("s/messages");
        self.count_assembled(&b);
        match sjudge::judge(&b) {
            Ok(None) => self.rep.count("s/oversize_not_judged"),
            Ok(Some(obs)) => self.observe_s(&b, &obs),
            Err(fail) => {
                let parts = sjudge::parts(spec);
                if parts.len() > 1 {
                    for p in &parts {
                        let Ok(pb) = sbuild::build(p) else { continue };
                        if let Err(f2) = sjudge::judge(&pb) {
                            if f2.rule == fail.rule && f2.kind == fail.kind {
                                let sig = sjudge::signature(&f2, &pb);
                                self.fail(f2.rule, &sig, &Case::Spec(p), f2.expected, f2.observed);
                                return;
                            }
                        }
                    }
                }
                let sig = sjudge::signature(&fail, &b);
                self.fail(fail.rule, &sig, &Case::Spec(spec), fail.expected, fail.observed);
            }
        }
    }

    /// What was assembled (counted whether or not the clauses hold afterwards).
    fn count_assembled(&mut self, b: &sbuild::Built) {
        for r in b.sections.iter().flatten() {
            self.rep.count(&format!("s/type/{}", r.tname));
        }
        if b.tsig.is_some() {
            self.rep.count("s/type/TSIG");
        }
        if let Some((_, _, opts)) = &b.opt {
            self.rep.count("s/type/OPT");
            for (code, _) in opts {
                let kind = match code {
                    3 => "NSID",
                    5 => "DAU",
                    6 => "DHU",
                    7 => "N3U",
                    8 => "Subnet",
                    9 => "Expire",
                    10 => "Cookie",
                    11 => "Keepalive",
                    12 => "Padding",
                    13 => "Chain",
                    15 => "EDE",
                    _ => "Unknown",
                };
                self.rep.count(&format!("s/opt/{kind}"));
            }
        }
        for t in b.all_tags().0 {
            self.rep.count(&format!("s/boundary/{t}"));
        }
        self.rep.count(&format!("s/opcode/{}", u8::from(b.msg.metadata.op_code)));
        let md = &b.msg.metadata;
        let fbits = (md.message_type == MessageType::Response) as usize
            | (md.authoritative as usize) << 1
            | (md.truncation as usize) << 2
            | (md.recursion_desired as usize) << 3
            | (md.recursion_available as usize) << 4
            | (md.authentic_data as usize) << 5
            | (md.checking_disabled as usize) << 6;
        self.rep.count(&format!("s/flags/{fbits:03}"));
        if let Some(s) = b.msg.signature() {
            let alg = match &s.data.algorithm {
                hickory_proto::rr::rdata::tsig::TsigAlgorithm::Unknown(_) => "unknown".to_string(),
                a => a.to_string(),
            };
            self.rep.count(&format!("s/tsig_alg/{alg}"));
        }
    }

    fn observe_s(&mut self, _b: &sbuild::Built, obs: &sjudge::SObs) {
        self.rep.count("s/held");
        if obs.schema_mismatch {
            self.rep.count("d_rdata_schema_mismatch");
        }
        if obs.records >= 1 && obs.pointers >= 1 {
            self.rep.nontrivial(fnv64(&obs.encoding));
            self.rep.count("nontrivial_cases");
            self.rep.count("s/nontrivial");
        }
        self.rep.add("s/rdata_bytes_compared", obs.rdata_compared as u64);
        self.rep.count("s/harness_wire_decoded");
        self.rep.max("s/max_encoded_len", obs.encoding.len() as f64);
    }

    fn clause_c(&mut self, case: &Case, b: &[u8], w0: &WMessage, e: &[u8], w1: &WMessage) -> bool {
        // pair the records: answers, authorities 1:1; additionals = non-(OPT|TSIG) in order, then OPT, then TSIG
        let mut pairs: Vec<(&WRecord, &WRecord, &'static str)> = Vec::new();
        for (si, sname) in [(0usize, "answers"), (1, "authorities")] {
            if w0.sections[si].len() != w1.sections[si].len() {
                self.fail("C-structure", &format!("{sname}.len"), case, json!(w0.sections[si].len()), json!({"len": w1.sections[si].len(), "encoded": hex(e)}));
                return false;
            }
            for (x, y) in w0.sections[si].iter().zip(w1.sections[si].iter()) {
                pairs.push((x, y, sname));
            }
        }
        let lifted = |r: &&WRecord| r.rtype == 41 || r.rtype == 250;
        let a0: Vec<&WRecord> = w0.sections[2].iter().filter(|r| !lifted(r)).collect();
        let a1: Vec<&WRecord> = w1.sections[2].iter().filter(|r| !lifted(r)).collect();
        if a0.len() != a1.len() || w0.sections[2].len() != w1.sections[2].len() {
            self.fail("C-structure", "additionals.len", case, json!(w0.sections[2].len()), json!({"len": w1.sections[2].len(), "encoded": hex(e)}));
            return false;
        }
        for (x, y) in a0.iter().zip(a1.iter()) {
            pairs.push((x, y, "additionals"));
        }
        let t0 = w0.sections[2].iter().find(|r| r.rtype == 250);
        let t1 = w1.sections[2].iter().find(|r| r.rtype == 250);
        if let (Some(x), Some(y)) = (t0, t1) {
            pairs.push((x, y, "additionals"));
        }
        for (x, y, sname) in pairs {
            let tn = wire::type_name(x.rtype);
            let mism = |s: &mut Self, field: &str, exp: Value, obs: Value| {
                s.fail("C-wire", &format!("{sname}[].{field}.{tn}"), case, exp, json!({"value": obs, "orig_record_at": x.start, "reenc_record_at": y.start, "encoded": hex(e)}));
            };
            if x.rtype != y.rtype {
                mism(self, "type", json!(x.rtype), json!(y.rtype));
                return false;
            }
            if x.owner.labels != y.owner.labels {
                mism(self, "owner", json!(refwire::show(&x.owner.labels)), json!(refwire::show(&y.owner.labels)));
                return false;
            }
            if x.class != y.class {
                mism(self, "class", json!(x.class), json!(y.class));
                return false;
            }
            if x.ttl != y.ttl {
                mism(self, "ttl", json!(x.ttl), json!(y.ttl));
                return false;
            }
            let (r0, r1) = (x.rdata(b), y.rdata(e));
            let c0 = wire::canonical_rdata(b, x);
            let c1 = wire::canonical_rdata(e, y);
            // signature of an RDATA difference: type (SVCB and HTTPS share a decoder) + where
            let fam = if x.rtype == 65 { "SVCB".to_string() } else { tn.clone() };
            let rdata_fail = |s: &mut Self, class: String, exp: &[u8], obs: &[u8]| {
                s.fail(
                    "C-rdata",
                    &format!("{fam}|{class}"),
                    case,
                    json!({"section": sname, "type": x.rtype, "rdata": hex(exp)}),
                    json!({"rdata": hex(obs), "orig_record_at": x.start, "reenc_record_at": y.start, "encoded": hex(e)}),
                );
            };
            match (&c0, &c1) {
                (Ok(c0), Ok(c1)) => {
                    if c0 != c1 {
                        let class = if x.rtype == 64 || x.rtype == 65 { svcb_diff_class(c0, c1) } else { "content".to_string() };
                        rdata_fail(self, class, c0, c1);
                        return false;
                    }
                    self.rep.count("c_rdata_compared_decompressed");
                }
                _ => {
                    self.rep.count("c_schema_mismatch");
                }
            }
            if !wire::is_compressible(x.rtype) {
                match wire::rdata_uses_pointer(b, x) {
                    Some(true) => {
                        self.rep.count("c_skipped_input_compressed_non_well_known");
                    }
                    _ => {
                        if r0 != r1 {
                            let class = if c0.is_ok() && c1.is_ok() { "name-encoding" } else { "bytes" };
                            rdata_fail(self, class.to_string(), r0, r1);
                            return false;
                        }
                        self.rep.count("c_rdata_compared_bytes");
                        self.rep.count(&format!("c_bytes/{tn}"));
                    }
                }
            }
        }
        true
    }
}


/// For SVCB/HTTPS: which part of the (decompressed) RDATA differs — priority, target, or the
/// SvcParam with a given key (first difference).
fn svcb_diff_class(a: &[u8], b: &[u8]) -> String {
    fn split(r: &[u8]) -> Option<(usize, Vec<(u16, &[u8])>)> {
        // priority(2) | uncompressed name | params
        let mut p = 2;
        loop {
            let l = *r.get(p)? as usize;
            p += 1 + l;
            if l == 0 {
                break;
            }
        }
        let name_end = p;
        let mut params = Vec::new();
        while p + 4 <= r.len() {
            let k = u16::from_be_bytes([r[p], r[p + 1]]);
            let l = u16::from_be_bytes([r[p + 2], r[p + 3]]) as usize;
            let v = r.get(p + 4..p + 4 + l)?;
            params.push((k, v));
            p += 4 + l;
        }
        Some((name_end, params))
    }
    let (Some((na, pa)), Some((nb, pb))) = (split(a), split(b)) else {
        return "content".into();
    };
    if a.get(..na) != b.get(..nb) {
        return "priority-or-target".into();
    }
    for (x, y) in pa.iter().zip(pb.iter()) {
        if x != y {
            return format!("svcparam-key{}", x.0);
        }
    }
    "svcparam-count".into()
}

// ---------------------------------------------------------------------------------------------
// struct-level edits

const RCODES: &[u16] = &[0, 1, 2, 3, 4, 5, 6, 7, 8, 9, 10, 11, 15, 16, 17, 18, 19, 20, 21, 22, 23, 24, 255, 256, 3841, 4095];

fn flip_case(rng: &mut Rng, l: &[u8]) -> Vec<u8> {
    l.iter()
        .map(|c| {
            if c.is_ascii_alphabetic() && rng.bool() {
                c ^ 0x20
            } else {
                *c
            }
        })
        .collect()
}

/// A family of related names: shared suffixes, mixed case, differing prefixes.
struct NameFamily {
    names: Vec<Vec<Vec<u8>>>,
}

impl NameFamily {
    fn new(rng: &mut Rng, n: usize) -> Self {
        let mut names: Vec<Vec<Vec<u8>>> = Vec::new();
        let nb = rng.urange(1, 3);
        for _ in 0..nb {
            let mut base = gen::name(rng, gen::NameStyle::Small);
            base.truncate(4);
            if base.is_empty() {
                base.push(b"example".to_vec());
            }
            names.push(base);
        }
        while names.len() < n {
            let mut x = rng.pick(&names).clone();
            match rng.below(5) {
                0 | 1 => {
                    // child: new leftmost label
                    let l = if rng.bool() { format!("h{}", rng.below(1000)).into_bytes() } else { gen::label(rng, gen::NameStyle::Host, 12) };
                    x.insert(0, l);
                }
                2 => {
                    // case variant of one label
                    let i = rng.usize_below(x.len());
                    x[i] = flip_case(rng, &x[i]);
                }
                3 => {
                    // case variant of the whole name
                    for l in x.iter_mut() {
                        *l = flip_case(rng, l);
                    }
                }
                _ => {
                    // sibling: replace the leftmost label
                    x[0] = gen::label(rng, gen::NameStyle::Small, 10);
                }
            }
            let wl: usize = x.iter().map(|l| l.len() + 1).sum::<usize>() + 1;
            if wl <= 255 && !x.is_empty() {
                names.push(x);
            }
        }
        Self { names }
    }
    fn pick(&self, rng: &mut Rng) -> Name {
        let i = rng.usize_below(self.names.len());
        hk::to_name(&self.names[i]).unwrap_or_else(|_| Name::root())
    }
}

fn rename_rdata(rng: &mut Rng, fam: &NameFamily, d: &mut RData) -> bool {
    match d {
        RData::CNAME(n) => n.0 = fam.pick(rng),
        RData::NS(n) => n.0 = fam.pick(rng),
        RData::PTR(n) => n.0 = fam.pick(rng),
        RData::ANAME(n) => n.0 = fam.pick(rng),
        RData::MX(m) => m.exchange = fam.pick(rng),
        RData::SOA(s) => {
            s.mname = fam.pick(rng);
            s.rname = fam.pick(rng);
        }
        RData::SRV(s) => s.target = fam.pick(rng),
        _ => return false,
    }
    true
}

fn random_edns(rng: &mut Rng) -> Edns {
    let mut e = Edns::new();
    e.set_version(if rng.chance(1, 3) { rng.u8() } else { 0 });
    e.set_dnssec_ok(rng.bool());
    if rng.chance(1, 4) {
        e.flags_mut().z = rng.u16() & 0x7fff;
    }
    e.set_max_payload(*rng.pick(&[0u16, 100, 511, 512, 513, 1232, 4096, 65535, 9000]));
    if rng.chance(1, 5) {
        // deliberately stale derived field: the encoder must overwrite it from the header rcode
        e.set_rcode_high(rng.u8());
    }
    let nopt = match rng.below(6) {
        0 => 0,
        1 => rng.urange(4, 8),
        _ => rng.urange(1, 3),
    };
    for _ in 0..nopt {
        let o = match rng.below(8) {
            0 => {
                let mut s = SupportedAlgorithms::new();
                for a in [5u8, 7, 8, 10, 13, 14, 15] {
                    if rng.bool() {
                        s.set(Algorithm::from_u8(a));
                    }
                }
                EdnsOption::DAU(s)
            }
            1 => {
                let src = rng.range(0, 32) as u8;
                let mut o = rng.bytes(4);
                mask_prefix(&mut o, src);
                EdnsOption::Subnet(ClientSubnet::new(IpAddr::V4(Ipv4Addr::new(o[0], o[1], o[2], o[3])), src, if rng.bool() { 0 } else { rng.range(0, 32) as u8 }))
            }
            2 => {
                let src = rng.range(0, 128) as u8;
                let mut o = rng.bytes(16);
                mask_prefix(&mut o, src);
                let a: [u8; 16] = o.try_into().unwrap();
                EdnsOption::Subnet(ClientSubnet::new(IpAddr::V6(Ipv6Addr::from(a)), src, if rng.bool() { 0 } else { rng.range(0, 128) as u8 }))
            }
            3 => EdnsOption::NSID(NSIDPayload::new(rng.bytes_between(0, 40)).unwrap()),
            _ => {
                // every other option kind is carried as (code, bytes); codes 3/5/8 have variants
                let code = *rng.pick(&[0u16, 1, 2, 4, 6, 7, 9, 10, 11, 12, 13, 14, 15, 16, 17, 18, 26946, 65001, 65535]);
                let data = match code {
                    10 => {
                        let k = *rng.pick(&[8usize, 16, 24, 40]);
                        rng.bytes(k)
                    }
                    12 => vec![0; rng.urange(0, 64)],
                    11 => {
                        let k = *rng.pick(&[0usize, 2]);
                        rng.bytes(k)
                    }
                    _ => rng.bytes_between(0, 24),
                };
                EdnsOption::Unknown(code, data)
            }
        };
        e.options_mut().insert(o);
    }
    e
}

fn mask_prefix(octets: &mut [u8], prefix: u8) {
    let full = (prefix / 8) as usize;
    let rem = prefix % 8;
    for (i, o) in octets.iter_mut().enumerate() {
        if i < full {
            continue;
        }
        if i == full && rem != 0 {
            *o &= 0xffu8 << (8 - rem);
        } else {
            *o = 0;
        }
    }
}

fn random_opcode(rng: &mut Rng) -> OpCode {
    match rng.below(8) {
        0..=2 => OpCode::Query,
        3 => OpCode::Status,
        4 => OpCode::Notify,
        5 => OpCode::Update,
        _ => OpCode::Unknown(*rng.pick(&[1u8, 3, 6, 7, 8, 9, 10, 11, 12, 13, 14, 15])),
    }
}

struct Pool {
    records: Vec<Record>,
    sigs: Vec<Box<Record<TSIG>>>,
    queries: Vec<Query>,
}

impl Pool {
    fn absorb(&mut self, m: &Message) {
        if self.records.len() < 3000 {
            // Update0 records are only valid inside UPDATE messages; keep the pool free of them
            self.records.extend(m.all_sections().filter(|r| !r.data.is_update() && !matches!(r.record_type(), RecordType::SIG)).cloned());
        }
        if let (Some(s), true) = (&m.signature, self.sigs.len() < 200) {
            self.sigs.push(s.clone());
        }
        if self.queries.len() < 500 {
            self.queries.extend(m.queries.iter().cloned());
        }
    }
}

/// Struct-level edit of a decoded message; the result is still a valid message value.
fn edit_message(rng: &mut Rng, base: &Message, pool: &Pool) -> Message {
    let mut m = base.clone();
    let has_update0 = m.all_sections().any(|r| r.data.is_update());
    // header
    m.metadata.id = rng.u16();
    m.metadata.message_type = if rng.bool() { MessageType::Response } else { MessageType::Query };
    if !has_update0 {
        m.metadata.op_code = random_opcode(rng);
    }
    m.metadata.authoritative = rng.bool();
    m.metadata.truncation = rng.chance(1, 4);
    m.metadata.recursion_desired = rng.bool();
    m.metadata.recursion_available = rng.bool();
    m.metadata.authentic_data = rng.bool();
    m.metadata.checking_disabled = rng.bool();
    m.metadata.response_code = ResponseCode::from(0, 0);
    let rc = if rng.chance(1, 6) { rng.range(0, 4095) as u16 } else { *rng.pick(RCODES) };
    m.metadata.response_code = ResponseCode::from((rc >> 4) as u8, (rc & 0xf) as u8);
    // EDNS: keep / drop / fresh
    match rng.below(4) {
        0 => m.edns = None,
        1 => {}
        _ => m.edns = Some(random_edns(rng)),
    }
    // TSIG: keep / drop / from pool
    match rng.below(4) {
        0 => m.signature = None,
        1 if !pool.sigs.is_empty() => m.signature = Some(rng.pick(&pool.sigs).clone()),
        _ => {}
    }
    // questions
    if rng.chance(1, 4) && !pool.queries.is_empty() {
        m.queries = (0..rng.below(3)).map(|_| rng.pick(&pool.queries).clone()).collect();
    }
    // records: add from pool, shuffle, duplicate, retarget owners / rdata names into one family
    let fam_n = rng.urange(3, 12);
    let fam = NameFamily::new(rng, fam_n);
    if !pool.records.is_empty() {
        for _ in 0..rng.below(6) {
            let r = rng.pick(&pool.records).clone();
            match rng.below(3) {
                0 => m.answers.push(r),
                1 => m.authorities.push(r),
                _ => m.additionals.push(r),
            }
        }
    }
    for sec in [&mut m.answers, &mut m.authorities, &mut m.additionals] {
        if rng.chance(1, 3) {
            rng.shuffle(sec);
        }
        if !sec.is_empty() && rng.chance(1, 4) {
            let r = rng.pick(sec).clone();
            sec.push(r);
        }
        for r in sec.iter_mut() {
            if rng.chance(1, 2) {
                r.name = fam.pick(rng);
            }
            if rng.chance(1, 2) {
                rename_rdata(rng, &fam, &mut r.data);
            }
            if rng.chance(1, 4) {
                r.ttl = *rng.pick(&[0u32, 1, 300, 0x7fff_ffff, 0x8000_0000, 0xffff_ffff]);
            }
            if rng.chance(1, 8) && !r.data.is_update() {
                r.dns_class = DNSClass::from(*rng.pick(&[1u16, 3, 4, 254, 255, 2, 256, 65535]));
            }
        }
    }
    for q in m.queries.iter_mut() {
        if rng.chance(1, 2) {
            q.name = fam.pick(rng);
        }
    }
    // inside UPDATE, RDLENGTH 0 is RFC 2136's own wire form ("delete RRset" / "name in use"): a
    // NULL / unknown-type record whose RDATA is empty is not distinguishable from it there, so such
    // values are kept out of UPDATE messages (they only exist once hickory decodes empty RDATA of
    // those types at all, cf. finding C02-F2)
    let empty = |r: &Record| !r.data.is_update() && size::rdata_len(&r.data) == 0;
    if m.metadata.op_code == OpCode::Update && m.all_sections().any(empty) {
        if m.all_sections().any(|r| r.data.is_update()) {
            // Update0 records need the UPDATE opcode: drop the empty-RDATA values instead
            for sec in [&mut m.answers, &mut m.authorities, &mut m.additionals] {
                sec.retain(|r| !empty(r));
            }
        } else {
            m.metadata.op_code = OpCode::Query;
        }
    }
    m
}

/// Big shapes: > 120 compressible names, > 64 pointer candidates, crossing offset 0x3FFF.
fn big_message(rng: &mut Rng, pool: &Pool, kind: u64) -> Message {
    let mut m = Message::new(rng.u16(), MessageType::Response, OpCode::Query);
    let fam_n = if kind == 0 { 12 } else { rng.urange(80, 200) };
    let fam = NameFamily::new(rng, fam_n);
    m.add_query(Query::new(fam.pick(rng), RecordType::ANY));
    let named: Vec<&Record> = pool.records.iter().filter(|r| !hk::names_in_rdata(&r.data).is_empty()).collect();
    let fat: Vec<&Record> = pool.records.iter().filter(|r| matches!(r.data, RData::NULL(_) | RData::TXT(_) | RData::OPENPGPKEY(_) | RData::Unknown { .. })).collect();
    let nrec = match kind {
        0 => rng.urange(130, 300), // few distinct names, many compressible occurrences
        1 => rng.urange(130, 400), // many distinct names: > 64 candidates
        _ => rng.urange(60, 200),
    };
    let push = |m: &mut Message, r: Record, rng: &mut Rng| match rng.below(3) {
        0 => m.answers.push(r),
        1 => m.authorities.push(r),
        _ => m.additionals.push(r),
    };
    if kind == 2 {
        // fill beyond 0x3FFF with fat records first (in the answer section), interleaved with a few names
        let mut approx = 0usize;
        while approx < 0x3FFF + 200 {
            let mut r = if !fat.is_empty() && rng.chance(4, 5) {
                (*rng.pick(&fat)).clone()
            } else {
                Record::from_rdata(Name::root(), 60, RData::NULL(hickory_proto::rr::rdata::NULL::with(rng.bytes_between(200, 900))))
            };
            r.name = fam.pick(rng);
            approx += 12 + r.name.len() + format!("{:?}", r.data).len() / 3;
            m.answers.push(r);
            if m.answers.len() > 400 {
                break;
            }
        }
    }
    for _ in 0..nrec {
        let mut r = if !named.is_empty() && rng.chance(2, 3) {
            (*rng.pick(&named)).clone()
        } else if !pool.records.is_empty() {
            rng.pick(&pool.records).clone()
        } else {
            Record::from_rdata(Name::root(), 1, RData::CNAME(hickory_proto::rr::rdata::CNAME(Name::root())))
        };
        r.name = fam.pick(rng);
        rename_rdata(rng, &fam, &mut r.data);
        if kind == 2 {
            m.additionals.push(r);
        } else {
            push(&mut m, r, rng);
        }
    }
    if rng.bool() {
        m.edns = Some(random_edns(rng));
    }
    if rng.chance(1, 3) && !pool.sigs.is_empty() {
        m.signature = Some(rng.pick(&pool.sigs).clone());
    }
    m
}

/// header + one question + SIG(0)-style record in the additional section (the only place the
/// decoder accepts type SIG), built from the generator's schema.
fn sig_in_additional(rng: &mut Rng) -> Vec<u8> {
    let mut w = WireBuilder::new(70);
    refwire::put_header(&mut w.buf, &WHeader { id: rng.u16(), flags: 0x8000 | (rng.u16() & 0x07b0), qd: 1, an: 1, ns: 0, ar: 1 });
    let qn = gen::name(rng, gen::NameStyle::Small);
    w.name(rng, &qn, true);
    w.buf.extend_from_slice(&[0, 1, 0, 1]);
    let mut names = |r: &mut Rng| gen::name(r, gen::NameStyle::Small);
    w.record(rng, &qn, 1, 1, 300, &mut names);
    w.record(rng, &[], 24, 255, 0, &mut names);
    w.buf
}


/// The generator draws every fixed-width RDATA field at random; a few decoders only accept
/// registered values there (NSEC3 hash algorithm 1 / flag bits, CSYNC flag bits, CAA tag
/// alphabet). Patch those fields in place (same length, no names before them) so that these types
/// get through the decoder often enough to be observed.
fn tame_picky(mut b: Vec<u8>) -> Vec<u8> {
    let Ok(w) = refwire::walk(&b) else { return b };
    for r in w.all_records() {
        let rd = r.rdata_off;
        match r.rtype {
            50 | 51 if r.rdata_len >= 2 => {
                b[rd] = 1;
                b[rd + 1] &= 1;
            }
            62 if r.rdata_len >= 6 => {
                b[rd + 4] = 0;
                b[rd + 5] &= 3;
            }
            257 if r.rdata_len >= 2 => {
                let tl = b[rd + 1] as usize;
                if tl >= 1 && 2 + tl <= r.rdata_len {
                    for x in b[rd + 2..rd + 2 + tl].iter_mut() {
                        *x = b"abcdefghijklmnopqrstuvwxyz0123456789"[*x as usize % 36];
                    }
                }
            }
            _ => {}
        }
    }
    b
}

// ---------------------------------------------------------------------------------------------

// struct-level workload: messages per run (before the driver's quick_scale) and must-observe floors
const S_QUICK: u64 = 100_000;
const S_THOROUGH: u64 = 6_000_000;
const S_MUST_MESSAGES: u64 = 60_000;
const S_MUST_PER_KIND: u64 = 5_000;
const S_MUST_PER_TAG: u64 = 150;

fn main() {
    let ctx = Ctx::from_args("C02");
    mon::install_panic_monitor();
    let mut rep = Reporter::new(&ctx);

    if let Some(w) = ctx.replay_case() {
        let c = &w["case"];
        let mut o = Oracle { rep: &mut rep, reported: Default::default() };
        match c["kind"].as_str() {
            Some("bytes") => {
                let b = unhex(c["hex"].as_str().unwrap_or(""));
                o.clause_bcd(&b, "replay");
            }
            Some("struct") => match serde_json::from_value::<Message>(c["message"].clone()) {
                Ok(m) => {
                    o.clause_a(&m, "replay");
                }
                Err(e) => {
                    eprintln!("replay: cannot rebuild the message value from its serde form: {e}");
                    rep.inconclusive("replay: struct case not deserialisable");
                }
            },
            Some("spec") => o.clause_s(&c["spec"]),
            _ => o.rep.inconclusive("replay: unknown case kind"),
        }
        rep.replay_finish();
    }

    // must-observe (App. B): thresholds are totals over all shards, ≥ 3× below what quick observes
    let thorough = ctx.is_thorough();
    rep.must("nontrivial_cases", if thorough { 300_000 } else { 10_000 });
    rep.must("a_encoded", if thorough { 100_000 } else { 5_000 });
    rep.must("c_rdata_compared_bytes", 10_000);
    rep.must("c_rdata_compared_decompressed", 10_000);
    for t in gen::TYPES {
        rep.must(&format!("rt_type/{}", t.name), 20);
    }
    rep.must("rt_type/Unknown", 20);
    rep.must("rt_type/Update0", 5);
    for k in ["DAU", "Subnet", "NSID", "DHU", "N3U", "Cookie", "Keepalive", "Padding", "Unknown"] {
        rep.must(&format!("rt_opt/{k}"), 20);
    }
    rep.must("ext_rcode_with_edns", 100);
    rep.must("ext_rcode_without_edns", 100);
    rep.must("shape/over_120_names", 20);
    rep.must("shape/over_64_candidates", 20);
    rep.must("shape/crossing_3fff", 10);
    rep.must("shape/names_after_3fff", 5);
    rep.must("accepted/mutant", 1_000);
    rep.must("b_encoded", 50_000);
    // struct-level part (quick observes ≥ 3x these at seeds 1..5)
    rep.must("s/messages", if thorough { 500_000 } else { S_MUST_MESSAGES });
    rep.must("s/held", if thorough { 400_000 } else { S_MUST_MESSAGES * 3 / 4 });
    rep.must("s/rdata_bytes_compared", S_MUST_MESSAGES * 5);
    rep.must("s/harness_wire_decoded", S_MUST_MESSAGES * 3 / 4);
    rep.must("s/nontrivial", S_MUST_MESSAGES / 4);
    for k in sgen::KINDS {
        rep.must(&format!("s/type/{k}"), S_MUST_PER_KIND);
    }
    for k in ["OPT", "TSIG", "Update0"] {
        rep.must(&format!("s/type/{k}"), S_MUST_PER_KIND);
    }
    for k in ["DAU", "Subnet", "NSID", "DHU", "N3U", "Cookie", "Keepalive", "Padding", "Expire", "Chain", "EDE", "Unknown"] {
        rep.must(&format!("s/opt/{k}"), S_MUST_PER_KIND / 2);
    }
    for t in sbuild::TAG_PRIORITY {
        rep.must(&format!("s/boundary/{t}"), if *t == "msg-65535" { 40 } else { S_MUST_PER_TAG });
    }
    for op in 0..16 {
        rep.must(&format!("s/opcode/{op}"), 3_000);
    }
    for fbits in 0..128 {
        // every combination of QR AA TC RD RA AD CD
        rep.must(&format!("s/flags/{fbits:03}"), 400);
    }
    // every RData variant has a public way to a value; what the struct-level part deliberately does
    // not generate (see props assumptions)
    rep.note(
        "s_not_generated",
        json!({
            "RData::ZERO": "deprecated placeholder without wire form",
            "DNSSECRData::Unknown": "no decoder path yields it (unknown codes decode to RData::Unknown)",
            "RData::OPT / RData::TSIG as section records": "held as Message::edns / Message::signature",
            "not_constructible": [],
        }),
    );

    let mut rng = ctx.rng("main");
    let mut pool = Pool { records: Vec::new(), sigs: Vec::new(), queries: Vec::new() };
    let mut o = Oracle { rep: &mut rep, reported: Default::default() };

    // W1: generated wire messages (all types, OPT / TSIG options) -> (B)(C)(D); W2: mutants that
    // still decode -> (B)(C)(D); W3: struct-level edits of the decoded values -> (A)(D)
    let n_wire = ctx.budget(400_000, 12_000_000);
    for i in 0..n_wire {
        // the decoder is picky about a few types (hash algorithm 1, CAA tag alphabet, CSYNC flags,
        // ...): a message is only accepted if all its records are, so those types get small
        // messages of their own and most messages stick to the types that usually decode
        const PICKY: &[u16] = &[25, 35, 50, 51, 62, 257];
        let (types, max_records): (Option<Vec<u16>>, usize) = match rng.below(20) {
            0..=2 => (Some(vec![*rng.pick(PICKY)]), 2),
            3 | 4 => (Some(vec![2, 5, 6, 12, 15, 33, 46, 47, 64, 65, 65305]), 12),
            5 | 6 => (None, 8),
            7 => (Some(gen::DATA_TYPES.iter().copied().filter(|t| !PICKY.contains(t)).collect()), 60),
            8 => (Some(gen::DATA_TYPES.iter().copied().filter(|t| !PICKY.contains(t)).collect()), 25),
            _ => (Some(gen::DATA_TYPES.iter().copied().filter(|t| !PICKY.contains(t)).collect()), 8),
        };
        let opts = MsgOpts { max_records, with_opt: rng.chance(1, 3), with_tsig: rng.chance(1, 6), types, response: None };
        let b = if i % 200 == 199 { sig_in_additional(&mut rng) } else { tame_picky(gen::message_wire(&mut rng, &opts)) };
        let origin = if i % 200 == 199 { "generated:sig-additional" } else { "generated" };
        let decoded = o.clause_bcd(&b, origin);
        if i < 2 {
            o.rep.sample(|| json!({"workload": "generated-wire", "len": b.len(), "hex": hex(&b)}));
        }
        // mutants
        let ints = gen::interesting_offsets(&b);
        for _ in 0..3 {
            let mb = gen::mutate(&mut rng, &b, &ints);
            o.rep.count("mutants_tried");
            o.clause_bcd(&mb, "mutant");
        }
        if let Some(m0) = decoded {
            pool.absorb(&m0);
            // struct-level edits
            let m = edit_message(&mut rng, &m0, &pool);
            if i % 4000 == 7 {
                o.rep.sample(|| json!({"workload": "struct-edit", "message": format!("{m}")}));
            }
            o.clause_a(&m, "edited");
        }
    }

    // W4: big shapes
    let n_big = ctx.budget(1_600, 48_000);
    for i in 0..n_big {
        let m = big_message(&mut rng, &pool, i % 3);
        let origin = ["big:few-names", "big:many-names", "big:cross-3fff"][(i % 3) as usize];
        if let Some(e) = o.clause_a(&m, origin) {
            // and the same through the bytes path
            if i % 4 == 0 {
                o.clause_bcd(&e, "big-reencoded");
            }
        }
    }

    // W5: struct-level messages assembled through the public constructors (no decoder involved) ->
    // clauses S(i)-(v) + (D). The message index is global (interleaved over the shards): flag
    // combination, opcode, primary record kind, boundary mode, first EDNS option kind and TSIG
    // algorithm are functions of it, so the enumerated parts are covered at every seed.
    let n_s = ctx.budget(S_QUICK, S_THOROUGH);
    let mut srng = ctx.rng("struct-level");
    let t_s = std::time::Instant::now(); // reported only (evidence note), decides nothing
    for i in 0..n_s {
        let index = i * ctx.nshards + ctx.shard;
        let spec = {
            let mut g = sgen::SGen::new(&mut srng, index);
            g.message(index)
        };
        if i < 2 {
            o.rep.sample(|| json!({"workload": "struct-level", "spec": spec}));
        }
        o.clause_s(&spec);
    }
    rep.max("s/wall_s_per_shard", t_s.elapsed().as_secs_f64());

    std::process::exit(rep.finish().min(0));
}
