//! C11 — every accepted request gets exactly one matching response from the right zone.
//!
//! Observation: hook H3 `Server::verif_handle_request` drives the real pre-catalog gate + `Catalog`
//! in-process with a real `ResponseHandle`; the harness holds the `BufDnsStreamHandle` receiver and
//! counts / decodes what arrives.  Oracle: the independent gate model in `model.rs` (statement +
//! documented behaviour), comparison in `obs.rs`.  Survival: after every hostile input the same
//! `Server` is probed with a known-good query whose full answer is checked.  Thorough tier adds a
//! real `Server` on 127.0.0.1 UDP+TCP sockets (`sock.rs`).
//!
//! Don't-cares (nothing else is loosened):
//!  * overlapping error conditions: any rcode whose condition holds (table in model.rs);
//!  * pseudo-records (OPT / TSIG / SIG(0)) out of place: FORMERR is REQUIRED only where an RFC says MUST
//!    to the receiver – more than one OPT RR anywhere in the message (RFC 6891 §6.1.1), a well-formed TSIG
//!    RR that is not the last additional record or a second one (RFC 8945 §5.2; the harness builds hickory
//!    with dnssec-ring, so TSIG is implemented).  Don't-care, counted as `pseudo/<tag>` and
//!    `pseudo_outcome/<tag>/<rcode>`: a lone OPT in the answer/authority section (RFC 6891 confines OPT to
//!    the additional section but prescribes no receiver action for a single stray one; FORMERR, BADVERS if
//!    it announces a version > 0, and ignoring it are all admissible), an OPT with a non-root owner,
//!    SIG(0)-shaped records anywhere (no RCODE mandated by RFC 2931, SIG(0) not implemented), type-250
//!    records that are not well-formed TSIG RRs, and a correctly placed TSIG (no key is configured:
//!    NOTAUTH per RFC 8945 §5.2.1 and ignoring it are both admissible);
//!  * QNAME with a compression pointer: FORMERR admissible (accepted pointer forms are not in the
//!    statement); pointer into the 12 header octets: echoed question not compared (the raw octets
//!    are echoed under a header with different flag bytes);
//!  * bodies outside the "certainly valid" whitelist (A/TXT/OPT-with-unknown-options, plain owners,
//!    nothing after the last record): FORMERR admissible in addition to the ordinary outcome;
//!  * responses to unknown opcodes / unparsable questions may or may not echo a question;
//!  * UPDATE reaching the catalog: result code not judged (C12); AXFR / meta / unknown QTYPEs and
//!    non-IN classes: rcode not judged and an answer without marker tolerated (but never a foreign
//!    marker); a zone whose handlers all decline (Skip): rcode not judged, no marker allowed;
//!  * ACL: address family without any entry while the other family has entries (doc comment of
//!    `AccessControl` is ambiguous) – REFUSED and service both admissible;
//!  * header bits of the response other than QR, ID, RCODE (and TC, see next); additional/authority
//!    section content;
//!  * a truncated response (TC=1) may have lost every record, so no marker is demanded from it;
//!    octets left over after the last counted record (the C03 defect: the size-limited encoder does
//!    not remove a partially written record) are counted (`response_trailing_octets_c03`), not judged.
//!
//! Finding signature = (clause, gate branch): clause ∈ count | id | qr | question | rcode | zone |
//! wire | panic | hang | survival; branch = the model's primary branch (see model.rs); the pseudo-record
//! placement rules have a branch of their own (`formerr-pseudo`), apart from framing (`formerr-body`).

mod cfg;
mod model;
mod obs;
mod reqgen;
mod sock;

use std::net::{IpAddr, SocketAddr};

use bytes::Bytes;
use futures::{FutureExt, StreamExt};
use hickory_net::xfer::Protocol;
use hickory_net::BufDnsStreamHandle;
use hickory_proto::serialize::binary::decoder_verif;
use hickory_server::server::ResponseHandle;
use hickory_server::zone_handler::Catalog;
use hickory_server::Server;
use serde_json::{json, Value};

use vh::mon::{self, hex, unhex, Ctx, PanicRecord, Reporter};
use vh::prng::fnv64;
use vh::refwire::{self, labels_of, WHeader};

use cfg::{Config, HKind};
use model::{Expect, Normal, Tri};

const STEP_LIMIT: u64 = 50_000_000;

pub const BRANCHES: &[&str] = &[
    "short",
    "qr",
    "notimp-unknown-opcode",
    "formerr-question",
    "refused-acl",
    "formerr-body",
    "formerr-pseudo",
    "badvers",
    "notimp-opcode",
    "refused-nozone",
    "zone-answer",
    "update",
];

pub fn proto_name(p: Protocol) -> &'static str {
    match p {
        Protocol::Tcp => "tcp",
        _ => "udp",
    }
}

/// Hand one request to the real gate; returns every message that reached the stream handle.
fn drive(rt: &tokio::runtime::Runtime, server: &Server<Catalog>, bytes: &[u8], src: SocketAddr, proto: Protocol) -> Result<Vec<Vec<u8>>, PanicRecord> {
    decoder_verif::reset(STEP_LIMIT);
    let r = mon::catch(|| {
        rt.block_on(async {
            let (sh, mut rx) = BufDnsStreamHandle::new(src);
            let rh = ResponseHandle::new(src, sh, proto);
            server.verif_handle_request(Bytes::copy_from_slice(bytes), src, proto, rh).await;
            let mut out: Vec<Vec<u8>> = Vec::new();
            // every sender is gone by now; `now_or_never` guards against a leaked clone
            while let Some(Some(m)) = rx.next().now_or_never() {
                out.push(m.into_parts().0);
            }
            out
        })
    });
    decoder_verif::reset(u64::MAX);
    r
}

pub struct Probe {
    pub src: SocketAddr,
    pub bytes: Vec<u8>,
    pub marker: u16,
}

/// A source the model certainly allows and a zone that certainly answers, if the config has both.
pub struct ProbePlan {
    src: SocketAddr,
    origin: String,
    marker: u16,
}

pub fn probe_plan(cfg: &Config) -> Option<ProbePlan> {
    let mut cands: Vec<IpAddr> = vec!["192.0.2.9".parse().unwrap(), "2001:db8::9".parse().unwrap(), "10.1.2.3".parse().unwrap(), "8.8.4.4".parse().unwrap(), "fd00::7".parse().unwrap()];
    for n in &cfg.allow {
        // last address of the network
        let a = n.addr | !cfg::Net::mask(n.len);
        cands.push(if n.v6 { IpAddr::V6(a.into()) } else { IpAddr::V4(((a >> 96) as u32).into()) });
    }
    let src = cands.into_iter().find(|ip| model::acl_denied(cfg, *ip) == Tri::No)?;
    let (origin, marker) = cfg.zones.iter().find_map(|z| z.chain.iter().find(|h| h.kind != HKind::Skip).map(|h| (z.origin.clone(), h.marker)))?;
    Some(ProbePlan { src: SocketAddr::new(src, 5353), origin, marker })
}

pub fn make_probe(plan: &ProbePlan, id: u16, nonce: &[u8]) -> Probe {
    let mut name = vec![nonce.to_vec()];
    name.extend(labels_of(&plan.origin));
    let mut b = Vec::new();
    refwire::put_header(&mut b, &WHeader { id, flags: 0x0100, qd: 1, an: 0, ns: 0, ar: 0 });
    refwire::put_question(&mut b, &name, 16, 1);
    Probe { src: plan.src, bytes: b, marker: plan.marker }
}

pub struct Case<'a> {
    pub cfg: &'a Config,
    pub kind: &'a str,
    pub bytes: &'a [u8],
    pub src: SocketAddr,
    pub proto: Protocol,
    pub probe: Option<&'a Probe>,
}

impl Case<'_> {
    pub fn to_json(&self) -> Value {
        json!({
            "mode": "hook",
            "cfg": self.cfg.to_json(),
            "kind": self.kind,
            "src": self.src.to_string(),
            "proto": proto_name(self.proto),
            "hex": hex(self.bytes),
            "probe": self.probe.map(|p| json!({"src": p.src.to_string(), "hex": hex(&p.bytes), "marker": p.marker})),
        })
    }
    pub fn hash(&self) -> u64 {
        let mut v = self.bytes.to_vec();
        v.extend_from_slice(&self.cfg.hash().to_le_bytes());
        v.extend_from_slice(self.src.ip().to_string().as_bytes());
        v.push(matches!(self.proto, Protocol::Tcp) as u8);
        fnv64(&v)
    }
}

pub fn count_expectation(rep: &mut Reporter, cfg: &Config, exp: &Expect) {
    rep.count(&format!("branch/{}", exp.branch));
    for (name, t) in &exp.conds {
        match t {
            Tri::Maybe => rep.count(&format!("cond_maybe/{name}")),
            Tri::Yes => rep.count(&format!("cond_yes/{name}")),
            Tri::No => {}
        }
    }
    if exp.conds.iter().filter(|c| c.1 == Tri::Yes).count() >= 2 {
        rep.count("overlap_two_or_more_conditions");
    }
    if let (Normal::Zone { origin, marker, strict }, Some(q)) = (&exp.normal, &exp.question) {
        // how many configured zones enclose the name (the interesting ones for longest-match)
        let f = refwire::fold(&q.labels);
        let enclosing = cfg
            .zones
            .iter()
            .filter(|z| {
                let o = z.origin_labels();
                o.len() <= f.len() && f[f.len() - o.len()..] == o[..]
            })
            .count();
        if enclosing >= 2 {
            rep.count("zone_choice_among_nested");
        }
        if *strict {
            rep.count("zone_answer_strict");
        }
        if let Some(z) = cfg.zones.iter().find(|z| &z.origin == origin) {
            if z.chain.first().map(|h| Some(h.marker)) != Some(*marker) {
                rep.count("chain_first_handler_declined");
            }
            if z.chain.len() > 1 {
                rep.count("chain_multi_handler");
            }
        }
        if q.labels.iter().any(|l| l.iter().any(|c| c.is_ascii_uppercase())) {
            rep.count("zone_answer_mixed_case_qname");
        }
    }
    if exp.question.as_ref().is_some_and(|q| q.header_pointer) {
        rep.count("question_header_pointer");
    }
    for t in &exp.tags {
        rep.count(&format!("pseudo/{t}"));
    }
    if exp.pseudo_shadows_answer {
        rep.count("pseudo_required_shadows_zone_answer");
    }
}

/// Run one case through gate, model and judge; report violations. Returns the model's branch.
fn run_case(rt: &tokio::runtime::Runtime, rep: &mut Reporter, server: &Server<Catalog>, c: &Case) -> &'static str {
    let exp = model::gate(c.cfg, c.src.ip(), c.bytes);
    rep.eval();
    if c.bytes.len() >= 12 {
        rep.nontrivial(c.hash());
    }
    count_expectation(rep, c.cfg, &exp);
    rep.count(&format!("kind/{}", c.kind));
    rep.count(&format!("proto/{}", proto_name(c.proto)));
    let exp_json = |exp: &Expect| {
        json!({
            "branch": exp.branch,
            "responses": exp.respond as u8,
            "error_rcodes": exp.err_rcodes,
            "ordinary": format!("{:?}", exp.normal),
            "question": format!("{:?}", exp.qecho),
            "conditions": exp.conds.iter().filter(|c| c.1 != Tri::No).map(|c| format!("{}={:?}", c.0, c.1)).collect::<Vec<_>>(),
            "pseudo_records": exp.tags,
        })
    };
    match drive(rt, server, c.bytes, c.src, c.proto) {
        Err(p) => {
            let (rule, sig) = if p.is_step_limit() { ("hang", format!("{}|decoder-steps", exp.branch)) } else { ("panic", format!("{}|{}", exp.branch, p.site())) };
            rep.violation(rule, &sig, c.to_json(), json!("a response or silence, no panic"), json!({"panic": p.message, "at": p.location}));
        }
        Ok(resps) => {
            let v = obs::judge(c.bytes, &exp, &resps);
            rep.count(&format!("outcome/{}/{}", exp.branch, v.outcome));
            if v.trailing > 0 {
                rep.count("response_trailing_octets_c03");
            }
            if v.outcome.ends_with("+data") {
                rep.count("responses_with_zone_marker");
            }
            // what the server did with each pseudo-record situation (verdicts and don't-cares alike)
            for t in &exp.tags {
                rep.count(&format!("pseudo_outcome/{t}/{}", v.outcome));
            }
            if exp.branch == "formerr-pseudo" {
                rep.count(&format!("pseudo_required_decides/{}", proto_name(c.proto)));
            }
            for (clause, e, o) in v.fails {
                rep.violation(clause, exp.branch, c.to_json(), json!({"clause": e, "model": exp_json(&exp)}), json!({"clause": o, "responses": resps.iter().map(|r| hex(r)).collect::<Vec<_>>()}));
            }
        }
    }
    if let Some(p) = c.probe {
        rep.eval();
        rep.count("probes");
        match drive(rt, server, &p.bytes, p.src, Protocol::Udp) {
            Err(pr) => {
                rep.violation("survival", &format!("{}|probe-panic", exp.branch), c.to_json(), json!("probe answered"), json!({"panic": pr.message, "at": pr.location}));
            }
            Ok(resps) => match obs::judge_probe(&p.bytes, p.marker, &resps) {
                None => rep.count("probes_answered"),
                Some((e, o)) => {
                    // Is it the history of this server object, or is the probe answered wrongly even
                    // by a fresh server of the same configuration (then it is not a survival matter)?
                    let fresh = cfg::build_server(c.cfg);
                    let fresh_ok = drive(rt, &fresh, &p.bytes, p.src, Protocol::Udp).ok().is_some_and(|r| obs::judge_probe(&p.bytes, p.marker, &r).is_none());
                    if fresh_ok {
                        rep.violation("survival", &format!("{}|probe", exp.branch), c.to_json(), e, o);
                    } else {
                        rep.violation("zone", "probe-on-fresh-server", c.to_json(), e, o);
                    }
                }
            },
        }
    }
    exp.branch
}

fn parse_proto(s: &str) -> Protocol {
    if s == "tcp" {
        Protocol::Tcp
    } else {
        Protocol::Udp
    }
}

fn main() {
    let ctx = Ctx::from_args("C11");
    mon::install_panic_monitor();
    let mut rep = Reporter::new(&ctx);
    let rt = tokio::runtime::Builder::new_current_thread().enable_all().build().expect("runtime");

    if let Some(w) = ctx.replay_case() {
        let c = &w["case"];
        let cfg = Config::from_json(&c["cfg"]);
        if c["mode"].as_str() == Some("socket") {
            sock::replay(&mut rep, &cfg, c);
            rep.replay_finish();
        }
        let server = cfg::build_server(&cfg);
        let bytes = unhex(c["hex"].as_str().unwrap_or(""));
        let probe = c["probe"].as_object().map(|p| Probe {
            src: p["src"].as_str().unwrap_or("192.0.2.9:5353").parse().expect("probe src"),
            bytes: unhex(p["hex"].as_str().unwrap_or("")),
            marker: p["marker"].as_u64().unwrap_or(0) as u16,
        });
        let case = Case {
            cfg: &cfg,
            kind: c["kind"].as_str().unwrap_or("replay"),
            bytes: &bytes,
            src: c["src"].as_str().unwrap_or("192.0.2.9:5353").parse().expect("src"),
            proto: parse_proto(c["proto"].as_str().unwrap_or("udp")),
            probe: probe.as_ref(),
        };
        run_case(&rt, &mut rep, &server, &case);
        rep.replay_finish();
    }

    for b in BRANCHES {
        rep.must(&format!("branch/{b}"), 100);
    }
    rep.must("probes_answered", 10_000);
    rep.must("zone_choice_among_nested", 1000);
    rep.must("chain_first_handler_declined", 300);
    rep.must("question_header_pointer", 300);
    rep.must("responses_with_zone_marker", 5000);
    rep.must("cond_yes/refused-acl", 1000);
    // pseudo-records out of place (thresholds: a quick run sees 10-100 times as many)
    for t in ["opt2/ns+ar", "opt2/an+ar", "opt2/ar+ar", "opt1/ns", "opt1/an", "opt-owner-nonroot", "tsig/an", "tsig/ns", "tsig/ar-not-last", "tsig/two", "tsig/ar-last", "sig0/an", "sig0/ns", "sig0/ar-not-last"] {
        rep.must(&format!("pseudo/{t}"), 500);
    }
    rep.must("pseudo_required_decides/udp", 1000);
    rep.must("pseudo_required_decides/tcp", 1000);
    rep.must("pseudo_required_shadows_zone_answer", 500);

    let mut rng = ctx.rng("main");
    let mut ids = reqgen::Ids { next_id: rng.u16(), nonce: 0, shard: ctx.shard };
    // `--mode=socket` (development aid): skip the in-process workload
    let socket_only = ctx.extra.get("mode").map(|m| m == "socket").unwrap_or(false);
    let total = if socket_only { 0 } else { ctx.budget(1_200_000, 24_000_000) };
    let mut done = 0u64;
    while done < total {
        let cfg = cfg::gen_config(&mut rng);
        let server = cfg::build_server(&cfg);
        let plan = probe_plan(&cfg);
        rep.count("configs");
        if plan.is_none() {
            rep.count("configs_without_probe");
        }
        let batch = rng.range(16, 64);
        for _ in 0..batch {
            let req = reqgen::request(&mut rng, &cfg, &mut ids);
            let src = reqgen::source(&mut rng, &cfg);
            let proto = if rng.bool() { Protocol::Udp } else { Protocol::Tcp };
            rep.count(match src.ip() {
                IpAddr::V4(_) => "src/v4",
                IpAddr::V6(a) if a.to_ipv4_mapped().is_some() => "src/v4-mapped",
                IpAddr::V6(_) => "src/v6",
            });
            // survival probe after every hostile input (and after a sample of the ordinary ones)
            let hostile = !matches!(req.kind, "query" | "update" | "notify-status" | "edns-version");
            let probe = match &plan {
                Some(pl) if hostile || rng.chance(1, 8) => {
                    let id = ids.id();
                    let mut nonce = b"probe-".to_vec();
                    nonce.extend(ids.nonce_label());
                    Some(make_probe(pl, id, &nonce))
                }
                _ => None,
            };
            let case = Case { cfg: &cfg, kind: req.kind, bytes: &req.bytes, src, proto, probe: probe.as_ref() };
            let branch = run_case(&rt, &mut rep, &server, &case);
            if done % 997 == 0 {
                rep.sample(|| {
                    let mut j = case.to_json();
                    j["model_branch"] = json!(branch);
                    j
                });
            }
            done += 1;
        }
    }

    // real loopback listeners: full size in the thorough tier, a small share on every quick run so that
    // the UDP/TCP accept and receive loops (not only the request gate behind H3) are always observed
    {
        sock::run(&ctx, &mut rep);
    }

    std::process::exit(rep.finish().min(0));
}
