//! C15 — cached answers expire on time, TTLs only count down.
//!
//! Runtime monitor for `hickory_resolver::ResponseCache::{new, insert, get}` (+ hook H6
//! `verif_clear`). Generated histories of 50–500 operations over ≤ 4 queries run against one real
//! cache with `now = base + virtual offset` (offsets non-decreasing) and, op by op, against the
//! independent register model in `refcache.rs`, which judges every `get` (clauses, rule ids and
//! the complete list of don't-cares D1–D7 are documented at the top of `refcache.rs`).
//!
//! About the two clocks: `is_current(now)` uses the `now` we pass; moka additionally expires
//! entries on its *own* wall clock after `valid_until − Instant::now()` (EntryExpiry). With
//! `base >= Instant::now()` and non-decreasing offsets `valid_until = base + t0 + L` is never
//! earlier (in real time) than the virtual deadline, so moka can only drop an entry *early in
//! virtual terms* when the real clock has already passed `base + t0 + L` (only possible with
//! base = "now" and tiny L). That is a `None` the statement allows; it is accounted separately
//! (`none_live_wallclock`) and not held against the 1 % `unexpected_none` budget. Most histories
//! use `base = Instant::now() + 1 h`, which rules the effect out entirely; every 4th uses
//! `base = Instant::now()` as production callers do.
//!
//! Thorough tier adds `stress.rs`: 8 threads × 3 keys, regular-register history check.
//!
//! Second observation point, "from upstream messages" (what is cached and for how long is decided
//! *before* `ResponseCache::insert` in production):
//!  * M1 (`upstream.rs`, `real::insert_upstream`): histories also contain `Op::Up(key, wire)` — an upstream
//!    RESPONSE message in wire form (generated with the independent `vh::refwire` writer: RCODE, AA/TC/RA,
//!    question present / absent / mismatching, answer empty / CNAME chain without final answer / other
//!    types only / proper answer, authority with 0–2 SOA (TTL ≶ MINIMUM, owner at / above / unrelated to the
//!    query name) and NS ± glue, additional junk incl. an SOA in the wrong section). It goes through the
//!    calls production uses between transport and cache (`DnsResponse::from_buffer` →
//!    `DnsError::from_response` as in `NameServer::send`, the pool's truncation check, the recursor's
//!    `insert(Err(e))` / `insert(Ok(message))`) and the model side is `upstream::classify` (RFC 2308 §2/§5):
//!    error RCODE / TC / undecodable ⇒ transient (never visible [transient_cached]); NXDOMAIN / NODATA with an
//!    authority SOA ⇒ negative entry with negative_ttl = min(SOA TTL, SOA.MINIMUM), lifetime and ageing judged
//!    by `refcache` as for hand-built inserts; answers present ⇒ positive entry; don't-cares U1–U5 there.
//!  * M2 (`m2.rs`): `CachingClient::new(..).lookup` end to end over a scripted `DnsHandle`, in real time on
//!    its own thread (the cache inside the client is not reachable, `with_cache` is `pub(crate)`).

mod m2;
mod real;
mod refcache;
mod stress;
mod upstream;

use std::time::{Duration, Instant};

use serde_json::{json, Value};
use vh::mon::{self, Ctx, Reporter};
use vh::prng::{fnv64, Rng};

use real::*;
use refcache::{Bounds, Config, Finding, Judgement, Obs, RefCache, Slot, View, DAY, NS_PER_S};
use upstream::UpClass;

// ---------------------------------------------------------------------------------------------
// case description (self-contained, replayable)

#[derive(Clone, Debug)]
pub enum Op {
    Adv(u64),
    Get(usize),
    Clear,
    Ins(usize, View),
    Transient(usize, &'static str),
    /// M1: an upstream response message (wire form) received for key k; converted and inserted the
    /// way the resolver does it (`real::insert_upstream`), judged via `upstream::classify`
    Up(usize, Vec<u8>),
}

#[derive(Clone, Debug)]
pub struct Case {
    pub cfg: Config,
    pub shape: String,
    pub capacity: u64,
    pub future_base: bool,
    /// (name index, query type)
    pub keys: Vec<(usize, u16)>,
    pub ops: Vec<Op>,
}

fn static_slot(s: &str) -> &'static str {
    match s {
        "answer" => "answer",
        "authority" => "authority",
        "additional" => "additional",
        "negative_ttl" => "negative_ttl",
        "soa" => "soa",
        "neg_authority" => "neg_authority",
        "ns" => "ns",
        _ => "glue",
    }
}

fn view_from_json(v: &Value) -> View {
    View {
        negative: v["negative"].as_bool().unwrap_or(false),
        head: v["head"].as_u64().unwrap_or(0) as u32,
        slots: v["slots"]
            .as_array()
            .map(|a| {
                a.iter()
                    .map(|s| Slot {
                        slot: static_slot(s[0].as_str().unwrap_or("")),
                        rtype: s[1].as_u64().unwrap_or(0) as u16,
                        ttl: s[2].as_u64().unwrap_or(0) as u32,
                        tag: s[3].as_u64().unwrap_or(0) as u32,
                    })
                    .collect()
            })
            .unwrap_or_default(),
    }
}

impl Op {
    fn to_json(&self) -> Value {
        match self {
            Op::Adv(ns) => json!(["adv", ns]),
            Op::Get(k) => json!(["get", k]),
            Op::Clear => json!(["clr"]),
            Op::Ins(k, v) => json!(["ins", k, v.to_json()]),
            Op::Transient(k, kind) => json!(["err", k, kind]),
            Op::Up(k, wire) => json!(["up", k, upstream::hex(wire), upstream::describe(wire)]),
        }
    }
    fn from_json(v: &Value) -> Option<Op> {
        let k = || v[1].as_u64().unwrap_or(0) as usize;
        Some(match v[0].as_str()? {
            "adv" => Op::Adv(v[1].as_u64()?),
            "get" => Op::Get(k()),
            "clr" => Op::Clear,
            "ins" => Op::Ins(k(), view_from_json(&v[2])),
            "up" => Op::Up(k(), upstream::unhex(v[2].as_str()?)?),
            "err" => {
                let kind = v[2].as_str()?;
                Op::Transient(k(), TRANSIENT_KINDS.iter().find(|x| **x == kind).copied().unwrap_or("refused"))
            }
            _ => return None,
        })
    }
}

impl Case {
    fn to_json(&self, upto: usize) -> Value {
        json!({
            "mode": "history",
            "config": self.cfg.to_json(),
            "config_shape": self.shape,
            "capacity": self.capacity,
            "future_base": self.future_base,
            "keys": self.keys.iter().map(|(n, t)| json!([n, t])).collect::<Vec<_>>(),
            "key_names": self.keys.iter().map(|(n, t)| format!("{} type {}", NAMES[*n % NAMES.len()], t)).collect::<Vec<_>>(),
            "ops": self.ops[..upto.min(self.ops.len())].iter().map(|o| o.to_json()).collect::<Vec<_>>(),
            "time_unit": "adv = nanoseconds of virtual time; bounds = [pos_min,pos_max,neg_min,neg_max] seconds (null = unset); slots = [section, rtype, ttl, tag]; up = [key, upstream response message as hex, the same message decoded (informational)]",
        })
    }
    fn from_json(v: &Value) -> Case {
        Case {
            cfg: Config::from_json(&v["config"]),
            shape: v["config_shape"].as_str().unwrap_or("replay").to_string(),
            capacity: v["capacity"].as_u64().unwrap_or(64),
            future_base: v["future_base"].as_bool().unwrap_or(true),
            keys: v["keys"]
                .as_array()
                .map(|a| a.iter().map(|k| (k[0].as_u64().unwrap_or(0) as usize, k[1].as_u64().unwrap_or(1) as u16)).collect())
                .unwrap_or_default(),
            ops: v["ops"].as_array().map(|a| a.iter().filter_map(Op::from_json).collect()).unwrap_or_default(),
        }
    }
}

fn view_hash(v: &View) -> u64 {
    let mut b = Vec::with_capacity(16 + v.slots.len() * 12);
    b.push(v.negative as u8);
    b.extend_from_slice(&v.head.to_le_bytes());
    for s in &v.slots {
        b.push(s.slot.as_bytes()[0]);
        b.push(s.slot.len() as u8);
        b.extend_from_slice(&s.rtype.to_le_bytes());
        b.extend_from_slice(&s.ttl.to_le_bytes());
        b.extend_from_slice(&s.tag.to_le_bytes());
    }
    fnv64(&b)
}

// ---------------------------------------------------------------------------------------------
// execution of one history against the real cache and the model

pub struct Exec {
    real: Real,
    queries: Vec<hickory_proto::op::Query>,
    model: RefCache,
    keys: Vec<(usize, u16)>,
    now: u64,
    entry_hash: Vec<u64>,
    transient_pending: Vec<bool>,
    /// M1: the upstream messages of a transient class received for the key since its last stored insert
    /// (class label, what the entry would look like had the message been cached)
    up_transient: Vec<Vec<(&'static str, Vec<View>)>>,
    /// M1: what the last `Op::Up` was (for the counters of the caller)
    pub last_up: Option<UpInfo>,
}

pub struct UpInfo {
    pub label: &'static str,
    pub features: Vec<&'static str>,
    /// "stored" | "stored_ambiguous" | "transient" | "opaque"
    pub class: &'static str,
    /// what hickory made of the message
    pub outcome: &'static str,
}

pub struct GetOutcome {
    pub j: Judgement,
    pub obs: Obs,
    pub wallclock_passed: bool,
    pub after_transient: bool,
    /// M1: the get follows an upstream message of a transient class (label)
    pub after_up_transient: Option<&'static str>,
    pub case_hash: u64,
}

impl Exec {
    fn new(case: &Case) -> Exec {
        let base = if case.future_base { Instant::now() + Duration::from_secs(3600) } else { Instant::now() };
        Exec {
            real: Real::new(case.capacity, &case.cfg, base),
            queries: case.keys.iter().map(|(n, t)| mk_query(*n, *t)).collect(),
            model: RefCache::new(case.cfg.clone(), case.keys.len()),
            keys: case.keys.clone(),
            now: 0,
            entry_hash: vec![0; case.keys.len()],
            transient_pending: vec![false; case.keys.len()],
            up_transient: vec![vec![]; case.keys.len()],
            last_up: None,
        }
    }

    /// Apply one op to the real cache and the model; gets are judged.
    fn apply(&mut self, op: &Op) -> Option<GetOutcome> {
        match op {
            Op::Adv(ns) => {
                self.now = self.now.saturating_add(*ns);
                None
            }
            Op::Clear => {
                let r = mon::catch(|| self.real.cache.verif_clear());
                self.model.clear();
                for u in self.up_transient.iter_mut() {
                    u.clear();
                }
                r.err().map(|p| self.panic_outcome("clear", p))
            }
            Op::Ins(k, v) => {
                let k = *k % self.keys.len();
                let q = self.queries[k].clone();
                let res = mk_result(&q, v);
                let at = self.real.at(self.now);
                let r = mon::catch(|| self.real.cache.insert(q, res, at));
                self.model.insert_stored(k, self.keys[k].1, v.clone(), self.now);
                self.entry_hash[k] = view_hash(v);
                self.transient_pending[k] = false;
                self.up_transient[k].clear();
                r.err().map(|p| self.panic_outcome("insert", p))
            }
            Op::Up(k, wire) => {
                let k = *k % self.keys.len();
                let q = self.queries[k].clone();
                let at = self.real.at(self.now);
                let r = mon::catch(|| insert_upstream(&self.real.cache, &q, wire, at));
                let qname = vh::refwire::labels_of(NAMES[self.keys[k].0 % NAMES.len()]);
                let m = upstream::classify(wire, &qname, self.keys[k].1);
                let class = match m.class {
                    UpClass::Transient => {
                        self.model.insert_transient(k);
                        self.transient_pending[k] = true;
                        self.up_transient[k].push((m.label, m.would_be));
                        "transient"
                    }
                    UpClass::Opaque => {
                        self.model.set_opaque(k);
                        self.transient_pending[k] = false;
                        self.up_transient[k].clear();
                        "opaque"
                    }
                    UpClass::Stored(mut cands) => {
                        // U4: several admissible interpretations — the one the cache chose is identified by
                        // the form / SOA serial of the entry at age 0 (this peek is not judged)
                        let ambiguous = cands.len() > 1;
                        let mut pick = Some(0);
                        if ambiguous {
                            pick = match mon::catch(|| observe(self.real.cache.get(&q, at))) {
                                // none of the admissible interpretations: judged against the first one
                                Ok(Obs::Entry(v)) => Some(cands.iter().position(|c| c.same_entry(&v)).unwrap_or(0)),
                                // not visible (eviction at tiny capacities): which one was chosen stays unknown
                                _ => None,
                            };
                        }
                        let Some(pick) = pick else {
                            self.model.set_opaque(k);
                            self.transient_pending[k] = false;
                            self.up_transient[k].clear();
                            self.last_up = Some(UpInfo { label: m.label, features: m.features, class: "ambiguous_unresolved", outcome: r.as_ref().map(|o| *o).unwrap_or("panic") });
                            return r.err().map(|p| self.panic_outcome("insert_upstream", p));
                        };
                        let v = cands.swap_remove(pick);
                        self.entry_hash[k] = view_hash(&v);
                        self.model.insert_stored(k, self.keys[k].1, v, self.now);
                        let mut labels = vec![m.label];
                        labels.extend(m.features.iter().copied());
                        self.model.set_labels(k, labels);
                        self.transient_pending[k] = false;
                        self.up_transient[k].clear();
                        if ambiguous {
                            "stored_ambiguous"
                        } else {
                            "stored"
                        }
                    }
                };
                self.last_up = Some(UpInfo { label: m.label, features: m.features, class, outcome: r.as_ref().map(|o| *o).unwrap_or("panic") });
                r.err().map(|p| self.panic_outcome("insert_upstream", p))
            }
            Op::Transient(k, kind) => {
                let k = *k % self.keys.len();
                let q = self.queries[k].clone();
                let at = self.real.at(self.now);
                let e = mk_transient(kind);
                let r = mon::catch(|| self.real.cache.insert(q, Err(e), at));
                self.model.insert_transient(k);
                self.transient_pending[k] = true;
                r.err().map(|p| self.panic_outcome("insert_transient", p))
            }
            Op::Get(k) => {
                let k = *k % self.keys.len();
                let at = self.real.at(self.now);
                let obs = match mon::catch(|| self.real.cache.get(&self.queries[k], at)) {
                    Ok(r) => observe(r),
                    Err(p) => Obs::Panic(format!("get|{}|{}", p.site(), first_words(&p.message))),
                };
                let j = self.model.judge(k, self.now, &obs);
                let wallclock_passed = j.unexpected_none
                    && Instant::now() >= self.real.base + Duration::from_nanos(j.soft_deadline);
                let after_transient = std::mem::replace(&mut self.transient_pending[k], false);
                // M1: upstream messages of a transient class were received for this key since its last stored insert
                let after_up_transient = self.up_transient[k].last().map(|(l, _)| *l);
                let mut j = j;
                if let (Obs::Entry(v), false) = (&obs, self.up_transient[k].is_empty()) {
                    // an entry that is neither the latest stored insert nor an older one, but is what one of the upstream
                    // error / truncated responses received since looks like as a cache entry: that response was cached
                    let matching: Vec<&'static str> = self.up_transient[k].iter().filter(|(_, w)| w.iter().any(|c| c.same_entry(v))).map(|(l, _)| *l).collect();
                    let culprit = match matching.first() {
                        None => None,
                        Some(l) if matching.iter().all(|x| x == l) => Some(*l),
                        Some(_) => Some("error_or_truncated_response"),
                    };
                    if let Some(label) = culprit {
                        for f in j.findings.iter_mut() {
                            if f.rule == "phantom" || (f.rule == "content" && f.sig.starts_with("unknown_entry")) {
                                f.rule = "transient_cached";
                                f.sig = format!("upstream_{label}|got={}", if v.negative { "negative_entry" } else { "positive_entry" });
                            }
                        }
                    }
                }
                let okind = match &obs {
                    Obs::None => 0u64,
                    Obs::Entry(_) => 1,
                    _ => 2,
                };
                let t0 = self.model.slots[k].as_ref().map(|s| s.t0).unwrap_or(0);
                let case_hash = self.entry_hash[k]
                    ^ (self.now.saturating_sub(t0)).wrapping_mul(0x9E37_79B9_7F4A_7C15)
                    ^ okind.rotate_left(61);
                Some(GetOutcome { j, obs, wallclock_passed, after_transient, after_up_transient, case_hash })
            }
        }
    }

    fn panic_outcome(&self, what: &str, p: mon::PanicRecord) -> GetOutcome {
        let sig = format!("{what}|{}|{}", p.site(), first_words(&p.message));
        let obs = Obs::Panic(sig.clone());
        let mut j = Judgement::default();
        j.findings.push(Finding { rule: "panic", sig, expected: json!("no panic"), observed: json!({"panic": p.message, "at": p.location}) });
        GetOutcome { j, obs, wallclock_passed: false, after_transient: false, after_up_transient: None, case_hash: 0 }
    }
}

fn first_words(s: &str) -> String {
    s.split_whitespace().take(6).collect::<Vec<_>>().join("_")
}

/// Re-run a list of ops on a fresh cache, silently; returns all (rule, sig) pairs found.
fn silent_findings(case: &Case) -> Vec<(String, String)> {
    let mut ex = Exec::new(case);
    let mut out = vec![];
    for op in &case.ops {
        if let Some(o) = ex.apply(op) {
            for f in o.j.findings {
                out.push((f.rule.to_string(), f.sig));
            }
        }
    }
    out
}

/// Witness for a finding at op index `i`: prefix of the history, reduced to the ops that touch
/// the same key (plus time and clear) when that still reproduces the same signature.
fn witness_case(case: &Case, i: usize, key: Option<usize>, rule: &str, sig: &str) -> Value {
    let mut prefix = case.clone();
    prefix.ops.truncate(i + 1);
    if let Some(k) = key {
        let mut small = prefix.clone();
        small.ops = prefix
            .ops
            .iter()
            .filter(|o| match o {
                Op::Adv(_) | Op::Clear => true,
                Op::Get(x) | Op::Ins(x, _) | Op::Transient(x, _) | Op::Up(x, _) => *x % case.keys.len() == k,
            })
            .cloned()
            .collect();
        // merge consecutive advances
        let mut merged: Vec<Op> = vec![];
        for o in small.ops.drain(..) {
            match (merged.last_mut(), &o) {
                (Some(Op::Adv(a)), Op::Adv(b)) => *a = a.saturating_add(*b),
                _ => merged.push(o),
            }
        }
        small.ops = merged;
        // drop everything before the last stored insert that precedes the failing op, if it still reproduces
        let hits = |c: &Case| silent_findings(c).iter().any(|(r, s)| r == rule && s == sig);
        if hits(&small) {
            if let Some(last_ins) = small.ops.iter().rposition(|o| matches!(o, Op::Ins(..) | Op::Up(..))) {
                let mut tiny = small.clone();
                tiny.ops = small.ops[last_ins..].to_vec();
                if hits(&tiny) {
                    return tiny.to_json(usize::MAX);
                }
            }
            return small.to_json(usize::MAX);
        }
    }
    prefix.to_json(usize::MAX)
}

// ---------------------------------------------------------------------------------------------
// generators

const QTYPES: [u16; 6] = [T_A, T_AAAA, T_TXT, T_MX, T_NS, T_CNAME];
const SMALL_TTLS: [u32; 14] = [0, 1, 1, 2, 3, 4, 5, 7, 10, 15, 20, 30, 45, 60];
const MEDIUM_TTLS: [u32; 6] = [61, 120, 299, 300, 600, 3600];
const LARGE_TTLS: [u32; 7] = [86_399, 86_400, 86_401, 100_000, 604_800, 0x7fff_ffff, 0xffff_ffff];
const BOUND_VALUES: [u64; 15] = [0, 1, 2, 3, 5, 10, 20, 30, 60, 120, 300, 600, 3600, 7200, 86_400];
const HUGE: u64 = 1 << 33;

fn gen_ttl(rng: &mut Rng) -> u32 {
    match rng.below(20) {
        0..=13 => *rng.pick(&SMALL_TTLS),
        14..=17 => *rng.pick(&MEDIUM_TTLS),
        _ => *rng.pick(&LARGE_TTLS),
    }
}

fn fix_pair(min: &mut Option<u64>, max: &mut Option<u64>) {
    // generator invariant min <= max (D6) with the documented defaults 0 / one day
    let emin = min.unwrap_or(0);
    let emax = max.unwrap_or(DAY);
    if emin > emax {
        if min.is_some() && max.is_some() {
            std::mem::swap(min, max);
        } else {
            *min = Some(emax);
        }
    }
}

fn gen_bounds(rng: &mut Rng) -> Bounds {
    let f = |rng: &mut Rng| if rng.chance(35, 100) { None } else { Some(*rng.pick(&BOUND_VALUES)) };
    let mut b = Bounds { pos_min: f(rng), pos_max: f(rng), neg_min: f(rng), neg_max: f(rng) };
    if rng.chance(1, 10) {
        b.pos_max = Some(100_000); // a maximum above the one-day default
    }
    fix_pair(&mut b.pos_min, &mut b.pos_max);
    fix_pair(&mut b.neg_min, &mut b.neg_max);
    b
}

fn gen_bounds_eq(rng: &mut Rng) -> Bounds {
    let p = Some(*rng.pick(&BOUND_VALUES));
    let n = Some(*rng.pick(&BOUND_VALUES));
    Bounds { pos_min: p, pos_max: p, neg_min: n, neg_max: n }
}

fn gen_bounds_zero(rng: &mut Rng) -> Bounds {
    let mut b = gen_bounds(rng);
    if rng.chance(2, 3) {
        b.pos_min = if rng.bool() { Some(0) } else { None };
        b.pos_max = Some(0);
    }
    if rng.chance(2, 3) {
        b.neg_min = if rng.bool() { Some(0) } else { None };
        b.neg_max = Some(0);
    }
    b
}

fn gen_config(rng: &mut Rng, keys: &[(usize, u16)]) -> (Config, &'static str) {
    let qtypes: Vec<u16> = keys.iter().map(|k| k.1).collect();
    let other: Vec<u16> = [T_CNAME, T_NS, T_SOA, T_A, T_AAAA, T_TXT].iter().copied().filter(|t| !qtypes.contains(t)).collect();
    let any_b = |rng: &mut Rng| match rng.below(6) {
        0 => gen_bounds_eq(rng),
        1 => gen_bounds_zero(rng),
        _ => gen_bounds(rng),
    };
    let shape = rng.weighted(&[8, 22, 8, 8, 20, 14, 12, 8]);
    let mut c = Config::default();
    let name = match shape {
        0 => "default",
        1 => {
            c.default = gen_bounds(rng);
            "global"
        }
        2 => {
            c.default = gen_bounds_eq(rng);
            "global_min_eq_max"
        }
        3 => {
            c.default = gen_bounds_zero(rng);
            "global_zero"
        }
        4 => {
            if rng.bool() {
                c.default = gen_bounds(rng);
            }
            c.by_type.push((*rng.pick(&qtypes), any_b(rng)));
            "override_qtype"
        }
        5 => {
            if rng.bool() {
                c.default = gen_bounds(rng);
            }
            c.by_type.push((*rng.pick(&other), any_b(rng)));
            "override_other"
        }
        6 => {
            c.default = any_b(rng);
            c.by_type.push((*rng.pick(&qtypes), any_b(rng)));
            for _ in 0..rng.range(1, 2) {
                let t = *rng.pick(&other);
                if !c.by_type.iter().any(|(x, _)| *x == t) {
                    c.by_type.push((t, any_b(rng)));
                }
            }
            "override_both"
        }
        _ => {
            // a maximum beyond what fits a u32 number of seconds ("no maximum")
            c.default = gen_bounds(rng);
            if rng.bool() {
                c.default.pos_max = Some(HUGE);
                c.default.neg_max = Some(HUGE);
            } else {
                let mut b = gen_bounds(rng);
                b.pos_max = Some(HUGE);
                b.neg_max = Some(HUGE);
                c.by_type.push((*rng.pick(&qtypes), b));
            }
            "huge_max"
        }
    };
    (c, name)
}

struct Gen {
    next_tag: u32,
    next_id: u16,
}

impl Gen {
    fn tag(&mut self) -> u32 {
        self.next_tag += 1;
        self.next_tag
    }
    fn slot(&mut self, rng: &mut Rng, slot: &'static str, rtype: u16, prev_ttl: &mut Option<u32>) -> Slot {
        let ttl = match *prev_ttl {
            Some(p) if rng.bool() => p,
            _ => gen_ttl(rng),
        };
        *prev_ttl = Some(ttl);
        Slot { slot, rtype, ttl, tag: self.tag() }
    }

    fn positive(&mut self, rng: &mut Rng, q: u16) -> View {
        self.next_id = self.next_id.wrapping_add(1);
        let mut slots = vec![];
        let mut prev = None;
        let other_of = |rng: &mut Rng| loop {
            let t = *rng.pick(&[T_A, T_AAAA, T_TXT, T_MX, T_NS, T_PTR, T_SOA]);
            if t != q {
                return t;
            }
        };
        let shape = rng.weighted(&[40, 25, 10, 12, 13]);
        match shape {
            0 => {
                for _ in 0..rng.range(1, 3) {
                    slots.push(self.slot(rng, "answer", q, &mut prev));
                }
            }
            1 => {
                for _ in 0..rng.range(1, 2) {
                    let mut p = None;
                    slots.push(self.slot(rng, "answer", T_CNAME, &mut p));
                }
                for _ in 0..rng.range(0, 2) {
                    slots.push(self.slot(rng, "answer", q, &mut prev));
                }
            }
            2 => {
                for _ in 0..rng.range(0, 2) {
                    let t = other_of(rng);
                    slots.push(self.slot(rng, "answer", t, &mut prev));
                }
            }
            3 => {
                slots.push(self.slot(rng, "answer", q, &mut prev));
                let t = other_of(rng);
                let mut p = None;
                slots.push(self.slot(rng, "answer", t, &mut p));
                if rng.bool() {
                    slots.push(self.slot(rng, "answer", q, &mut prev));
                }
            }
            _ => {} // the query type appears only outside the answer section (below)
        }
        let force_outside = shape == 4;
        for i in 0..rng.range(if force_outside { 1 } else { 0 }, 2) {
            let t = if (force_outside && i == 0) || rng.chance(1, 8) { q } else { *rng.pick(&[T_NS, T_SOA, T_NS]) };
            let mut p = None;
            slots.push(self.slot(rng, "authority", t, &mut p));
        }
        for _ in 0..rng.range(0, 3) {
            let t = match rng.below(10) {
                0 => q,
                1 => T_CNAME,
                2..=5 => T_A,
                6..=7 => T_AAAA,
                _ => T_TXT,
            };
            let mut p = None;
            slots.push(self.slot(rng, "additional", t, &mut p));
        }
        View { negative: false, head: self.next_id as u32, slots }
    }

    fn negative(&mut self, rng: &mut Rng) -> View {
        let mut slots = vec![];
        if rng.chance(3, 4) {
            slots.push(Slot { slot: "negative_ttl", rtype: 0, ttl: gen_ttl(rng), tag: 0 });
        }
        // every negative entry carries at least one tagged slot so that inserts are distinguishable
        let mut p = None;
        if rng.chance(3, 5) {
            slots.push(self.slot(rng, "soa", T_SOA, &mut p));
        }
        let n_auth = rng.range(if slots.iter().any(|s| s.slot == "soa") { 0 } else { 1 }, 2);
        for _ in 0..n_auth {
            let t = *rng.pick(&[T_NS, T_SOA]);
            slots.push(self.slot(rng, "neg_authority", t, &mut p));
        }
        if rng.chance(1, 4) {
            slots.push(self.slot(rng, "ns", T_NS, &mut p));
            for _ in 0..rng.range(0, 2) {
                let t = if rng.bool() { T_A } else { T_AAAA };
                slots.push(self.slot(rng, "glue", t, &mut p));
            }
        }
        View { negative: true, head: rng.below(2) as u32, slots }
    }
}

fn gen_advance(rng: &mut Rng, ex: &Exec, focus: &mut Option<usize>) -> u64 {
    let live: Vec<(usize, u64, u64)> = ex
        .model
        .slots
        .iter()
        .enumerate()
        .filter_map(|(k, s)| s.as_ref().map(|s| (k, s)))
        .filter(|(_, s)| !s.cleared && ex.now <= s.soft_deadline())
        .map(|(k, s)| (k, s.t0, s.soft_deadline()))
        .collect();
    let kind = rng.weighted(&[8, 24, 16, 10, 6, 10, 5, 15, 4, 2]);
    if live.is_empty() || matches!(kind, 0 | 1 | 7 | 8 | 9) {
        return match kind {
            0 => 0,
            1 => rng.range(1, NS_PER_S - 1),
            8 => rng.range(10, 600) * NS_PER_S + rng.below(NS_PER_S),
            9 => rng.range(10_000, 200_000) * NS_PER_S,
            _ => rng.range(1, 5) * NS_PER_S + if rng.bool() { rng.below(NS_PER_S) } else { 0 },
        };
    }
    let (k, t0, dl) = *rng.pick(&live);
    *focus = Some(k);
    let target = match kind {
        2 => dl,
        3 => dl.saturating_add(1),
        4 => dl.saturating_sub(1),
        5 | 6 => {
            // next whole-second boundary of the entry's age (where reported TTLs step)
            let age_s = (ex.now - t0) / NS_PER_S;
            let b = t0 + (age_s + 1) * NS_PER_S;
            if kind == 5 {
                b
            } else {
                b - 1
            }
        }
        _ => dl,
    };
    target.saturating_sub(ex.now)
}

fn gen_case_header(rng: &mut Rng) -> Case {
    let nkeys = rng.urange(1, 4);
    let mut keys: Vec<(usize, u16)> = vec![];
    while keys.len() < nkeys {
        let k = (rng.usize_below(NAMES.len()), *rng.pick(&QTYPES));
        if !keys.contains(&k) {
            keys.push(k);
        }
    }
    let (cfg, shape) = gen_config(rng, &keys);
    let capacity = if rng.chance(1, 10) { rng.range(1, 2) } else { rng.range(16, 1000) };
    Case { cfg, shape: shape.to_string(), capacity, future_base: !rng.chance(1, 4), keys, ops: vec![] }
}

// ---------------------------------------------------------------------------------------------
// accounting

struct Acct {
    live_gets: u64,
    unexpected_none: u64,
    /// witnesses are only minimised for the first few occurrences of a signature (the reporter
    /// keeps 3 per signature anyway)
    seen: std::collections::HashMap<String, u32>,
}

fn report_findings(rep: &mut Reporter, acct: &mut Acct, case: &Case, op_index: usize, key: Option<usize>, findings: &[Finding]) {
    for f in findings {
        let n = acct.seen.entry(format!("{}|{}", f.rule, f.sig)).or_insert(0);
        *n += 1;
        if *n > 200 {
            // the reporter lists at most 10 000 violations per shard; a defect that fires on every other
            // get must not crowd the signatures of the other observation points (M2) out of that list
            rep.count("violations_not_listed");
            continue;
        }
        let w = if *n <= 3 { witness_case(case, op_index, key, f.rule, &f.sig) } else { json!({"omitted": "witness kept only for the first occurrences"}) };
        rep.violation(f.rule, &f.sig, w, f.expected.clone(), f.observed.clone());
    }
}

fn account(rep: &mut Reporter, acct: &mut Acct, case: &Case, cfg_hash: u64, op_index: usize, key: usize, o: GetOutcome) {
    rep.eval();
    rep.count("gets");
    let j = &o.j;
    if j.nontrivial {
        rep.nontrivial(o.case_hash ^ cfg_hash);
        rep.count("gets_on_inserted_key");
    }
    let small_cap = (case.capacity as usize) < case.keys.len() + 2;
    if j.opaque {
        rep.count("m1/gets_dont_care");
        rep.count(if matches!(o.obs, Obs::None) { "m1/dont_care_none" } else { "m1/dont_care_some" });
    }
    if let Some(l) = o.after_up_transient {
        rep.count("m1/gets_after_transient_class");
        rep.count(&format!("m1/get_after/{l}"));
        if matches!(o.obs, Obs::None) {
            rep.count(&format!("m1/not_cached/{l}"));
        }
    }
    if !j.labels.is_empty() {
        if j.hit {
            rep.count("m1/hits");
            if j.elapsed_s > 0 {
                rep.count("m1/hits_aged_ge_1s");
            }
            if j.at_deadline {
                rep.count("m1/hits_exactly_at_deadline");
            }
            for l in &j.labels {
                rep.count(&format!("m1/hit/{l}"));
            }
        }
        if j.expired_miss {
            rep.count("m1/expiries");
            rep.count(&format!("m1/expired/{}", j.labels[0]));
        }
        if j.unexpected_none && !small_cap && !o.wallclock_passed {
            rep.count("m1/unexpected_none");
        }
    }
    if j.older_entry_served {
        rep.count("dontcare/older_entry_served");
    }
    if j.hit {
        rep.count("hits");
        rep.count(if j.neg_hit { "hits_negative" } else { "hits_positive" });
        if o.after_transient {
            rep.count("hits_after_transient_insert");
        }
        if j.at_deadline {
            rep.count("hits_exactly_at_deadline");
        }
        if j.elapsed_s > 0 {
            rep.count("hits_aged_ge_1s");
        }
        rep.count(&format!("hits_shape/{}", case.shape));
        let mut seen: Vec<&str> = vec![];
        for c in &j.classes {
            if !seen.contains(c) {
                seen.push(c);
                rep.count(c);
            }
        }
        if !small_cap {
            acct.live_gets += 1;
        }
        rep.max("max_elapsed_s_on_hit", j.elapsed_s as f64);
    }
    if j.expired_miss {
        rep.count("expiries");
    }
    if matches!(o.obs, Obs::None) && !j.nontrivial {
        rep.count("miss_never_inserted");
        if o.after_transient {
            rep.count("none_after_only_transient");
        }
    }
    if j.unexpected_none {
        if small_cap {
            rep.count("none_live_smallcap");
        } else if o.wallclock_passed {
            rep.count("none_live_wallclock");
        } else {
            rep.count("unexpected_none");
            if std::env::var_os("C15_DEBUG").is_some() {
                let tail: Vec<_> = case.ops[op_index.saturating_sub(6)..=op_index].iter().map(|o| o.to_json().to_string()).collect();
                eprintln!("UNEXPECTED_NONE shape={} cap={} future={} key={} tail={}", case.shape, case.capacity, case.future_base, key, tail.join(" "));
            }
            if o.after_transient {
                rep.count("unexpected_none_after_transient");
            }
            acct.live_gets += 1;
            acct.unexpected_none += 1;
        }
    }
    if j.hit {
        rep.sample(|| {
            json!({
                "config": case.cfg.to_json(), "key": [NAMES[case.keys[key].0 % NAMES.len()], case.keys[key].1],
                "elapsed_s": j.elapsed_s, "result": o.obs.to_json(),
            })
        });
    }
    report_findings(rep, acct, case, op_index, Some(key), &o.j.findings);
}

fn run_generated_history(rep: &mut Reporter, acct: &mut Acct, rng: &mut Rng, nops: usize) {
    let mut case = gen_case_header(rng);
    let cfg_hash = fnv64(case.cfg.to_json().to_string().as_bytes());
    let mut ex = Exec::new(&case);
    // adapter self-test: the real TtlConfig holds the bounds the model holds
    {
        let real_cfg = mk_ttl_config(&case.cfg);
        if let Some(m) = config_roundtrip_mismatch(&case.cfg, &real_cfg, &[T_A, T_NS, T_CNAME, T_SOA, T_MX, T_TXT, T_AAAA, T_PTR]) {
            if real::built_via_opts(&case.cfg) {
                // TtlConfig::from_opts is code under test: the bounds an application sets in
                // ResolverOpts must be the bounds the cache applies
                rep.violation("config-from-opts", m.split(':').next().unwrap_or("bounds").split(" for ").next().unwrap_or("bounds"), json!({"config": case.cfg.to_json()}), json!("TtlConfig::from_opts holds the configured bounds"), json!(m));
            } else {
                rep.inconclusive(&format!("harness: config adapter mismatch: {m}"));
            }
            return;
        }
    }
    rep.count("histories");
    rep.count(if real::built_via_opts(&case.cfg) { "config_built/from_opts" } else { "config_built/deserialize" });
    rep.count(&format!("config_shape/{}", case.shape));
    rep.count(if case.future_base { "base/future" } else { "base/now" });
    let mut g = Gen { next_tag: 0, next_id: rng.u16() };
    let mut focus: Option<usize> = None;
    let nk = case.keys.len();
    for i in 0..nops {
        let op = if let (Some(k), true) = (focus, rng.chance(4, 5)) {
            focus = None;
            Op::Get(k)
        } else {
            focus = None;
            match rng.weighted(&[38, 17, 8, 8, 24, 2, 8]) {
                6 => {
                    let k = rng.usize_below(nk);
                    let qname = vh::refwire::labels_of(NAMES[case.keys[k].0 % NAMES.len()]);
                    if rng.chance(1, 3) {
                        focus = Some(k);
                    }
                    Op::Up(k, upstream::gen_upstream(rng, &qname, case.keys[k].1, &mut || g.tag(), &mut gen_ttl))
                }
                0 => Op::Get(rng.usize_below(nk)),
                1 => {
                    let k = rng.usize_below(nk);
                    Op::Ins(k, g.positive(rng, case.keys[k].1))
                }
                2 => Op::Ins(rng.usize_below(nk), g.negative(rng)),
                3 => {
                    let k = rng.usize_below(nk);
                    if rng.bool() {
                        focus = Some(k);
                    }
                    Op::Transient(k, *rng.pick(&TRANSIENT_KINDS))
                }
                4 => Op::Adv(gen_advance(rng, &ex, &mut focus)),
                _ => Op::Clear,
            }
        };
        match &op {
            Op::Ins(_, v) => {
                rep.count(if v.negative { "inserts_negative" } else { "inserts_positive" });
            }
            Op::Transient(_, kind) => {
                rep.count("inserts_transient");
                rep.count(&format!("transient/{kind}"));
            }
            Op::Clear => rep.count("clears"),
            Op::Up(..) => {}
            Op::Adv(ns) => {
                rep.count(if *ns == 0 {
                    "advance/zero"
                } else if *ns < NS_PER_S {
                    "advance/subsecond"
                } else {
                    "advance/seconds"
                });
            }
            Op::Get(_) => {}
        }
        case.ops.push(op.clone());
        let key = match &op {
            Op::Get(k) | Op::Ins(k, _) | Op::Transient(k, _) | Op::Up(k, _) => *k,
            _ => 0,
        };
        let applied = ex.apply(&op);
        if let Some(u) = ex.last_up.take() {
            rep.count("m1/cases");
            rep.count(&format!("m1/class/{}", u.label));
            rep.count(&format!("m1/model/{}", u.class));
            rep.count(&format!("m1/hickory/{}", u.outcome));
            for f in &u.features {
                rep.count(&format!("m1/feature/{f}"));
            }
            if let Op::Up(_, wire) = &op {
                rep.sample(|| json!({"m1": upstream::describe(wire), "class": u.label, "model": u.class, "hickory": u.outcome}));
            }
        }
        if let Some(o) = applied {
            if matches!(op, Op::Get(_)) {
                account(rep, acct, &case, cfg_hash, i, key, o);
            } else {
                report_findings(rep, acct, &case, i, None, &o.j.findings);
            }
        }
    }
    rep.add("ops", nops as u64);
}

fn replay_history(rep: &mut Reporter, case: &Case) {
    // the witness is the case as given (no re-minimisation during replay)
    let mut ex = Exec::new(case);
    for (i, op) in case.ops.iter().enumerate() {
        if let Some(o) = ex.apply(op) {
            if matches!(op, Op::Get(_)) {
                rep.eval();
            }
            for f in &o.j.findings {
                rep.violation(f.rule, &f.sig, case.to_json(i + 1), f.expected.clone(), f.observed.clone());
            }
        }
    }
}

fn m1_musts(rep: &mut Reporter, thorough: bool) {
    // the thorough tier runs about twice the operations of the quick tier at its driver scale (quick_scale 6)
    let m = |q: u64| if thorough { q * 2 } else { q };
    rep.must("m1/cases", m(300_000));
    rep.must("m1/hits", m(200_000));
    rep.must("m1/hits_aged_ge_1s", m(50_000));
    rep.must("m1/hits_exactly_at_deadline", m(40_000));
    rep.must("m1/expiries", m(60_000));
    rep.must("m1/gets_after_transient_class", m(50_000));
    for c in [
        "nxdomain_with_soa",
        "nodata_with_soa",
        "nxdomain_no_soa",
        "nodata_no_soa",
        "referral",
        "answer",
        "answer_with_cname",
        "cname_chain_no_final",
        "other_types_only",
        "nxdomain_with_cname",
    ] {
        rep.must(&format!("m1/class/{c}"), m(8_000));
        rep.must(&format!("m1/hit/{c}"), m(8_000));
        rep.must(&format!("m1/expired/{c}"), m(1_000));
    }
    for c in ["servfail", "refused", "formerr", "notimp", "other_error_rcode", "tc_empty", "tc_answer", "not_a_response"] {
        rep.must(&format!("m1/class/{c}"), m(5_000));
        rep.must(&format!("m1/not_cached/{c}"), m(1_000));
    }
    for c in ["no_question", "question_mismatch", "two_questions", "unassigned_rcode"] {
        rep.must(&format!("m1/class/{c}"), m(2_000));
    }
    for f in [
        "soa_ttl_lt_minimum",
        "soa_ttl_gt_minimum",
        "soa_ttl_eq_minimum",
        "soa_at_qname",
        "soa_above_qname",
        "soa_unrelated",
        "two_soa",
        "ns_and_soa",
        "ns_no_soa",
        "ns_with_glue",
        "ns_without_glue",
        "soa_outside_authority",
        "soa_only_in_additional",
        "qtype_outside_answer",
    ] {
        rep.must(&format!("m1/hit/{f}"), m(if f == "soa_only_in_additional" { 1_500 } else { 8_000 }));
    }
}

fn main() {
    let ctx = Ctx::from_args("C15");
    mon::install_panic_monitor();
    let mut rep = Reporter::new(&ctx);

    if let Some(w) = ctx.replay_case() {
        let c = &w["case"];
        if c["mode"].as_str() == Some("stress") {
            stress::replay(&mut rep, c);
        } else if c["mode"].as_str() == Some("m2") {
            m2::replay(&mut rep, c);
        } else {
            let case = Case::from_json(c);
            if case.keys.is_empty() {
                eprintln!("replay: case has no keys");
                std::process::exit(3);
            }
            replay_history(&mut rep, &case);
        }
        rep.replay_finish();
    }

    // must-observe (totals over all shards; quick tier observes ≥ 3× these at seeds 1..5)
    let t = ctx.is_thorough();
    let m = |q: u64| if t { q * 20 } else { q };
    rep.must("gets_on_inserted_key", m(100_000));
    rep.must("hits", m(50_000));
    rep.must("hits_negative", m(5_000));
    rep.must("hits_aged_ge_1s", m(10_000));
    rep.must("hits_exactly_at_deadline", m(1_000));
    rep.must("hits_after_transient_insert", m(1_000));
    rep.must("expiries", m(20_000));
    rep.must("inserts_transient", m(20_000));
    for k in TRANSIENT_KINDS {
        rep.must(&format!("transient/{k}"), m(1_000));
    }
    rep.must("clears", m(1_000));
    for c in [
        "cfg/min_gt_ttl",
        "cfg/max_lt_ttl",
        "cfg/min_eq_max",
        "cfg/zero",
        "cfg/override_qtype",
        "cfg/override_other",
        "cfg/neg_min_gt_ttl",
        "cfg/neg_max_lt_ttl",
        "cfg/neg_min_eq_max",
        "cfg/neg_override",
        "cfg/neg_zero",
        "cfg/neg_nottl",
        "L/raw",
        "L/clamped_up",
        "L/clamped_down",
        "L/nomatch",
    ] {
        rep.must(c, m(500));
    }
    for s in ["default", "global", "global_min_eq_max", "global_zero", "override_qtype", "override_other", "override_both", "huge_max"] {
        rep.must(&format!("hits_shape/{s}"), m(500));
    }

    m2::musts(&mut rep, t);
    m1_musts(&mut rep, t);
    // M2 runs in real time (mostly sleeping) on its own thread while the histories run here; its
    // verdicts only depend on instants measured around each call, not on how the threads are scheduled
    let m2_thread = {
        let ctx = ctx.clone();
        std::thread::Builder::new().name("m2".into()).spawn(move || m2::run(&ctx)).expect("spawn m2")
    };

    let mut rng = ctx.rng("histories");
    let mut acct = Acct { live_gets: 0, unexpected_none: 0, seen: Default::default() };
    let budget = ctx.budget(12_000_000, 150_000_000);
    let mut done = 0u64;
    while done < budget {
        let nops = rng.urange(50, 500);
        run_generated_history(&mut rep, &mut acct, &mut rng, nops);
        done += nops as u64;
    }
    rep.note("live_gets_large_capacity", json!(acct.live_gets));
    rep.note("unexpected_none_large_capacity", json!(acct.unexpected_none));
    if acct.unexpected_none * 100 > acct.live_gets {
        // numbers are in the notes / counters; the reason text is kept stable so that shards merge
        rep.inconclusive(
            "unexpected_none > 1 % of live gets at large capacity: the cache drops live entries (see counters unexpected_none, unexpected_none_after_transient); expiry clauses were not observable",
        );
    }

    match m2_thread.join() {
        Ok(out) => m2::merge(&mut rep, out),
        Err(_) => rep.inconclusive("harness: the M2 thread panicked outside the code under test"),
    }

    // threaded stress: full size in the thorough tier, a small share on every quick run
    // (`--stress=1` forces it, used by the tsan flavour)
    stress::run(&ctx, &mut rep);

    std::process::exit(rep.finish().min(0));
}
