//! Clauses 1 and 2: identity, hashing, total order, canonical order — judged on whole families
//! (k×k comparison matrix, all triples).

use std::cmp::Ordering;
use std::collections::hash_map::DefaultHasher;
use std::hash::{Hash, Hasher};

use hickory_proto::rr::{LowerName, Name, RecordType, RrKey};
use serde_json::{json, Value};

use vh::mon;
use vh::prng::fnv64;

use crate::common::{build_checked, labels_of, Ck};
use crate::refname::{fold_labels, relation, RName};

fn std_hash<T: Hash>(t: &T) -> u64 {
    let mut h = DefaultHasher::new();
    t.hash(&mut h);
    h.finish()
}

fn ord_s(o: Ordering) -> &'static str {
    match o {
        Ordering::Less => "Less",
        Ordering::Equal => "Equal",
        Ordering::Greater => "Greater",
    }
}

fn fam_case(members: &[(&RName, &str)]) -> Value {
    json!({"kind": "family", "names": members.iter().map(|(r, c)| { let mut j = r.to_json(); j["ctor"] = json!(c); j }).collect::<Vec<_>>()})
}

pub fn family_from_case(c: &Value) -> Vec<(RName, String)> {
    c["names"].as_array().map(|a| a.iter().filter_map(|j| Some((RName::from_json(j)?, j["ctor"].as_str().unwrap_or("from_labels").to_string()))).collect()).unwrap_or_default()
}

/// Evaluate every law on the family. `fam[i].1` names the constructor used for member i.
pub fn check_family(ck: &mut Ck, fam: &[(RName, String)]) {
    // build (fidelity of construction is judged inside build_checked)
    let mut refs: Vec<&RName> = Vec::new();
    let mut ctors: Vec<&str> = Vec::new();
    let mut names: Vec<Name> = Vec::new();
    for (r, c) in fam {
        if !r.valid() {
            continue;
        }
        let mut built = build_checked(ck, r, c);
        let mut used = c.as_str();
        if built.is_none() && c != "from_labels" {
            built = build_checked(ck, r, "from_labels");
            used = "from_labels";
        }
        if let Some(n) = built {
            refs.push(r);
            ctors.push(used);
            names.push(n);
        }
    }
    let k = names.len();
    if k == 0 {
        return;
    }
    ck.rep.count("families");
    ck.rep.add("names_in_families", k as u64);

    // observe: one pass under the panic monitor
    struct Obs {
        cmp: Vec<Ordering>,
        pcmp_ok: Vec<bool>,
        eq: Vec<bool>,
        hash: Vec<u64>,
        lower: Vec<LowerName>,
        lcmp: Vec<Ordering>,
        leq: Vec<bool>,
        lhash: Vec<u64>,
        kcmp: Vec<Ordering>,
        keq: Vec<bool>,
        khash: Vec<u64>,
    }
    let obs = mon::catch(|| {
        let lower: Vec<LowerName> = names.iter().map(LowerName::new).collect();
        let keys: Vec<RrKey> = lower.iter().map(|l| RrKey::new(l.clone(), RecordType::A)).collect();
        let mut o = Obs {
            cmp: Vec::with_capacity(k * k),
            pcmp_ok: Vec::with_capacity(k * k),
            eq: Vec::with_capacity(k * k),
            hash: names.iter().map(std_hash).collect(),
            lcmp: Vec::with_capacity(k * k),
            leq: Vec::with_capacity(k * k),
            lhash: lower.iter().map(std_hash).collect(),
            kcmp: Vec::with_capacity(k * k),
            keq: Vec::with_capacity(k * k),
            khash: keys.iter().map(std_hash).collect(),
            lower: Vec::new(),
        };
        for i in 0..k {
            for j in 0..k {
                let c = names[i].cmp(&names[j]);
                o.cmp.push(c);
                o.pcmp_ok.push(names[i].partial_cmp(&names[j]) == Some(c) && (names[i] < names[j]) == (c == Ordering::Less) && (names[i] != names[j]) != (names[i] == names[j]));
                o.eq.push(names[i] == names[j]);
                o.lcmp.push(lower[i].cmp(&lower[j]));
                o.leq.push(lower[i] == lower[j]);
                o.kcmp.push(keys[i].cmp(&keys[j]));
                o.keq.push(keys[i] == keys[j]);
            }
        }
        o.lower = lower;
        o
    });
    let members: Vec<(&RName, &str)> = refs.iter().copied().zip(ctors.iter().copied()).collect();
    let obs = match obs {
        Ok(o) => o,
        Err(p) => {
            ck.rep.eval();
            ck.fail("panic", &format!("compare|{}", p.site()), fam_case(&members), json!("no panic"), json!({"panic": p.message, "at": p.location}));
            return;
        }
    };
    let at = |i: usize, j: usize| i * k + j;
    let pair_case = |i: usize, j: usize| fam_case(&[members[i], members[j]]);

    // LowerName must be the folded name
    for i in 0..k {
        let l: &Name = &obs.lower[i];
        if labels_of(l) != fold_labels(&refs[i].labels) || l.is_fqdn() != refs[i].fqdn {
            ck.fail("lower-name", "content", fam_case(&[members[i]]), json!(fold_labels(&refs[i].labels).iter().map(|x| mon::hex(x)).collect::<Vec<_>>()), crate::common::to_rname(l).to_json());
        }
    }

    for i in 0..k {
        for j in 0..k {
            ck.rep.eval();
            let (a, b) = (refs[i], refs[j]);
            let rel = relation(a, b);
            let same = a.same(b);
            let both_fqdn = a.fqdn && b.fqdn;
            let c = obs.cmp[at(i, j)];
            let e = obs.eq[at(i, j)];
            if i < j {
                ck.rep.count("pairs");
                ck.rep.count(&format!("relation/{rel}"));
                if rel == "case-only" {
                    ck.rep.count("pairs_case_only");
                }
                if both_fqdn {
                    ck.rep.count("pairs_both_fqdn");
                }
                if a != b && (a.labels.len() >= 2 || b.labels.len() >= 2) {
                    let mut h = a.case_bytes();
                    h.extend_from_slice(&b.case_bytes());
                    ck.rep.nontrivial(fnv64(&h));
                    ck.rep.count("pairs_nontrivial");
                }
            }
            // clause 1: identity
            if e != same {
                ck.fail("eq", rel, pair_case(i, j), json!(same), json!(e));
            }
            if e && obs.hash[i] != obs.hash[j] {
                ck.fail("hash", rel, pair_case(i, j), json!("equal names hash equally"), json!({"hash_a": obs.hash[i], "hash_b": obs.hash[j]}));
            }
            if same {
                ck.rep.count("equal_pairs_hash_checked");
            }
            // clause 2: order laws
            if (c == Ordering::Equal) != e {
                ck.fail("cmp-eq-consistency", rel, pair_case(i, j), json!("cmp == Equal iff a == b"), json!({"cmp": ord_s(c), "eq": e}));
            }
            if c != obs.cmp[at(j, i)].reverse() {
                ck.fail("cmp-antisymmetry", rel, pair_case(i, j), json!("cmp(a,b) == reverse(cmp(b,a))"), json!({"ab": ord_s(c), "ba": ord_s(obs.cmp[at(j, i)])}));
            }
            if !obs.pcmp_ok[at(i, j)] {
                ck.fail("partial-cmp", rel, pair_case(i, j), json!("partial_cmp / < / != agree with cmp / =="), json!({"cmp": ord_s(c)}));
            }
            if both_fqdn {
                let want = a.canon_cmp(b);
                ck.rep.count("canonical_order_checks");
                if c != want {
                    ck.fail("cmp-canonical", rel, pair_case(i, j), json!(ord_s(want)), json!(ord_s(c)));
                }
                // LowerName / RrKey: same identity and order on the folded form
                // (reported only when not merely a consequence of the Name / LowerName deviation)
                if obs.lcmp[at(i, j)] != want && c == want {
                    ck.fail("lower-name", &format!("cmp|{rel}"), pair_case(i, j), json!(ord_s(want)), json!(ord_s(obs.lcmp[at(i, j)])));
                }
                if obs.kcmp[at(i, j)] != want && obs.lcmp[at(i, j)] == want {
                    ck.fail("rr-key", &format!("cmp|{rel}"), pair_case(i, j), json!(ord_s(want)), json!(ord_s(obs.kcmp[at(i, j)])));
                }
            }
            // DONT-CARE: the *direction* of the order between an FQDN and a relative name, and
            // between two relative names, is not prescribed (RFC 4034 orders owner names, which are
            // fully qualified); the total-order laws above and below still apply to them.
            if obs.leq[at(i, j)] != same {
                ck.fail("lower-name", &format!("eq|{rel}"), pair_case(i, j), json!(same), json!(obs.leq[at(i, j)]));
            }
            if obs.leq[at(i, j)] && obs.lhash[i] != obs.lhash[j] {
                ck.fail("lower-name", &format!("hash|{rel}"), pair_case(i, j), json!("equal hash"), json!([obs.lhash[i], obs.lhash[j]]));
            }
            if (obs.lcmp[at(i, j)] == Ordering::Equal) != obs.leq[at(i, j)] || obs.lcmp[at(i, j)] != obs.lcmp[at(j, i)].reverse() {
                ck.fail("lower-name", &format!("order-laws|{rel}"), pair_case(i, j), json!("antisymmetric, Equal iff =="), json!({"ab": ord_s(obs.lcmp[at(i, j)]), "ba": ord_s(obs.lcmp[at(j, i)]), "eq": obs.leq[at(i, j)]}));
            }
            if obs.keq[at(i, j)] != same || (obs.keq[at(i, j)] && obs.khash[i] != obs.khash[j]) || (obs.kcmp[at(i, j)] == Ordering::Equal) != obs.keq[at(i, j)] {
                ck.fail("rr-key", &format!("eq-hash|{rel}"), pair_case(i, j), json!(same), json!({"eq": obs.keq[at(i, j)], "cmp": ord_s(obs.kcmp[at(i, j)])}));
            }
        }
    }

    // transitivity over all triples (≤ is transitive; strict if either leg is strict)
    let mut triples = 0u64;
    for i in 0..k {
        for j in 0..k {
            let ab = obs.cmp[at(i, j)];
            if ab == Ordering::Greater {
                continue;
            }
            for l in 0..k {
                let bc = obs.cmp[at(j, l)];
                if bc == Ordering::Greater {
                    continue;
                }
                triples += 1;
                let ac = obs.cmp[at(i, l)];
                let want_strict = ab == Ordering::Less || bc == Ordering::Less;
                let ok = if want_strict { ac == Ordering::Less } else { ac == Ordering::Equal };
                if !ok {
                    let sig = format!("{}/{}", relation(refs[i], refs[j]), relation(refs[j], refs[l]));
                    ck.fail("cmp-transitivity", &sig, fam_case(&[members[i], members[j], members[l]]), json!(if want_strict { "Less" } else { "Equal" }), json!({"ab": ord_s(ab), "bc": ord_s(bc), "ac": ord_s(ac)}));
                }
                // same law for LowerName
                let (lab, lbc, lac) = (obs.lcmp[at(i, j)], obs.lcmp[at(j, l)], obs.lcmp[at(i, l)]);
                if lab != Ordering::Greater && lbc != Ordering::Greater {
                    let strict = lab == Ordering::Less || lbc == Ordering::Less;
                    if (strict && lac != Ordering::Less) || (!strict && lac != Ordering::Equal) {
                        ck.fail("lower-name", "transitivity", fam_case(&[members[i], members[j], members[l]]), json!("transitive"), json!({"ab": ord_s(lab), "bc": ord_s(lbc), "ac": ord_s(lac)}));
                    }
                }
            }
        }
    }
    ck.rep.add("triples", triples);
    ck.rep.evals(triples);

    // sorting through std (uses Ord) must give the reference order on all-FQDN families
    if refs.iter().all(|r| r.fqdn) && k >= 3 {
        let sorted = mon::catch(|| {
            let mut v: Vec<&Name> = names.iter().collect();
            v.sort();
            let set: std::collections::BTreeSet<&Name> = names.iter().collect();
            (v.into_iter().map(|n| fold_labels(&labels_of(n))).collect::<Vec<_>>(), set.len())
        });
        let mut want: Vec<&RName> = refs.clone();
        want.sort_by(|a, b| a.canon_cmp(b));
        let want_f: Vec<Vec<Vec<u8>>> = want.iter().map(|r| r.folded()).collect();
        let mut distinct = want_f.clone();
        distinct.dedup();
        ck.rep.eval();
        ck.rep.count("sorted_families");
        match sorted {
            Ok((got, set_len)) => {
                if got != want_f {
                    ck.fail("cmp-canonical", "sort", fam_case(&members), json!(want.iter().map(|r| r.show()).collect::<Vec<_>>()), json!(got.iter().map(|l| vh::refwire::show(l)).collect::<Vec<_>>()));
                }
                if set_len != distinct.len() {
                    ck.fail("eq", "btreeset-size", fam_case(&members), json!(distinct.len()), json!(set_len));
                }
            }
            Err(p) => ck.fail("panic", &format!("sort|{}", p.site()), fam_case(&members), json!("no panic"), json!(p.message)),
        }
    }
}

/// the RFC's printed list must come out in the printed order (independent of `refname`)
pub fn check_rfc_list(ck: &mut Ck) {
    let ex = crate::refname::rfc4034_examples();
    let fam: Vec<(RName, String)> = ex.iter().map(|r| (r.clone(), "from_labels".to_string())).collect();
    let names: Vec<Name> = ex.iter().filter_map(|r| build_checked(ck, r, "from_labels")).collect();
    if names.len() != ex.len() {
        return;
    }
    for i in 0..names.len() {
        for j in 0..names.len() {
            ck.rep.eval();
            ck.rep.count("rfc_list_checks");
            let want = i.cmp(&j);
            let got = names[i].cmp(&names[j]);
            if got != want {
                ck.fail("cmp-canonical", "rfc4034-list", fam_case(&[(&ex[i], "from_labels"), (&ex[j], "from_labels")]), json!(ord_s(want)), json!(ord_s(got)));
            }
        }
    }
    check_family(ck, &fam);
}
