//! Observation point (D): `DnssecClient`. The client is made with its own builder
//! (`DnssecClient::builder(connect).trust_anchor(root KSK).build()`) over hickory's `DnsMultiplexer`
//! on a scripted in-memory `DnsClientStream` (pattern of the C16 check) whose peer is the honest
//! resolver emulation + tamper layer of `upstream.rs`. Judged: the `DnsResponse` / `NetError` its
//! handle yields, with the clauses of `oracle.rs`; rule ids carry the prefix `cli-`.
//!
//! `DnssecClient` is hard-wired to `TokioRuntimeProvider`, whose `Timer::current_time()` is the
//! wall clock: the hierarchy is therefore signed with windows [inception, inception + 50 years]
//! (keys, zone data, queries and faults are those of the case), see `widen`.
#![allow(dead_code)]

use std::collections::VecDeque;
use std::net::SocketAddr;
use std::pin::Pin;
use std::sync::{Arc, Mutex};
use std::task::{Context, Poll, Waker};
use std::time::Duration;

use futures::stream::{Stream, StreamExt};
use hickory_net::client::DnssecClient;
use hickory_net::xfer::{DnsClientStream, DnsHandle, StreamReceiver};
use hickory_net::{BufDnsStreamHandle, DnsError, DnsMultiplexer, NetError};
use hickory_proto::dnssec::{Algorithm, PublicKeyBuf, TrustAnchors};
use hickory_proto::op::{Message, Query, SerialMessage};
use hickory_proto::rr::RecordType;
use serde_json::{json, Value};

use vh::hk;
use vh::mon::{self, Reporter};
use vh::prng::{fnv64, Rng};

use crate::fault::{Attacker, Fault};
use crate::hier::Hier;
use crate::oracle::{self, Case, Observed, OutKind};
use crate::refzone::{self, fold, show};
use crate::upstream::{Exchange, Upstream};
use crate::world;
use crate::{Bench, QueryCase, Step, StepResult};

fn peer() -> SocketAddr {
    "192.0.2.53:53".parse().unwrap()
}

/// The hierarchy with every signature window widened to [inception, inception + 50 years]: the
/// windows of the generated hierarchies lie around the harness' virtual clock (2023), the client
/// judges them on the wall clock. 50 years stay below the 2^31 s that RFC 1982 serial arithmetic can
/// order, and the wall clock stays inside for as long as a witness is of interest, so a witness
/// (which carries records signed for these windows inside its faults) replays unchanged.
pub fn widen(h: &Hier) -> Hier {
    let mut h2 = h.clone();
    h2.expiration = h.inception.saturating_add(50 * 365 * 86_400);
    h2
}

// ---------------------------------------------------------------------------------------------
// the scripted stream: every query the multiplexer writes is answered at once by the upstream

#[derive(Clone, Copy)]
pub struct VTime;
#[async_trait::async_trait]
impl hickory_net::runtime::Time for VTime {
    async fn delay_for(d: Duration) {
        tokio::time::sleep(d).await
    }
    async fn timeout<F: 'static + std::future::Future + Send>(d: Duration, f: F) -> Result<F::Output, std::io::Error> {
        tokio::time::timeout(d, f).await.map_err(|_| std::io::Error::new(std::io::ErrorKind::TimedOut, "timeout"))
    }
}

struct Conn {
    rx: StreamReceiver,
    inbound: VecDeque<Vec<u8>>,
    waker: Option<Waker>,
    up: Upstream,
    undecodable_queries: u64,
}

struct ScriptedStream(Arc<Mutex<Conn>>);

impl Stream for ScriptedStream {
    type Item = Result<SerialMessage, NetError>;
    fn poll_next(self: Pin<&mut Self>, cx: &mut Context<'_>) -> Poll<Option<Self::Item>> {
        let mut s = self.0.lock().unwrap();
        // what the multiplexer wrote since the last poll
        while let Poll::Ready(Some(m)) = s.rx.poll_next_unpin(cx) {
            let bytes = m.into_parts().0;
            // hickory's own query, read with hickory's decoder (not under test here)
            let Ok(q) = Message::from_vec(&bytes) else {
                s.undecodable_queries += 1;
                continue;
            };
            let Some(qq) = q.queries.first() else { continue };
            let exact = hk::labels_of(&qq.name);
            let qtype = u16::from(qq.query_type);
            let dnssec = q.edns.as_ref().is_some_and(|e| e.flags().dnssec_ok);
            let (presented, _) = s.up.exchange(&fold(&exact), qtype, dnssec);
            let mut wire = world::wire(&exact, qtype, &presented, false);
            wire[0..2].copy_from_slice(&q.metadata.id.to_be_bytes());
            s.inbound.push_back(wire);
        }
        match s.inbound.pop_front() {
            Some(b) => Poll::Ready(Some(Ok(SerialMessage::new(b, peer())))),
            None => {
                s.waker = Some(cx.waker().clone());
                Poll::Pending
            }
        }
    }
}

impl DnsClientStream for ScriptedStream {
    type Time = VTime;
    fn name_server_addr(&self) -> SocketAddr {
        peer()
    }
}

fn err_obs(kind: OutKind) -> Observed {
    Observed { kind, rcode: 0, recs: vec![], alts: vec![], remapped: false }
}

/// Run a history of queries on ONE `DnssecClient` (fresh for this call).
pub fn run_steps(attacker: &Arc<Attacker>, b: &Bench, steps: &[Step]) -> Result<Vec<StepResult>, String> {
    let rt = tokio::runtime::Builder::new_current_thread().enable_time().start_paused(true).build().map_err(|e| e.to_string())?;
    let up = Upstream::new(b.world.clone(), attacker.clone());
    let t = b.truth();
    let mut ta = TrustAnchors::empty();
    ta.insert(&PublicKeyBuf::new(t.anchor.1.clone(), Algorithm::from_u8(t.anchor.0)));
    let mut out: Vec<StepResult> = Vec::new();
    let mut build_err: Option<String> = None;
    let caught = mon::catch(|| {
        rt.block_on(async {
            let (handle, rx) = BufDnsStreamHandle::new(peer());
            let conn = Arc::new(Mutex::new(Conn { rx, inbound: VecDeque::new(), waker: None, up: up.clone(), undecodable_queries: 0 }));
            let mux = DnsMultiplexer::new(ScriptedStream(conn.clone()), handle).with_timeout(Duration::from_secs(5)).with_max_active_requests(256);
            let (client, bg) = match DnssecClient::builder(futures::future::ready(Ok::<_, NetError>(mux))).trust_anchor(ta).build().await {
                Ok(x) => x,
                Err(e) => {
                    build_err = Some(format!("DnssecClient builder: {e}"));
                    return;
                }
            };
            let bg_task = tokio::spawn(bg);
            for st in steps {
                up.set_faults(st.faults.clone());
                let q = Query::new(hk::to_name(&st.qname).expect("qname"), RecordType::from(st.qtype));
                let r = tokio::time::timeout(Duration::from_secs(600), async { client.lookup(q, b.opts).next().await }).await;
                let (log, budget_exceeded) = up.take_log();
                let top = log.first().map(|e| &e.presented);
                let obs = match r {
                    Err(_) => err_obs(OutKind::Err("virtual timeout (600 s)".into())),
                    Ok(None) => err_obs(OutKind::Err("empty stream".into())),
                    Ok(Some(Ok(m))) => crate::observe_message(OutKind::Ok, &m, top),
                    Ok(Some(Err(e))) => match &e {
                        NetError::Dns(DnsError::Nsec { response, proof, .. }) => crate::observe_message(OutKind::ErrNsec(*proof), response, top),
                        other => err_obs(OutKind::Err(other.to_string().chars().take(100).collect())),
                    },
                };
                out.push(StepResult { obs, log, budget_exceeded });
            }
            drop(client);
            bg_task.abort();
        })
    });
    if let Some(e) = build_err {
        return Err(e);
    }
    if let Err(p) = caught {
        let (log, budget_exceeded) = up.take_log();
        out.push(StepResult { obs: err_obs(OutKind::Panic(format!("{} @ {}", p.message.chars().take(80).collect::<String>(), crate::crate_site(&p.site())))), log, budget_exceeded });
        while out.len() < steps.len() {
            out.push(StepResult { obs: err_obs(OutKind::Err("not run: an earlier step panicked".into())), log: vec![], budget_exceeded: false });
        }
    }
    Ok(out)
}

// ---------------------------------------------------------------------------------------------
// judging

pub struct CJudge<'a> {
    pub rep: &'a mut Reporter,
    pub attacker: Arc<Attacker>,
    /// the hierarchy as generated (the witness carries it as generated; replay widens it again)
    pub hier_json: Value,
    pub hier_hash: u64,
}

fn kind_base(kind: &str) -> String {
    kind.split(':').next().unwrap_or("").to_string()
}

fn alarms_of(b: &Bench, steps: &[Step], si: usize, res: &StepResult) -> Vec<oracle::Alarm> {
    let honest = steps[..=si].iter().all(|s| s.faults.is_empty());
    let c = Case { truth: b.truth(), world: &b.world, qname: &steps[si].qname, qtype: steps[si].qtype, obs: &res.obs, log: &res.log, fresh: steps.len() == 1, honest };
    oracle::judge(&c)
}

impl CJudge<'_> {
    /// (rule, detail) at the last step, and no alarm at any earlier step
    fn reproduces(&self, b: &Bench, steps: &[Step], rule: &str, detail: &str) -> bool {
        let Ok(rs) = run_steps(&self.attacker, b, steps) else { return false };
        let li = steps.len() - 1;
        if (0..li).any(|i| alarms_of(b, steps, i, &rs[i]).iter().any(|a| a.rule != "honest-rejected")) {
            return false;
        }
        alarms_of(b, steps, li, &rs[li]).iter().any(|a| a.rule == rule && a.detail == detail)
    }

    fn minimize(&mut self, b: &Bench, steps: &[Step], rule: &str, detail: &str) -> Vec<Step> {
        let mut cur = steps.to_vec();
        if cur.len() > 1 {
            let single = vec![cur.last().unwrap().clone()];
            if self.reproduces(b, &single, rule, detail) {
                cur = single;
            } else {
                let mut i = 0;
                while cur.len() > 2 && i + 1 < cur.len() {
                    let mut t = cur.clone();
                    t.remove(i);
                    if self.reproduces(b, &t, rule, detail) {
                        cur = t;
                    } else {
                        i += 1;
                    }
                }
            }
        }
        for si in (0..cur.len()).rev() {
            let mut fi = 0;
            while fi < cur[si].faults.len() {
                if cur.len() == 1 && cur[si].faults.len() == 1 {
                    break;
                }
                let mut t = cur.clone();
                t[si].faults.remove(fi);
                if self.reproduces(b, &t, rule, detail) {
                    cur = t;
                } else {
                    fi += 1;
                }
            }
        }
        // the same tampering in ONE query on a fresh client: if that is accepted too, the validation
        // cache plays no part
        if cur.len() > 1 {
            let last = cur.last().unwrap().clone();
            let mut all: Vec<Fault> = Vec::new();
            for s in &cur {
                for f in &s.faults {
                    if !all.contains(f) {
                        all.push(f.clone());
                    }
                }
            }
            let flat = vec![Step { faults: all, ..last }];
            if !flat[0].faults.is_empty() && self.reproduces(b, &flat, rule, detail) {
                cur = flat;
            }
        }
        let li = cur.len() - 1;
        if cur[li].faults.len() > 1 {
            for f in cur[li].faults.clone() {
                let mut t = cur.clone();
                t[li].faults = vec![f];
                if self.reproduces(b, &t, rule, detail) {
                    cur = t;
                    break;
                }
            }
        }
        for si in 0..cur.len() {
            for fi in 0..cur[si].faults.len() {
                let mut pi = 0;
                while cur[si].faults[fi].prims.len() > 1 && pi < cur[si].faults[fi].prims.len() {
                    let mut t = cur.clone();
                    t[si].faults[fi].prims.remove(pi);
                    if self.reproduces(b, &t, rule, detail) {
                        cur = t;
                    } else {
                        pi += 1;
                    }
                }
            }
        }
        self.rep.count("cli/violations_minimized");
        cur
    }

    pub fn judge(&mut self, b: &Bench, steps: &[Step], results: &[StepResult], workload: &str) {
        let mut earlier_alarm = false;
        for (si, (st, res)) in steps.iter().zip(results.iter()).enumerate() {
            let honest = steps[..=si].iter().all(|s| s.faults.is_empty());
            let alarms = alarms_of(b, steps, si, res);
            let real: Vec<&oracle::Alarm> = alarms.iter().filter(|a| a.rule != "honest-rejected").collect();
            if workload == "replay" && si + 1 < steps.len() {
                earlier_alarm |= !real.is_empty();
                continue;
            }
            self.rep.eval();
            self.rep.count("cli/queries");
            let outcome = crate::outcome_label(&res.obs);
            self.rep.count(&format!("cli/outcome/{}/{}", if st.faults.is_empty() { if honest { "honest" } else { "honest-after-tampering" } } else { "tampered" }, outcome));
            if honest && outcome == "ok-secure" {
                self.rep.count("cli/secure");
            }
            if honest && outcome == "ok-insecure" {
                self.rep.count("cli/insecure");
            }
            if res.log.len() >= 3 {
                let h = fnv64(format!("cli|{}|{}", self.hier_hash, serde_json::to_string(&steps[..=si].iter().map(|s| s.to_json()).collect::<Vec<_>>()).unwrap()).as_bytes());
                self.rep.nontrivial(h);
            }
            for f in &st.faults {
                self.rep.count(&format!("cli/tampered_runs/{}", kind_base(&f.kind)));
            }
            for a in &alarms {
                self.rep.count(&format!("cli/alarms_raw/{}", a.rule));
                if a.rule == "honest-rejected" {
                    self.rep.count(&format!("cli/info_honest_rejected/{}", a.detail));
                }
            }
            if si > 0 && earlier_alarm && !real.is_empty() {
                // the tampering of an earlier step was accepted there (and reported there): what it
                // left in the validation cache is not a defect of its own
                self.rep.count("cli/info_alarm_after_accepted_tampering_not_reported");
            } else {
                for a in &real {
                    let needs_min = si > 0 || st.faults.len() > 1 || st.faults.iter().any(|f| f.prims.len() > 1);
                    let min_steps = if needs_min { self.minimize(b, &steps[..=si], a.rule, &a.detail) } else { steps[..=si].to_vec() };
                    let last = min_steps.last().unwrap();
                    let sig = if a.rule == "validator-panic" {
                        a.detail.split_whitespace().collect::<Vec<_>>().join(" ")
                    } else if min_steps.len() > 1 {
                        format!("{}|via-history:{}|{}", a.detail, crate::fault_kinds(min_steps.iter().flat_map(|s| s.faults.iter().map(|f| f.kind.as_str()))), if last.faults.is_empty() { "honest-step-after-rejected-tampering" } else { "tampered-step" })
                    } else if last.faults.is_empty() {
                        let zi = b.truth().responsible(&last.qname, last.qtype);
                        let z = &b.truth().zones[zi];
                        format!("{}|honest|{}|{}", a.detail, b.world.honest(&last.qname, last.qtype, true).kind, if !z.spec.signed { "unsigned" } else if z.spec.nsec3.is_some() { "nsec3" } else { "nsec" })
                    } else if last.faults.len() > 1 {
                        format!("{}|multi-fault:{}", a.detail, crate::fault_kinds(last.faults.iter().map(|f| f.kind.as_str())))
                    } else {
                        format!("{}|{}|{}", a.detail, last.faults[0].kind, last.faults[0].link)
                    };
                    let (obs_json, ex_json) = match run_steps(&self.attacker, b, &min_steps) {
                        Ok(rs) => {
                            let r = rs.last().unwrap();
                            (r.obs.to_json(), r.log.iter().map(|e| format!("{} {}{}", show(&e.qname), refzone::type_name(e.qtype), if e.presented != e.honest { " (tampered)" } else { "" })).collect::<Vec<_>>())
                        }
                        Err(e) => (json!(e), vec![]),
                    };
                    let case = json!({"mode": "cli", "hier": self.hier_json, "steps": min_steps.iter().map(|s| s.to_json()).collect::<Vec<_>>(), "workload": workload, "note": "signature windows are widened to inception + 50 years (the client reads the wall clock)"});
                    self.rep.violation(&format!("cli-{}", a.rule), &sig, case, a.expected.clone(), json!({"alarm": a.observed, "outcome": obs_json, "upstream_exchanges": ex_json}));
                }
            }
            earlier_alarm |= !real.is_empty();
        }
    }
}

pub struct CParams {
    pub n_queries: usize,
    pub cap_single: usize,
    pub n_hist: usize,
}

/// `h`: the hierarchy as generated; `queries`: the hierarchy's query list
pub fn workload(rep: &mut Reporter, attacker: &Arc<Attacker>, h: &Hier, hier_hash: u64, queries: &[QueryCase], attacker_tags: &[u16], p: &CParams) {
    let b = Bench::new(&widen(h));
    let mut j = CJudge { rep, attacker: attacker.clone(), hier_json: h.to_json(), hier_hash };
    let mut rng = Rng::new(hier_hash ^ fnv64(b"cli/queries"));
    let mut qs: Vec<QueryCase> = queries.to_vec();
    rng.shuffle(&mut qs);
    qs.truncate(p.n_queries);
    j.rep.count("cli/hierarchies");
    let mut recorded: Vec<(QueryCase, Vec<Exchange>)> = Vec::new();
    let mut pool = Vec::new();
    let mut tops: Vec<Exchange> = Vec::new();
    for q in &qs {
        // honest, and once more on the same client (validation cache)
        let steps = vec![Step { qname: q.qname.clone(), qtype: q.qtype, faults: vec![] }, Step { qname: q.qname.clone(), qtype: q.qtype, faults: vec![] }];
        let results = match run_steps(attacker, &b, &steps) {
            Ok(r) => r,
            Err(e) => {
                j.rep.inconclusive(&format!("DnssecClient point: {e}"));
                return;
            }
        };
        j.judge(&b, &steps, &results, "cli-honest");
        let ex = crate::distinct_exchanges(&results[0].log);
        if ex.is_empty() {
            continue;
        }
        for e in &ex {
            for r in &e.honest.recs {
                if !pool.contains(r) {
                    pool.push(r.clone());
                }
            }
            if !tops.iter().any(|x| x.qname == e.qname && x.qtype == e.qtype) {
                tops.push(e.clone());
            }
        }
        recorded.push((q.clone(), ex));
    }
    for (qi, (q, ex)) in recorded.iter().enumerate() {
        let stage = |label: &str, k: u64| Rng::new(hier_hash ^ fnv64(format!("cli/{qi}/{label}/{k}").as_bytes()));
        let mut rng = stage("single", 0);
        let mut all: Vec<Fault> = crate::local_faults(&mut rng, ex, true, &pool, &tops, false);
        all.extend(crate::chain_faults(&mut rng, &b, q, ex, attacker_tags));
        let chosen = crate::rec::sample_stratified(&mut rng, &all, p.cap_single, |f| (kind_base(&f.kind), f.link.clone()));
        for f in &chosen {
            let steps = vec![Step { qname: q.qname.clone(), qtype: q.qtype, faults: vec![f.clone()] }];
            let Ok(results) = run_steps(attacker, &b, &steps) else { continue };
            j.judge(&b, &steps, &results, "cli-single-fault");
        }
        for hn in 0..p.n_hist {
            let mut rng = stage("history", hn as u64);
            let f = rng.pick(&all).clone();
            let honest = Step { qname: q.qname.clone(), qtype: q.qtype, faults: vec![] };
            let tampered = Step { qname: q.qname.clone(), qtype: q.qtype, faults: vec![f] };
            let steps = if hn % 2 == 0 { vec![tampered, honest] } else { vec![honest.clone(), tampered, honest] };
            let Ok(results) = run_steps(attacker, &b, &steps) else { continue };
            j.rep.count("cli/history_runs");
            j.judge(&b, &steps, &results, "cli-history");
        }
    }
}

pub fn replay(rep: &mut Reporter, attacker: &Arc<Attacker>, h: &Hier, c: &Value) {
    let steps: Vec<Step> = c["steps"].as_array().map(|a| a.iter().filter_map(Step::from_json).collect()).unwrap_or_default();
    if steps.is_empty() {
        eprintln!("bad replay case: no steps");
        return;
    }
    let b = Bench::new(&widen(h));
    let mut j = CJudge { rep, attacker: attacker.clone(), hier_json: h.to_json(), hier_hash: fnv64(h.to_json().to_string().as_bytes()) };
    match run_steps(attacker, &b, &steps) {
        Ok(results) => j.judge(&b, &steps, &results, "replay"),
        Err(e) => eprintln!("replay: {e}"),
    }
}
