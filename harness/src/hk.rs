//! Helpers that look at hickory values (names reachable in records, label extraction).

use hickory_proto::dnssec::rdata::DNSSECRData;
use hickory_proto::op::Message;
use hickory_proto::rr::{Name, RData, Record};

use crate::refwire::Labels;

pub fn labels_of(n: &Name) -> Labels {
    n.iter().map(|l| l.to_vec()).collect()
}

pub fn to_name(labels: &[Vec<u8>]) -> Result<Name, String> {
    let mut n = Name::from_labels(labels.iter().map(|l| l.as_slice())).map_err(|e| e.to_string())?;
    n.set_fqdn(true);
    Ok(n)
}

/// names embedded in RDATA
pub fn names_in_rdata(r: &RData) -> Vec<&Name> {
    match r {
        RData::ANAME(n) => vec![&n.0],
        RData::CNAME(n) => vec![&n.0],
        RData::NS(n) => vec![&n.0],
        RData::PTR(n) => vec![&n.0],
        RData::MX(m) => vec![&m.exchange],
        RData::SOA(s) => vec![&s.mname, &s.rname],
        RData::SRV(s) => vec![&s.target],
        RData::NAPTR(n) => vec![&n.replacement],
        RData::SVCB(s) => vec![&s.target_name],
        RData::HTTPS(s) => vec![&s.0.target_name],
        RData::DNSSEC(d) => match d {
            DNSSECRData::RRSIG(s) => vec![&s.input().signer_name],
            DNSSECRData::SIG(s) => vec![&s.input().signer_name],
            DNSSECRData::NSEC(n) => vec![n.next_domain_name()],
            _ => vec![],
        },
        _ => vec![],
    }
}

/// Wire length of a name measured from its raw labels, and its longest label.
pub fn measure(n: &Name) -> (usize, usize) {
    let mut total = 1;
    let mut longest = 0;
    for l in n.iter() {
        total += l.len() + 1;
        longest = longest.max(l.len());
    }
    (total, longest)
}

/// Returns Some(description) if a name violates the 255/63 limits.
pub fn name_limit_violation(n: &Name) -> Option<String> {
    let (total, longest) = measure(n);
    if total > 255 {
        return Some(format!("name of {total} octets"));
    }
    if longest > 63 {
        return Some(format!("label of {longest} octets"));
    }
    None
}

pub fn record_names(r: &Record) -> Vec<&Name> {
    let mut v = vec![&r.name];
    v.extend(names_in_rdata(&r.data));
    v
}

pub fn message_names(m: &Message) -> Vec<&Name> {
    let mut v: Vec<&Name> = m.queries.iter().map(|q| &q.name).collect();
    for r in m.answers.iter().chain(m.authorities.iter()).chain(m.additionals.iter()) {
        v.extend(record_names(r));
    }
    v
}
