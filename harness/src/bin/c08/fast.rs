//! Fast twin of the `refzone`/`denial` model over an interned name table, used only to *search* for
//! counter-models (App. A.5) among the thousands of zones within two edits of Z. Every counter-model
//! it finds is re-checked on the slow model before anything is reported, and the two models are
//! cross-checked on every generated zone (`cross_check`), so a bug in here can make the search miss
//! something or make the run inconclusive, but cannot produce an alarm.
#![allow(dead_code)]

use std::collections::{BTreeSet, HashMap};

use crate::denial::{self, Claim, Nsec, Reason, Truth};
use crate::refzone::{self, child, suffix, ty, wildcard_of, CName, Name, Zone};

pub const A: u16 = 1 << 0;
pub const NS: u16 = 1 << 1;
pub const CNAME: u16 = 1 << 2;
pub const SOA: u16 = 1 << 3;
pub const MX: u16 = 1 << 4;
pub const TXT: u16 = 1 << 5;
pub const AAAA: u16 = 1 << 6;
pub const DS: u16 = 1 << 7;
pub const DNSKEY: u16 = 1 << 8;

const TYPE_BITS: [(u16, u16); 9] = [(ty::A, A), (ty::NS, NS), (ty::CNAME, CNAME), (ty::SOA, SOA), (ty::MX, MX), (ty::TXT, TXT), (ty::AAAA, AAAA), (ty::DS, DS), (ty::DNSKEY, DNSKEY)];

pub fn bit_of(t: u16) -> Option<u16> {
    TYPE_BITS.iter().find(|(c, _)| *c == t).map(|(_, b)| *b)
}

pub fn types_of(mask: u16) -> Vec<u16> {
    TYPE_BITS.iter().filter(|(_, b)| mask & b != 0).map(|(c, _)| *c).collect()
}

/// label used for the "one child of q" names of the counter-model search
pub const CHILD_LABEL: &[u8] = b"c";

pub struct Uni {
    /// canonical order; id = position
    pub names: Vec<Name>,
    index: HashMap<Name, u16>,
    /// ancestors-or-self from the apex (index 0) down to the name itself
    pub anc: Vec<Vec<u16>>,
    /// id of `*.name` when interned
    pub wild: Vec<Option<u16>>,
    pub is_wild: Vec<bool>,
    pub apex: u16,
    pub apex_len: usize,
}

impl Uni {
    /// Intern `names` (all inside the zone) closed under "parent" down to the apex.
    pub fn build(apex: &Name, names: impl IntoIterator<Item = Name>) -> Uni {
        let mut set: BTreeSet<CName> = BTreeSet::new();
        set.insert(CName(apex.clone()));
        for n in names {
            if !refzone::is_subdomain(&n, apex) {
                continue;
            }
            let n = refzone::fold(&n);
            let mut k = n.len();
            while k > apex.len() {
                if !set.insert(CName(suffix(&n, k))) {
                    break;
                }
                k -= 1;
            }
        }
        let names: Vec<Name> = set.into_iter().map(|c| c.0).collect();
        assert!(names.len() < 60_000);
        let index: HashMap<Name, u16> = names.iter().enumerate().map(|(i, n)| (n.clone(), i as u16)).collect();
        let mut anc = Vec::with_capacity(names.len());
        let mut wild = Vec::with_capacity(names.len());
        let mut is_wild = Vec::with_capacity(names.len());
        for n in &names {
            let mut a = Vec::new();
            for k in apex.len()..=n.len() {
                a.push(index[&suffix(n, k)]);
            }
            anc.push(a);
            wild.push(index.get(&wildcard_of(n)).copied());
            is_wild.push(refzone::is_wildcard(n));
        }
        let apex_id = index[apex];
        Uni { names, index, anc, wild, is_wild, apex: apex_id, apex_len: apex.len() }
    }

    pub fn id(&self, n: &[Vec<u8>]) -> Option<u16> {
        self.index.get(&refzone::fold(n)).copied()
    }

    pub fn name(&self, id: u16) -> &Name {
        &self.names[id as usize]
    }

    pub fn labels(&self, id: u16) -> usize {
        self.anc[id as usize].len() - 1 + self.apex_len
    }

    #[inline]
    pub fn is_strict_anc(&self, a: u16, d: u16) -> bool {
        let la = self.anc[a as usize].len();
        let ad = &self.anc[d as usize];
        la < ad.len() && ad[la - 1] == a
    }

    #[inline]
    pub fn covering_cut(&self, z: &FZ, n: u16) -> Option<u16> {
        for &x in &self.anc[n as usize][1..] {
            if z.mask[x as usize] & NS != 0 {
                return Some(x);
            }
        }
        None
    }
    #[inline]
    pub fn occluded(&self, z: &FZ, n: u16) -> bool {
        matches!(self.covering_cut(z, n), Some(c) if c != n)
    }
    #[inline]
    pub fn is_delegation(&self, z: &FZ, n: u16) -> bool {
        self.covering_cut(z, n) == Some(n)
    }
    fn visible_desc(&self, z: &FZ, n: u16) -> bool {
        z.present.iter().any(|&d| d != n && self.is_strict_anc(n, d) && !self.occluded(z, d))
    }
    pub fn exists(&self, z: &FZ, n: u16) -> bool {
        if self.occluded(z, n) {
            return false;
        }
        z.mask[n as usize] != 0 || self.visible_desc(z, n)
    }
    pub fn closest_encloser(&self, z: &FZ, q: u16) -> u16 {
        for &a in self.anc[q as usize].iter().rev() {
            if a == self.apex || self.exists(z, a) {
                return a;
            }
        }
        self.apex
    }
    pub fn auth_types(&self, z: &FZ, n: u16) -> u16 {
        if self.occluded(z, n) {
            0
        } else if self.is_delegation(z, n) {
            z.mask[n as usize] & DS
        } else {
            z.mask[n as usize]
        }
    }

    /// genuine NSEC chain as packed keys (owner << 32 | next << 16 | type mask), ascending by owner
    pub fn chain_into(&self, z: &FZ, out: &mut Vec<u64>) {
        let start = out.len();
        for &o in &z.present {
            if self.occluded(z, o) {
                continue;
            }
            let m = if self.is_delegation(z, o) { z.mask[o as usize] & (NS | DS) } else { z.mask[o as usize] };
            out.push((o as u64) << 32 | m as u64);
        }
        let n = out.len() - start;
        for i in 0..n {
            let next = (out[start + (i + 1) % n] >> 32) & 0xffff;
            out[start + i] |= next << 16;
        }
    }

    pub fn key_of(&self, r: &Nsec) -> Option<u64> {
        let o = self.id(&r.owner)?;
        let n = self.id(&r.next)?;
        let mut m = 0u16;
        for t in &r.types {
            if *t == denial::T_RRSIG || *t == denial::T_NSEC {
                continue;
            }
            m |= bit_of(*t)?;
        }
        Some((o as u64) << 32 | (n as u64) << 16 | m as u64)
    }

    pub fn nsec_of(&self, key: u64) -> Nsec {
        let o = (key >> 32) as u16;
        let n = ((key >> 16) & 0xffff) as u16;
        let mut types: BTreeSet<u16> = types_of((key & 0xffff) as u16).into_iter().collect();
        types.insert(denial::T_RRSIG);
        types.insert(denial::T_NSEC);
        Nsec { owner: self.name(o).clone(), next: self.name(n).clone(), types }
    }

    /// mirror of `denial::claim_truth`
    pub fn truth(&self, z: &FZ, q: u16, tbit: u16, claim: &Claim) -> Truth {
        if self.occluded(z, q) {
            return Truth::NotEntailable(Reason::BelowCut);
        }
        if self.is_delegation(z, q) && !(tbit == DS && *claim == Claim::NoData) {
            return Truth::NotEntailable(Reason::AtCut);
        }
        match claim {
            Claim::NxDomain => {
                if self.exists(z, q) {
                    return Truth::False(Reason::QnameExists);
                }
                let ce = self.closest_encloser(z, q);
                if self.wild[ce as usize].is_some_and(|w| self.exists(z, w)) {
                    return Truth::False(Reason::WildcardMatches);
                }
                Truth::True
            }
            Claim::NoData => {
                let node = if self.exists(z, q) {
                    q
                } else {
                    let ce = self.closest_encloser(z, q);
                    match self.wild[ce as usize] {
                        Some(w) if self.exists(z, w) => w,
                        _ => return Truth::Ambiguous,
                    }
                };
                if self.is_delegation(z, node) && tbit != DS {
                    return Truth::NotEntailable(Reason::MatchedNodeIsCut);
                }
                let auth = self.auth_types(z, node);
                if auth & tbit != 0 {
                    return Truth::False(Reason::TypePresent);
                }
                if auth & CNAME != 0 && tbit != CNAME {
                    return Truth::False(Reason::CnamePresent);
                }
                Truth::True
            }
            Claim::Expansion { labels } => {
                if *labels + 1 == self.labels(q) && self.is_wild[q as usize] {
                    return Truth::Ambiguous;
                }
                if self.exists(z, q) {
                    return Truth::False(Reason::QnameExists);
                }
                let ce = self.closest_encloser(z, q);
                let cl = self.labels(ce);
                if cl > *labels {
                    return Truth::False(Reason::CloserEncloser);
                }
                if cl < *labels {
                    return Truth::Ambiguous;
                }
                Truth::True
            }
        }
    }

    /// mirror of `denial::expansion_evidence`
    pub fn evidence(&self, z: &FZ, q: u16, tbit: u16, labels: usize) -> bool {
        if labels >= self.labels(q) || labels < self.apex_len {
            return false;
        }
        let x = self.anc[q as usize][labels - self.apex_len];
        let Some(w) = self.wild[x as usize] else { return false };
        !self.occluded(z, w) && !self.is_delegation(z, w) && z.mask[w as usize] & tbit != 0
    }
}

#[derive(Clone, Debug)]
pub struct FZ {
    pub mask: Vec<u16>,
    /// ids with a non-zero mask, ascending
    pub present: Vec<u16>,
}

impl FZ {
    pub fn from_zone(uni: &Uni, z: &Zone) -> Result<FZ, String> {
        let mut f = FZ { mask: vec![0; uni.names.len()], present: Vec::new() };
        for o in z.owners() {
            let id = uni.id(o).ok_or_else(|| format!("owner {} not interned", refzone::show(o)))?;
            let mut m = 0u16;
            for t in z.node(o).unwrap().keys() {
                m |= bit_of(*t).ok_or_else(|| format!("type {} not modelled", refzone::type_name(*t)))?;
            }
            f.set(id, m);
        }
        Ok(f)
    }
    pub fn set(&mut self, id: u16, m: u16) {
        let old = self.mask[id as usize];
        self.mask[id as usize] = m;
        if (old == 0) != (m == 0) {
            match self.present.binary_search(&id) {
                Ok(i) if m == 0 => {
                    self.present.remove(i);
                }
                Err(i) if m != 0 => self.present.insert(i, id),
                _ => {}
            }
        }
    }
}

// ---------------------------------------------------------------------------------------------
// candidate zones

pub const MAX_LABELS: usize = 8;

#[derive(Clone, Debug)]
pub struct Cand {
    /// 0 = derived from Z, 1 = derived from the sibling zone
    pub base: u8,
    /// (name id, new type mask)
    pub edits: [(u16, u16); 2],
    pub n: u8,
    off: u32,
    len: u32,
    pub nx: Truth,
    pub nodata: Truth,
    pub exp: [Truth; MAX_LABELS],
    pub ev: [bool; MAX_LABELS],
}

pub struct CandSet {
    pub q: u16,
    pub tbit: u16,
    pub cands: Vec<Cand>,
    /// chains of all candidates, as packed keys
    arena: Vec<u64>,
    /// distinct keys -> bit index
    table: HashMap<u64, u32>,
    words: usize,
    bits: Vec<u64>,
    /// indices of candidates falsifying nx / nodata / exp[l]
    pub f_nx: Vec<u32>,
    pub f_nodata: Vec<u32>,
    pub f_exp: Vec<Vec<u32>>,
}

/// names whose content the search toggles: q, its ancestors incl. the apex, `*.a` for every
/// ancestor-or-self a, one non-wildcard child of q
pub fn relevant(uni: &Uni, q: u16) -> Vec<u16> {
    let mut v: Vec<u16> = uni.anc[q as usize].clone();
    for &a in &uni.anc[q as usize] {
        if let Some(w) = uni.wild[a as usize] {
            v.push(w);
        }
    }
    if let Some(c) = uni.id(&child(CHILD_LABEL, uni.name(q))) {
        v.push(c);
    }
    v.sort_unstable();
    v.dedup();
    v
}

/// type sets tried at name `n` (well-formed: CNAME alone, NS never at a wildcard owner, DS only next
/// to NS, the apex keeps SOA/NS/DNSKEY)
pub fn states(uni: &Uni, z: &FZ, n: u16, tbit: u16) -> Vec<u16> {
    let cur = z.mask[n as usize];
    let other = if tbit == TXT { A } else { TXT };
    let mut v: Vec<u16> = Vec::new();
    if n == uni.apex {
        if tbit & (SOA | NS | DNSKEY | DS | CNAME) == 0 {
            v.push(cur | tbit);
            v.push(cur & !tbit);
        }
    } else {
        let wild = uni.is_wild[n as usize];
        v.push(0);
        if tbit == NS {
            if !wild {
                v.push(NS);
            }
        } else if tbit != DS {
            v.push(tbit);
        }
        v.push(other);
        if tbit != CNAME {
            v.push(CNAME);
        }
        if cur != 0 {
            let ok = if tbit == CNAME || cur & CNAME != 0 {
                false
            } else if tbit == DS {
                cur & NS != 0
            } else if tbit == NS {
                !wild
            } else {
                true
            };
            if ok {
                v.push(cur | tbit);
            }
            if cur & tbit != 0 {
                let mut r = cur & !tbit;
                if r & NS == 0 {
                    r &= !DS;
                }
                v.push(r);
            }
        }
        if !wild {
            v.push(NS);
            v.push(NS | DS);
        }
    }
    v.sort_unstable();
    v.dedup();
    v.retain(|s| *s != cur);
    v
}

impl CandSet {
    pub fn build(uni: &Uni, base: &FZ, sibling: Option<&FZ>, q: u16, tbit: u16, doubles: bool) -> CandSet {
        let nl = uni.labels(q);
        assert!(nl < MAX_LABELS);
        let mut cs = CandSet { q, tbit, cands: Vec::new(), arena: Vec::new(), table: HashMap::new(), words: 0, bits: Vec::new(), f_nx: Vec::new(), f_nodata: Vec::new(), f_exp: vec![Vec::new(); MAX_LABELS] };
        let eval = |cs: &mut CandSet, z: &FZ, basei: u8, edits: [(u16, u16); 2], n: u8| {
            let off = cs.arena.len();
            uni.chain_into(z, &mut cs.arena);
            let len = cs.arena.len() - off;
            let mut c = Cand { base: basei, edits, n, off: off as u32, len: len as u32, nx: uni.truth(z, q, tbit, &Claim::NxDomain), nodata: uni.truth(z, q, tbit, &Claim::NoData), exp: [Truth::Ambiguous; MAX_LABELS], ev: [false; MAX_LABELS] };
            for l in uni.apex_len..nl {
                c.ev[l] = uni.evidence(z, q, tbit, l);
                if c.ev[l] {
                    c.exp[l] = uni.truth(z, q, tbit, &Claim::Expansion { labels: l });
                }
            }
            cs.cands.push(c);
        };
        eval(&mut cs, base, 0, [(0, 0); 2], 0);
        if let Some(s) = sibling {
            eval(&mut cs, s, 1, [(0, 0); 2], 0);
        }
        let rel = relevant(uni, q);
        let mut singles: Vec<(u16, u16)> = Vec::new();
        for &n in &rel {
            for s in states(uni, base, n, tbit) {
                singles.push((n, s));
            }
        }
        let mut z = base.clone();
        for &(n, s) in &singles {
            let old = z.mask[n as usize];
            z.set(n, s);
            eval(&mut cs, &z, 0, [(n, s), (0, 0)], 1);
            z.set(n, old);
        }
        if doubles {
            for i in 0..singles.len() {
                let (n1, s1) = singles[i];
                let old1 = z.mask[n1 as usize];
                z.set(n1, s1);
                for &(n2, s2) in &singles[i + 1..] {
                    if n2 == n1 {
                        continue;
                    }
                    let old2 = z.mask[n2 as usize];
                    z.set(n2, s2);
                    eval(&mut cs, &z, 0, [(n1, s1), (n2, s2)], 2);
                    z.set(n2, old2);
                }
                z.set(n1, old1);
            }
        }
        // key table + bitsets
        for k in &cs.arena {
            let next = cs.table.len() as u32;
            cs.table.entry(*k).or_insert(next);
        }
        cs.words = cs.table.len().div_ceil(64).max(1);
        cs.bits = vec![0u64; cs.words * cs.cands.len()];
        for (ci, c) in cs.cands.iter().enumerate() {
            for k in &cs.arena[c.off as usize..(c.off + c.len) as usize] {
                let b = cs.table[k] as usize;
                cs.bits[ci * cs.words + b / 64] |= 1u64 << (b % 64);
            }
        }
        for (ci, c) in cs.cands.iter().enumerate() {
            if c.nx.falsified().is_some() {
                cs.f_nx.push(ci as u32);
            }
            if c.nodata.falsified().is_some() {
                cs.f_nodata.push(ci as u32);
            }
            for l in 0..MAX_LABELS {
                if c.ev[l] && c.exp[l].falsified().is_some() {
                    cs.f_exp[l].push(ci as u32);
                }
            }
        }
        cs
    }

    pub fn chain(&self, c: &Cand) -> &[u64] {
        &self.arena[c.off as usize..(c.off + c.len) as usize]
    }

    fn falsified(&self, c: &Cand, claim: &Claim) -> Option<Reason> {
        match claim {
            Claim::NxDomain => c.nx.falsified(),
            Claim::NoData => c.nodata.falsified(),
            Claim::Expansion { labels } => {
                if *labels < MAX_LABELS && c.ev[*labels] {
                    c.exp[*labels].falsified()
                } else {
                    None
                }
            }
        }
    }

    /// A smallest counter-model: a candidate zone whose genuine chain contains every record of `s`
    /// (and, for an expansion, owns the expanded wildcard RRset) and in which the claim is false.
    /// Among the smallest ones the reason with the highest priority is chosen.
    pub fn search(&self, s: &[u64], claim: &Claim) -> Option<(usize, Reason)> {
        let mut sbits = vec![0u64; self.words];
        for k in s {
            let b = *self.table.get(k)? as usize;
            sbits[b / 64] |= 1u64 << (b % 64);
        }
        let list: &[u32] = match claim {
            Claim::NxDomain => &self.f_nx,
            Claim::NoData => &self.f_nodata,
            Claim::Expansion { labels } => {
                if *labels < MAX_LABELS {
                    &self.f_exp[*labels]
                } else {
                    return None;
                }
            }
        };
        let mut best: Option<(usize, Reason, u8)> = None;
        for &ci in list {
            let ci = ci as usize;
            let c = &self.cands[ci];
            if let Some((_, _, n)) = best {
                if c.n > n {
                    break;
                }
            }
            let cb = &self.bits[ci * self.words..(ci + 1) * self.words];
            if sbits.iter().zip(cb.iter()).any(|(s, c)| s & !c != 0) {
                continue;
            }
            let r = self.falsified(c, claim).expect("listed as falsifying");
            match best {
                Some((_, br, _)) if br <= r => {}
                _ => best = Some((ci, r, c.n)),
            }
        }
        best.map(|(ci, r, _)| (ci, r))
    }
}

/// the slow-model zone a candidate stands for
pub fn materialize(uni: &Uni, base: &Zone, c: &Cand) -> Zone {
    let mut z = base.clone();
    for &(n, m) in &c.edits[..c.n as usize] {
        denial::set_node(&mut z, uni.name(n), &types_of(m));
    }
    z
}

pub fn show_edits(uni: &Uni, c: &Cand) -> Vec<String> {
    c.edits[..c.n as usize]
        .iter()
        .map(|&(n, m)| {
            if m == 0 {
                format!("remove {}", refzone::show(uni.name(n)))
            } else {
                format!("{} holds exactly {{{}}}", refzone::show(uni.name(n)), types_of(m).iter().map(|t| refzone::type_name(*t)).collect::<Vec<_>>().join(","))
            }
        })
        .collect()
}

// ---------------------------------------------------------------------------------------------
// cross-check against the slow model

/// Compare the fast model with `refzone`/`denial` on zone `z`: chain, existence, closest encloser and
/// the truth of every claim for every given query name and type. Returns the first disagreement.
pub fn cross_check(uni: &Uni, z: &Zone, qnames: &[Name], qtypes: &[u16]) -> Result<(), String> {
    let f = FZ::from_zone(uni, z)?;
    let mut keys = Vec::new();
    uni.chain_into(&f, &mut keys);
    let fast_chain: Vec<Nsec> = keys.iter().map(|k| uni.nsec_of(*k)).collect();
    let slow_chain = denial::nsec_chain(z);
    if fast_chain != slow_chain {
        return Err(format!("chain differs: fast {:?} slow {:?}", fast_chain.iter().map(|n| n.show()).collect::<Vec<_>>(), slow_chain.iter().map(|n| n.show()).collect::<Vec<_>>()));
    }
    for qn in qnames {
        let Some(q) = uni.id(qn) else { return Err(format!("query name {} not interned", refzone::show(qn))) };
        if uni.exists(&f, q) != z.exists(qn) {
            return Err(format!("exists({}) differs", refzone::show(qn)));
        }
        if *uni.name(uni.closest_encloser(&f, q)) != z.closest_encloser(qn) {
            return Err(format!("closest_encloser({}) differs", refzone::show(qn)));
        }
        for &t in qtypes {
            let tbit = bit_of(t).ok_or("qtype not modelled")?;
            let mut claims = vec![Claim::NxDomain, Claim::NoData];
            for l in z.apex.len()..qn.len() {
                claims.push(Claim::Expansion { labels: l });
            }
            for c in &claims {
                let a = uni.truth(&f, q, tbit, c);
                let b = denial::claim_truth(z, qn, t, c);
                if a != b {
                    return Err(format!("truth of {:?} for {} {} differs: fast {:?} slow {:?}", c, refzone::show(qn), refzone::type_name(t), a, b));
                }
                if let Claim::Expansion { labels } = c {
                    if uni.evidence(&f, q, tbit, *labels) != denial::expansion_evidence(z, qn, t, *labels) {
                        return Err(format!("evidence of {:?} for {} {} differs", c, refzone::show(qn), refzone::type_name(t)));
                    }
                }
            }
        }
    }
    Ok(())
}
