//! Scripted sockets under tokio's paused virtual clock (DESIGN §5.2), shared by C17 and C16.
//!
//! * `SimTcp`  — `DnsTcpStream` whose read side is a list of *availability boundaries on the byte
//!   stream* (after step i the first aᵢ bytes have arrived; `poll_read` returns
//!   `min(available, buf.len())`), with `Pending` (immediate or deferred wake) insertable before
//!   any boundary and EOF at any stream offset. The write side is the mirror image: cumulative
//!   acceptance boundaries (send-buffer space), `Pending` before any of them, `Pending` on flush,
//!   vectored writes honoured (or, like a socket without writev, first non-empty slice only).
//! * `SimUdp` / `SimRuntime` — `RuntimeProvider` whose `bind_udp` yields sockets that hand every
//!   outgoing datagram to a responder closure and deliver what it returns at scripted virtual
//!   instants from scripted source addresses.
//!
//! Monitor state lives behind its own mutex and is only touched from socket callbacks and from
//! the driver between polls.
#![allow(dead_code)]

use std::collections::VecDeque;
use std::future::Future;
use std::io;
use std::net::SocketAddr;
use std::pin::Pin;
use std::sync::atomic::{AtomicBool, Ordering};
use std::sync::{Arc, Mutex};
use std::task::{Context, Poll, Wake, Waker};
use std::time::Duration;

use hickory_net::runtime::{DnsTcpStream, DnsUdpSocket, RuntimeProvider, Time, TokioHandle};

// ---------------------------------------------------------------------------------------------
// virtual time

#[derive(Clone, Copy)]
pub struct VTime;

#[async_trait::async_trait]
impl Time for VTime {
    async fn delay_for(d: Duration) {
        tokio::time::sleep(d).await
    }
    async fn timeout<F: 'static + Future + Send>(d: Duration, f: F) -> Result<F::Output, io::Error> {
        tokio::time::timeout(d, f).await.map_err(|_| io::Error::new(io::ErrorKind::TimedOut, "virtual timeout"))
    }
    fn current_time() -> u64 {
        1_700_000_000
    }
}

/// A waker that only raises a flag; the hand-written drivers poll again when it is set.
pub struct FlagWaker(pub AtomicBool);

impl FlagWaker {
    pub fn new() -> (Arc<FlagWaker>, Waker) {
        let f = Arc::new(FlagWaker(AtomicBool::new(false)));
        let w = Waker::from(f.clone());
        (f, w)
    }
    pub fn take(&self) -> bool {
        self.0.swap(false, Ordering::SeqCst)
    }
}

impl Wake for FlagWaker {
    fn wake(self: Arc<Self>) {
        self.0.store(true, Ordering::SeqCst);
    }
    fn wake_by_ref(self: &Arc<Self>) {
        self.0.store(true, Ordering::SeqCst);
    }
}

// ---------------------------------------------------------------------------------------------
// scripted TCP

/// One step of a byte-stream script (either direction).
#[derive(Clone, Copy, Debug, PartialEq, Eq)]
pub enum Step {
    /// the boundary moves to this cumulative stream offset
    Upto(usize),
    /// would-block; `deferred == false`: the waker is called before returning,
    /// `deferred == true`: the waker is kept and fired later by the driver
    Pend { deferred: bool },
}

#[derive(Clone, Copy, Debug, PartialEq, Eq)]
pub enum ReadEnd {
    /// connection stays open: `Pending` for ever once everything has been delivered
    Open,
    /// orderly close by the peer after the last byte of `rbytes`
    Eof,
}

#[derive(Clone, Debug)]
pub struct WriteCall {
    pub vectored: bool,
    /// lengths of the slices offered
    pub offered: Vec<usize>,
    pub accepted: usize,
    /// cumulative bytes accepted before this call
    pub at: usize,
}

pub struct TcpState {
    // ---- read side
    pub rbytes: Vec<u8>,
    pub rsteps: VecDeque<Step>,
    pub rend: ReadEnd,
    pub delivered: usize,
    pub avail: usize,
    /// (stream offset, bytes returned, buffer length offered) per completed read
    pub reads: Vec<(usize, usize, usize)>,
    pub eof_reads: usize,
    pub empty_buf_reads: usize,
    pub read_pendings: usize,
    // ---- write side
    pub wsteps: VecDeque<Step>,
    pub fsteps: VecDeque<Step>,
    /// honour vectored writes; otherwise behave like the default `poll_write_vectored`
    pub vectored: bool,
    pub wlimit: usize,
    pub written: Vec<u8>,
    pub wcalls: Vec<WriteCall>,
    pub write_pendings: usize,
    /// number of bytes accepted so far at each would-block of the write side
    pub wpend_at: Vec<usize>,
    pub flush_pendings: usize,
    pub flushes: usize,
    /// number of bytes accepted when each successful flush happened
    pub flushed_at: Vec<usize>,
    pub closes: usize,
    // ---- wakeups
    pub deferred: Vec<Waker>,
    /// the socket returned Pending because nothing more will ever happen (open connection, script done)
    pub parked_forever: bool,
    /// guard against a caller that loops on the socket inside one poll: after `max_calls` socket
    /// calls every further call fails with an error and `overrun` names the first offender
    pub max_calls: usize,
    /// same guard on the number of bytes the write side accepts
    pub max_written: usize,
    pub calls: usize,
    pub overrun: Option<&'static str>,
}

impl TcpState {
    pub fn new(rbytes: Vec<u8>, rsteps: Vec<Step>, rend: ReadEnd, wsteps: Vec<Step>, fsteps: Vec<Step>, vectored: bool) -> Self {
        TcpState {
            rbytes,
            rsteps: rsteps.into(),
            rend,
            delivered: 0,
            avail: 0,
            reads: Vec::new(),
            eof_reads: 0,
            empty_buf_reads: 0,
            read_pendings: 0,
            wsteps: wsteps.into(),
            fsteps: fsteps.into(),
            vectored,
            wlimit: 0,
            written: Vec::new(),
            wcalls: Vec::new(),
            write_pendings: 0,
            wpend_at: Vec::new(),
            flush_pendings: 0,
            flushes: 0,
            flushed_at: Vec::new(),
            closes: 0,
            deferred: Vec::new(),
            parked_forever: false,
            max_calls: usize::MAX,
            max_written: usize::MAX,
            calls: 0,
            overrun: None,
        }
    }

    pub fn over_budget(&mut self, what: &'static str) -> Option<io::Error> {
        self.calls += 1;
        if self.calls > self.max_calls {
            if self.overrun.is_none() {
                self.overrun = Some(what);
            }
            return Some(io::Error::other("simnet: socket call budget exceeded"));
        }
        None
    }

    /// Fire every deferred waker ("the socket became ready"). Returns how many were fired.
    pub fn fire_deferred(&mut self) -> usize {
        let ws: Vec<Waker> = self.deferred.drain(..).collect();
        let n = ws.len();
        for w in ws {
            w.wake();
        }
        n
    }

    /// true when the read script has nothing left to deliver or signal
    pub fn read_script_done(&self) -> bool {
        self.delivered >= self.rbytes.len() && self.rsteps.iter().all(|s| matches!(s, Step::Upto(_)))
    }

    pub fn pend(&mut self, cx: &mut Context<'_>, deferred: bool) {
        if deferred {
            self.deferred.push(cx.waker().clone());
        } else {
            cx.waker().wake_by_ref();
        }
    }

    /// one read call of the scripted socket (shared by the futures-io and the tokio front ends)
    pub fn do_read(&mut self, cx: &mut Context<'_>, buf: &mut [u8]) -> Poll<io::Result<usize>> {
        if let Some(e) = self.over_budget("read") {
            return Poll::Ready(Err(e));
        }
        if buf.is_empty() {
            self.empty_buf_reads += 1;
            return Poll::Ready(Ok(0));
        }
        loop {
            if self.delivered < self.avail {
                let n = (self.avail - self.delivered).min(buf.len());
                let d = self.delivered;
                buf[..n].copy_from_slice(&self.rbytes[d..d + n]);
                self.delivered += n;
                self.reads.push((d, n, buf.len()));
                return Poll::Ready(Ok(n));
            }
            match self.rsteps.pop_front() {
                Some(Step::Upto(a)) => {
                    let a = a.min(self.rbytes.len());
                    if a > self.avail {
                        self.avail = a;
                    }
                }
                Some(Step::Pend { deferred }) => {
                    self.read_pendings += 1;
                    self.pend(cx, deferred);
                    return Poll::Pending;
                }
                None => {
                    if self.avail < self.rbytes.len() {
                        // script shorter than the stream: everything else arrives at once
                        self.avail = self.rbytes.len();
                        continue;
                    }
                    match self.rend {
                        ReadEnd::Eof => {
                            self.eof_reads += 1;
                            return Poll::Ready(Ok(0));
                        }
                        ReadEnd::Open => {
                            self.parked_forever = true;
                            return Poll::Pending;
                        }
                    }
                }
            }
        }
    }

    pub fn do_flush(&mut self, cx: &mut Context<'_>) -> Poll<io::Result<()>> {
        if let Some(e) = self.over_budget("flush") {
            return Poll::Ready(Err(e));
        }
        match self.fsteps.pop_front() {
            Some(Step::Pend { deferred }) => {
                self.flush_pendings += 1;
                self.pend(cx, deferred);
                Poll::Pending
            }
            _ => {
                self.flushes += 1;
                let n = self.written.len();
                self.flushed_at.push(n);
                Poll::Ready(Ok(()))
            }
        }
    }

    pub fn do_write(&mut self, cx: &mut Context<'_>, bufs: &[&[u8]], vectored_call: bool) -> Poll<io::Result<usize>> {
        if let Some(e) = self.over_budget("write") {
            return Poll::Ready(Err(e));
        }
        let total: usize = bufs.iter().map(|b| b.len()).sum();
        if total == 0 {
            return Poll::Ready(Ok(0));
        }
        let have = self.written.len();
        if have >= self.max_written {
            if self.overrun.is_none() {
                self.overrun = Some("write-bytes");
            }
            return Poll::Ready(Err(io::Error::other("simnet: more bytes written than were ever queued")));
        }
        while self.wlimit <= have {
            match self.wsteps.pop_front() {
                Some(Step::Upto(b)) => self.wlimit = self.wlimit.max(b),
                Some(Step::Pend { deferred }) => {
                    self.write_pendings += 1;
                    self.wpend_at.push(have);
                    self.pend(cx, deferred);
                    return Poll::Pending;
                }
                None => self.wlimit = usize::MAX,
            }
        }
        let mut room = self.wlimit - have;
        let mut acc = 0usize;
        let mut offered = Vec::with_capacity(bufs.len());
        let mut first_nonempty_seen = false;
        for b in bufs {
            offered.push(b.len());
            if b.is_empty() || room == 0 {
                continue;
            }
            if !self.vectored && first_nonempty_seen {
                continue;
            }
            first_nonempty_seen = true;
            let k = room.min(b.len());
            self.written.extend_from_slice(&b[..k]);
            room -= k;
            acc += k;
            if k < b.len() {
                room = 0;
            }
        }
        self.wcalls.push(WriteCall { vectored: vectored_call, offered, accepted: acc, at: have });
        Poll::Ready(Ok(acc))
    }
}

#[derive(Clone)]
pub struct SimTcp(pub Arc<Mutex<TcpState>>);

impl futures::io::AsyncRead for SimTcp {
    fn poll_read(self: Pin<&mut Self>, cx: &mut Context<'_>, buf: &mut [u8]) -> Poll<io::Result<usize>> {
        self.0.lock().unwrap().do_read(cx, buf)
    }
}

impl futures::io::AsyncWrite for SimTcp {
    fn poll_write(self: Pin<&mut Self>, cx: &mut Context<'_>, buf: &[u8]) -> Poll<io::Result<usize>> {
        let mut s = self.0.lock().unwrap();
        s.do_write(cx, &[buf], false)
    }
    fn poll_write_vectored(self: Pin<&mut Self>, cx: &mut Context<'_>, bufs: &[io::IoSlice<'_>]) -> Poll<io::Result<usize>> {
        let mut s = self.0.lock().unwrap();
        let v: Vec<&[u8]> = bufs.iter().map(|b| &**b).collect();
        s.do_write(cx, &v, true)
    }
    fn poll_flush(self: Pin<&mut Self>, cx: &mut Context<'_>) -> Poll<io::Result<()>> {
        self.0.lock().unwrap().do_flush(cx)
    }
    fn poll_close(self: Pin<&mut Self>, _cx: &mut Context<'_>) -> Poll<io::Result<()>> {
        self.0.lock().unwrap().closes += 1;
        Poll::Ready(Ok(()))
    }
}

impl DnsTcpStream for SimTcp {
    type Time = VTime;
}

// ---------------------------------------------------------------------------------------------
// scripted UDP

/// A datagram the responder wants delivered to the socket that just sent.
#[derive(Clone, Debug)]
pub struct Delivery {
    /// virtual delay after the send
    pub after: Duration,
    pub src: SocketAddr,
    pub bytes: Vec<u8>,
    /// opaque tag for the monitor (index into the scenario's datagram table)
    pub tag: usize,
}

#[derive(Clone, Debug)]
pub struct SocketLog {
    pub local: SocketAddr,
    pub server: SocketAddr,
    pub bound_at: Duration,
    /// (virtual instant, target, bytes) of every send_to
    pub sends: Vec<(Duration, SocketAddr, Vec<u8>)>,
    /// (virtual instant, tag) of every datagram handed to the caller by poll_recv_from
    pub recvs: Vec<(Duration, usize)>,
    /// recv completions that happened before the first send
    pub recvs_before_send: usize,
    pub dropped_at: Option<Duration>,
}

/// What the responder sees on `send_to`.
pub struct SendInfo<'a> {
    pub socket_index: usize,
    pub local: SocketAddr,
    pub target: SocketAddr,
    pub bytes: &'a [u8],
    pub now: Duration,
}

pub type Responder = Box<dyn FnMut(&SendInfo<'_>) -> Vec<Delivery> + Send>;

pub struct UdpNetState {
    pub epoch: tokio::time::Instant,
    pub sockets: Vec<SocketLog>,
    pub responder: Responder,
    pub bind_errors: VecDeque<io::ErrorKind>,
}

#[derive(Clone)]
pub struct UdpNet(pub Arc<Mutex<UdpNetState>>);

impl UdpNet {
    pub fn new(responder: Responder) -> Self {
        UdpNet(Arc::new(Mutex::new(UdpNetState { epoch: tokio::time::Instant::now(), sockets: Vec::new(), responder, bind_errors: VecDeque::new() })))
    }
    pub fn now(&self) -> Duration {
        let e = self.0.lock().unwrap().epoch;
        tokio::time::Instant::now() - e
    }
}

struct Inbox {
    /// sorted by arrival instant (stable for equal instants)
    queue: VecDeque<(tokio::time::Instant, Delivery)>,
    timer: Option<Pin<Box<tokio::time::Sleep>>>,
}

pub struct SimUdp {
    net: UdpNet,
    index: usize,
    local: SocketAddr,
    inbox: Mutex<Inbox>,
}

impl Drop for SimUdp {
    fn drop(&mut self) {
        let now = self.net.now();
        if let Ok(mut n) = self.net.0.lock() {
            n.sockets[self.index].dropped_at = Some(now);
        }
    }
}

#[async_trait::async_trait]
impl DnsUdpSocket for SimUdp {
    type Time = VTime;

    fn poll_recv_from(&self, cx: &mut Context<'_>, buf: &mut [u8]) -> Poll<io::Result<(usize, SocketAddr)>> {
        let mut ib = self.inbox.lock().unwrap();
        let now = tokio::time::Instant::now();
        let due = match ib.queue.front() {
            None => {
                // silence: only a timer elsewhere can end the wait
                ib.timer = None;
                return Poll::Pending;
            }
            Some((at, _)) => *at,
        };
        if due > now {
            let mut t = Box::pin(tokio::time::sleep_until(due));
            if t.as_mut().poll(cx).is_pending() {
                ib.timer = Some(t);
                return Poll::Pending;
            }
        }
        ib.timer = None;
        let (_, d) = ib.queue.pop_front().unwrap();
        drop(ib);
        let n = d.bytes.len().min(buf.len());
        buf[..n].copy_from_slice(&d.bytes[..n]);
        let vnow = self.net.now();
        let mut net = self.net.0.lock().unwrap();
        let log = &mut net.sockets[self.index];
        if log.sends.is_empty() {
            log.recvs_before_send += 1;
        }
        log.recvs.push((vnow, d.tag));
        Poll::Ready(Ok((n, d.src)))
    }

    fn poll_send_to(&self, _cx: &mut Context<'_>, buf: &[u8], target: SocketAddr) -> Poll<io::Result<usize>> {
        let vnow = self.net.now();
        let now = tokio::time::Instant::now();
        let deliveries = {
            let mut net = self.net.0.lock().unwrap();
            net.sockets[self.index].sends.push((vnow, target, buf.to_vec()));
            let info = SendInfo { socket_index: self.index, local: self.local, target, bytes: buf, now: vnow };
            (net.responder)(&info)
        };
        let mut ib = self.inbox.lock().unwrap();
        for d in deliveries {
            let at = now + d.after;
            let pos = ib.queue.iter().position(|(t, _)| *t > at).unwrap_or(ib.queue.len());
            ib.queue.insert(pos, (at, d));
        }
        Poll::Ready(Ok(buf.len()))
    }
}

#[derive(Clone)]
pub struct SimRuntime {
    pub handle: TokioHandle,
    pub net: UdpNet,
}

impl SimRuntime {
    pub fn new(net: UdpNet) -> Self {
        SimRuntime { handle: TokioHandle::default(), net }
    }
}

impl RuntimeProvider for SimRuntime {
    type Handle = TokioHandle;
    type Timer = VTime;
    type Udp = SimUdp;
    type Tcp = SimTcp;

    fn create_handle(&self) -> TokioHandle {
        self.handle.clone()
    }

    fn connect_tcp(&self, _: SocketAddr, _: Option<SocketAddr>, _: Option<Duration>) -> Pin<Box<dyn Send + Future<Output = Result<SimTcp, io::Error>>>> {
        Box::pin(async { Err(io::Error::other("simnet: no tcp in this scenario")) })
    }

    fn bind_udp(&self, local: SocketAddr, server: SocketAddr) -> Pin<Box<dyn Send + Future<Output = Result<SimUdp, io::Error>>>> {
        let net = self.net.clone();
        Box::pin(async move {
            let now = net.now();
            let index = {
                let mut n = net.0.lock().unwrap();
                if let Some(k) = n.bind_errors.pop_front() {
                    return Err(io::Error::new(k, "simnet: scripted bind failure"));
                }
                n.sockets.push(SocketLog { local, server, bound_at: now, sends: Vec::new(), recvs: Vec::new(), recvs_before_send: 0, dropped_at: None });
                n.sockets.len() - 1
            };
            Ok(SimUdp { net, index, local, inbox: Mutex::new(Inbox { queue: VecDeque::new(), timer: None }) })
        })
    }
}
