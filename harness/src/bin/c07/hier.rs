//! Generated DNSSEC hierarchies (root / TLDs / leaves), their keys, and the *ground truth*:
//! which zone is truly secure / insecure / bogus, which zone is responsible for a name, and whether
//! a record is a genuine record of the configured data. Plain types only (refzone / refsign).
#![allow(dead_code)]

use std::collections::BTreeSet;

use ring::signature::{EcdsaKeyPair, Ed25519KeyPair, KeyPair, ECDSA_P256_SHA256_FIXED_SIGNING};
use serde_json::{json, Value};

use vh::mon::{hex, unhex};
use vh::prng::Rng;

use crate::chain::{self, Nsec, Nsec3, Nsec3Params};
use crate::keys::P256_POOL;
use crate::refsign::{self, RefKey};
use crate::refzone::{self, child, fold, is_strict_subdomain, is_subdomain, name, ty, Name, Zone};

pub const ALG_FAKE: u8 = 16; // Ed448: not supported by hickory (nor by ring); keys/signatures are opaque bytes
pub const DIGEST_UNSUPPORTED: u8 = 3; // GOST R 34.11-94: unknown to hickory

pub fn alg_supported(a: u8) -> bool {
    matches!(a, 5 | 7 | 8 | 10 | 13 | 14 | 15)
}
pub fn digest_supported(d: u8) -> bool {
    matches!(d, 1 | 2 | 4)
}

// ---------------------------------------------------------------------------------------------
// keys

#[derive(Clone, Debug, PartialEq)]
pub struct KeySpec {
    pub alg: u8,
    pub flags: u16,
    /// alg 15: 32-byte seed; alg 13: PKCS#8 document; alg 16 (fake): the opaque public key bytes
    pub material: Vec<u8>,
    pub signs_keyset: bool,
    pub signs_data: bool,
    /// present in the zone's DNSKEY RRset
    pub publish: bool,
}

impl KeySpec {
    pub fn to_json(&self) -> Value {
        json!({"alg": self.alg, "flags": self.flags, "material": hex(&self.material), "signs_keyset": self.signs_keyset, "signs_data": self.signs_data, "publish": self.publish})
    }
    pub fn from_json(v: &Value) -> Option<KeySpec> {
        Some(KeySpec {
            alg: v["alg"].as_u64()? as u8,
            flags: v["flags"].as_u64()? as u16,
            material: unhex(v["material"].as_str()?),
            signs_keyset: v["signs_keyset"].as_bool()?,
            signs_data: v["signs_data"].as_bool()?,
            publish: v["publish"].as_bool()?,
        })
    }
}

pub struct Key {
    pub spec: KeySpec,
    pub signer: Option<RefKey>,
    pub public: Vec<u8>,
    pub rdata: Vec<u8>,
    pub tag: u16,
}

pub fn ed25519_public(seed: &[u8]) -> Vec<u8> {
    Ed25519KeyPair::from_seed_unchecked(seed).expect("ed25519 seed").public_key().as_ref().to_vec()
}

impl Key {
    pub fn build(spec: &KeySpec) -> Key {
        let rng = ring::rand::SystemRandom::new();
        let (signer, public) = match spec.alg {
            15 => {
                let kp = Ed25519KeyPair::from_seed_unchecked(&spec.material).expect("ed25519 seed");
                let p = kp.public_key().as_ref().to_vec();
                (Some(RefKey::Ed25519(kp, spec.material.clone())), p)
            }
            13 => {
                let kp = EcdsaKeyPair::from_pkcs8(&ECDSA_P256_SHA256_FIXED_SIGNING, &spec.material, &rng).expect("p256 pkcs8");
                let p = kp.public_key().as_ref()[1..].to_vec();
                (Some(RefKey::P256(kp, spec.material.clone())), p)
            }
            _ => (None, spec.material.clone()),
        };
        let rdata = refsign::dnskey_rdata(spec.flags, spec.alg, &public);
        let tag = refsign::key_tag(&rdata);
        Key { spec: spec.clone(), signer, public, rdata, tag }
    }

    /// signature over `data` (opaque pseudo-signature for the fake algorithm)
    pub fn sign(&self, data: &[u8]) -> Vec<u8> {
        match &self.signer {
            Some(k) => k.sign(data),
            None => {
                // deterministic filler of the Ed448 signature length; nobody here can verify it
                let d = ring::digest::digest(&ring::digest::SHA512, data);
                let mut s = d.as_ref().to_vec();
                s.extend_from_slice(&d.as_ref()[..50]);
                s
            }
        }
    }
}

thread_local! {
    /// pool keys already used in the hierarchy under construction (no key is shared between zones:
    /// hickory's trust anchors are bare public keys, a zone re-using the anchor's key would be trusted by that alone)
    static POOL_USED: std::cell::RefCell<Vec<usize>> = const { std::cell::RefCell::new(Vec::new()) };
}

/// forget which pool keys are taken: a new hierarchy is about to be generated
pub fn reset_key_pool() {
    POOL_USED.with(|u| u.borrow_mut().clear());
}

pub fn gen_keyspec(rng: &mut Rng, alg: u8, flags: u16, signs_keyset: bool, signs_data: bool) -> KeySpec {
    let mut alg = alg;
    let mut pick: Option<usize> = None;
    if alg == 13 {
        let free: Vec<usize> = POOL_USED.with(|u| (0..P256_POOL.len()).filter(|i| !u.borrow().contains(i)).collect());
        if free.is_empty() {
            alg = 15;
        } else {
            let i = free[rng.usize_below(free.len())];
            POOL_USED.with(|u| u.borrow_mut().push(i));
            pick = Some(i);
        }
    }
    let material = match alg {
        15 => rng.bytes(32),
        13 => unhex(P256_POOL[pick.unwrap()]),
        _ => rng.bytes(57),
    };
    KeySpec { alg, flags, material, signs_keyset, signs_data, publish: true }
}

/// Two Ed25519 seeds whose DNSKEYs (same flags) share a key tag, for flags 256 and 257.
pub struct Collision {
    pub a: Vec<u8>,
    pub b: Vec<u8>,
    pub tries: usize,
}

pub fn find_collision(max_tries: usize) -> Option<Collision> {
    let mut rng = Rng::from_parts(0xC07, "C07/key-tag-collision", 0);
    let mut seen: std::collections::HashMap<(u16, u16), Vec<u8>> = std::collections::HashMap::new();
    for i in 0..max_tries {
        let seed = rng.bytes(32);
        let p = ed25519_public(&seed);
        let t256 = refsign::key_tag(&refsign::dnskey_rdata(256, 15, &p));
        let t257 = refsign::key_tag(&refsign::dnskey_rdata(257, 15, &p));
        if let Some(other) = seen.get(&(t256, t257)) {
            return Some(Collision { a: other.clone(), b: seed, tries: i + 1 });
        }
        seen.insert((t256, t257), seed);
    }
    None
}

// ---------------------------------------------------------------------------------------------
// hierarchy description

#[derive(Clone, Debug, PartialEq)]
pub struct ZoneSpec {
    /// configured data: SOA, NS, hosts, delegations incl. DS; no DNSKEY / NSEC* / RRSIG
    pub zone: Zone,
    pub keys: Vec<KeySpec>,
    pub nsec3: Option<Nsec3Params>,
    pub signed: bool,
    /// how the zone hangs off its parent (generator's label; ground truth is recomputed)
    pub mode: String,
}

#[derive(Clone, Debug, PartialEq)]
pub struct Hier {
    /// root first, parents before children
    pub zones: Vec<ZoneSpec>,
    pub now: u32,
    pub inception: u32,
    pub expiration: u32,
    /// validator options: DO bit on its un-validated NS probes
    pub probes_do: bool,
}

impl Hier {
    pub fn to_json(&self) -> Value {
        json!({
            "now": self.now, "inception": self.inception, "expiration": self.expiration, "probes_do": self.probes_do,
            "zones": self.zones.iter().map(|z| json!({
                "zone": z.zone.to_json(),
                "keys": z.keys.iter().map(|k| k.to_json()).collect::<Vec<_>>(),
                "nsec3": z.nsec3.as_ref().map(|p| json!({"salt": hex(&p.salt), "iterations": p.iterations, "opt_out": p.opt_out})),
                "signed": z.signed, "mode": z.mode,
            })).collect::<Vec<_>>(),
        })
    }
    pub fn from_json(v: &Value) -> Result<Hier, String> {
        let mut zones = Vec::new();
        for z in v["zones"].as_array().ok_or("zones")? {
            let nsec3 = if z["nsec3"].is_null() {
                None
            } else {
                Some(Nsec3Params { salt: unhex(z["nsec3"]["salt"].as_str().unwrap_or("")), iterations: z["nsec3"]["iterations"].as_u64().unwrap_or(0) as u16, opt_out: z["nsec3"]["opt_out"].as_bool().unwrap_or(false) })
            };
            zones.push(ZoneSpec {
                zone: Zone::from_json(&z["zone"])?,
                keys: z["keys"].as_array().ok_or("keys")?.iter().filter_map(KeySpec::from_json).collect(),
                nsec3,
                signed: z["signed"].as_bool().unwrap_or(false),
                mode: z["mode"].as_str().unwrap_or("").to_string(),
            });
        }
        Ok(Hier {
            zones,
            now: v["now"].as_u64().ok_or("now")? as u32,
            inception: v["inception"].as_u64().ok_or("inception")? as u32,
            expiration: v["expiration"].as_u64().ok_or("expiration")? as u32,
            probes_do: v["probes_do"].as_bool().unwrap_or(true),
        })
    }
}

pub const LINK_MODES: &[&str] = &["ds-good", "no-ds", "ds-unsupported-alg", "ds-good", "ds-unsupported-digest", "island", "ds-good", "ds-mixed", "ds-standby", "ds-stale", "ds-good", "no-ds"];

fn soa_rdata(apex: &Name, serial: u32) -> Vec<u8> {
    refzone::rd_soa(&child(b"ns1", apex), &child(b"h", apex), serial, 7200, 900, 86400, 300)
}

fn marker_free_a(rng: &mut Rng) -> Vec<u8> {
    // genuine addresses live in 192.0.2.0/24; forged ones use 203.0.113.0/24
    vec![192, 0, 2, rng.range(1, 250) as u8]
}

pub fn zone_content(rng: &mut Rng, apex: &Name, others: &[Name]) -> Zone {
    let mut z = Zone::new(apex);
    z.add(apex, ty::SOA, soa_rdata(apex, rng.range(1, 1000) as u32));
    let ns1 = child(b"ns1", apex);
    z.add(apex, ty::NS, refzone::rd_name(&ns1));
    z.add(&ns1, ty::A, marker_free_a(rng));
    let www = child(b"www", apex);
    z.add(&www, ty::A, marker_free_a(rng));
    if rng.chance(1, 3) {
        z.add(&www, ty::A, marker_free_a(rng));
    }
    let mail = child(b"mail", apex);
    z.add(&mail, ty::A, marker_free_a(rng));
    if rng.chance(1, 2) {
        z.add(apex, ty::MX, refzone::rd_mx(10, &mail));
    }
    z.add(&child(b"txt", apex), ty::TXT, refzone::rd_txt(&format!("genuine-{}", rng.below(1000))));
    if rng.chance(1, 2) {
        z.add(&child(b"alias", apex), ty::CNAME, refzone::rd_name(&www));
    }
    if rng.chance(2, 5) {
        let w = child(b"*", &child(b"w", apex));
        z.add(&w, ty::TXT, refzone::rd_txt("wild"));
        if rng.chance(1, 2) {
            z.add(&w, ty::A, marker_free_a(rng));
        }
    }
    if !others.is_empty() && rng.chance(2, 5) {
        let target = child(b"www", &others[rng.usize_below(others.len())]);
        z.add(&child(b"ext", apex), ty::CNAME, refzone::rd_name(&target));
    }
    z
}

pub fn gen_zone_keys(rng: &mut Rng, fake: bool) -> Vec<KeySpec> {
    if fake {
        return vec![gen_keyspec(rng, ALG_FAKE, 257, true, false), gen_keyspec(rng, ALG_FAKE, 256, false, true)];
    }
    let alg = if rng.chance(2, 3) { 15 } else { 13 };
    let mut keys = Vec::new();
    if rng.chance(1, 4) {
        // single combined signing key
        keys.push(gen_keyspec(rng, alg, 257, true, true));
    } else {
        keys.push(gen_keyspec(rng, alg, 257, true, false));
        let zalg = if rng.chance(1, 5) { if alg == 15 { 13 } else { 15 } } else { alg };
        keys.push(gen_keyspec(rng, zalg, 256, false, true));
        if zalg != alg {
            // algorithm roll-over style: a ZSK of the KSK's algorithm signs as well
            keys.push(gen_keyspec(rng, alg, 256, false, true));
        }
    }
    if rng.chance(1, 3) {
        // stand-by key: published, signs nothing
        let f = if rng.bool() { 256 } else { 257 };
        let sb_alg = if rng.bool() { 15 } else { 13 };
        keys.push(gen_keyspec(rng, sb_alg, f, false, false));
    }
    keys
}

pub fn ds_rdata(owner: &Name, key: &Key, digest_type: u8, rng: &mut Rng) -> Vec<u8> {
    let mut v = key.tag.to_be_bytes().to_vec();
    v.push(key.spec.alg);
    v.push(digest_type);
    match refsign::ds_digest(owner, &key.rdata, digest_type) {
        Some(d) => v.extend(d),
        None => v.extend(rng.bytes(32)),
    }
    v
}

/// The DS RRset the parent publishes for a child with key set `keys` hanging off it in link mode
/// `base_mode` (see `LINK_MODES`; empty for "no-ds" / "island").
pub fn delegation_ds(rng: &mut Rng, apex: &Name, base_mode: &str, keys: &[KeySpec]) -> Vec<Vec<u8>> {
    let built: Vec<Key> = keys.iter().map(Key::build).collect();
    let ksk = built.iter().find(|k| k.spec.signs_keyset);
    let mut ds: Vec<Vec<u8>> = Vec::new();
    match base_mode {
        "ds-good" => {
            let k = ksk.unwrap();
            ds.push(ds_rdata(apex, k, *rng.pick(&[2u8, 2, 2, 4, 1]), rng));
            if rng.chance(1, 4) {
                ds.push(ds_rdata(apex, k, 4, rng));
            }
        }
        "ds-mixed" => {
            let k = ksk.unwrap();
            ds.push(ds_rdata(apex, k, 2, rng));
            // a DS of an algorithm / digest the validator does not know
            let mut v = rng.u16().to_be_bytes().to_vec();
            v.push(ALG_FAKE);
            v.push(2);
            v.extend(rng.bytes(32));
            ds.push(v);
            if rng.bool() {
                ds.push(ds_rdata(apex, k, DIGEST_UNSUPPORTED, rng));
            }
        }
        "ds-standby" => {
            let k = ksk.unwrap();
            ds.push(ds_rdata(apex, k, 2, rng));
            // DS for a key that is not (yet) in the DNSKEY RRset, or for a published stand-by KSK
            if let Some(sb) = built.iter().find(|k| k.spec.flags == 257 && !k.spec.signs_keyset) {
                ds.push(ds_rdata(apex, sb, 2, rng));
            } else {
                let pre = Key::build(&gen_keyspec(rng, 15, 257, false, false));
                ds.push(ds_rdata(apex, &pre, 2, rng));
            }
        }
        "ds-unsupported-alg" => {
            let k = ksk.unwrap();
            ds.push(ds_rdata(apex, k, 2, rng));
        }
        "ds-unsupported-digest" => {
            let k = ksk.unwrap();
            ds.push(ds_rdata(apex, k, DIGEST_UNSUPPORTED, rng));
        }
        "ds-stale" => {
            // the parent still lists a key the child no longer has
            let old = Key::build(&gen_keyspec(rng, 15, 257, true, false));
            ds.push(ds_rdata(apex, &old, 2, rng));
        }
        _ => {} // no-ds, island
    }
    ds
}

/// Generate one hierarchy. `idx` rotates the link mode of the first leaf so that all classes are
/// covered across a run; `collision` (if found) is planted into one signed zone of some hierarchies.
pub fn gen_hier(rng: &mut Rng, idx: u64, collision: Option<&Collision>, attacker_tags: &[u16]) -> Hier {
    POOL_USED.with(|u| u.borrow_mut().clear());
    let now = 1_700_000_000u32;
    let n_tld = rng.urange(1, 2);
    let n_leaf = rng.urange(1, 3);
    let tld_names = ["ta.", "tb."];
    let leaf_labels: [&[u8]; 3] = [b"la", b"lb", b"lc"];
    let mut apexes: Vec<Name> = vec![name(".")];
    let mut parents: Vec<Option<usize>> = vec![None];
    for t in tld_names.iter().take(n_tld) {
        apexes.push(name(t));
        parents.push(Some(0));
    }
    for l in 0..n_leaf {
        let p = 1 + rng.usize_below(n_tld);
        apexes.push(child(leaf_labels[l], &apexes[p]));
        parents.push(Some(p));
    }
    let n = apexes.len();
    // link modes: TLDs mostly good; first leaf rotates through every mode
    let mut modes: Vec<String> = vec!["root".into()];
    for _ in 0..n_tld {
        modes.push(if rng.chance(3, 4) { "ds-good".into() } else { (*rng.pick(LINK_MODES)).to_string() });
    }
    for l in 0..n_leaf {
        modes.push(if l == 0 { LINK_MODES[(idx as usize) % LINK_MODES.len()].to_string() } else { (*rng.pick(LINK_MODES)).to_string() });
    }
    // Below a parent that is not itself securely delegated a DS RRset has no meaning; such
    // hierarchies (signed child with DS under an unsigned / unsupported-algorithm / broken parent)
    // are left out: hickory answers Bogus there where RFC 4035 section 4.3 says Insecure, which is stricter,
    // not unsound. Children of such parents are plain unsigned zones or islands.
    for i in 1..n {
        let p = parents[i].unwrap();
        let parent_secure = matches!(modes[p].as_str(), "root" | "ds-good" | "ds-mixed" | "ds-standby");
        if !parent_secure && !matches!(modes[i].as_str(), "no-ds" | "island") {
            modes[i] = if rng.bool() { "no-ds".into() } else { "island".into() };
        }
    }
    // content
    let mut zones: Vec<ZoneSpec> = Vec::new();
    for i in 0..n {
        let others: Vec<Name> = apexes.iter().enumerate().filter(|(j, a)| *j != i && !a.is_empty()).map(|(_, a)| a.clone()).collect();
        let zone = zone_content(rng, &apexes[i], &others);
        let mode = modes[i].clone();
        let signed = mode != "no-ds";
        let keys = if signed { gen_zone_keys(rng, mode == "ds-unsupported-alg") } else { Vec::new() };
        let nsec3 = if signed && rng.chance(if i == 0 { 1 } else { 4 }, 8) {
            let salt_len = *rng.pick(&[0usize, 1, 8]);
            Some(Nsec3Params { salt: rng.bytes(salt_len), iterations: *rng.pick(&[0u16, 1, 5]), opt_out: rng.chance(1, 2) })
        } else {
            None
        };
        zones.push(ZoneSpec { zone, keys, nsec3, signed, mode });
    }
    // planted key-tag collision: replace / add ZSKs (or KSKs) in one zone that is signed with real keys
    if let Some(c) = collision {
        if rng.chance(1, 3) {
            let cands: Vec<usize> = (0..n).filter(|i| zones[*i].signed && zones[*i].mode != "ds-unsupported-alg").collect();
            let zi = *rng.pick(&cands);
            let ks = &mut zones[zi].keys;
            let as_ksk = rng.chance(1, 3);
            let flags = if as_ksk { 257 } else { 256 };
            // the active key of that role becomes collision member `a`, stand-by member `b` is published too
            let (first, second) = if rng.bool() { (&c.a, &c.b) } else { (&c.b, &c.a) };
            if let Some(k) = ks.iter_mut().find(|k| k.flags == flags && (if as_ksk { k.signs_keyset } else { k.signs_data })) {
                k.alg = 15;
                k.material = first.clone();
            } else {
                ks.push(KeySpec { alg: 15, flags, material: first.clone(), signs_keyset: as_ksk, signs_data: !as_ksk, publish: true });
            }
            ks.push(KeySpec { alg: 15, flags, material: second.clone(), signs_keyset: false, signs_data: false, publish: true });
            zones[zi].mode = format!("{}+collision", zones[zi].mode);
        }
    }
    // Some Ed25519 KSKs get a key tag for which the attacker holds a key of his own (an attacker grinds
    // his key to the victim's tag; here the victim's key is ground instead: same situation, cheaper).
    if !attacker_tags.is_empty() {
        for z in zones.iter_mut() {
            if !z.signed || z.mode.contains("collision") || !rng.chance(1, 3) {
                continue;
            }
            if let Some(k) = z.keys.iter_mut().find(|k| k.signs_keyset && k.alg == 15) {
                for _ in 0..20_000 {
                    let seed = rng.bytes(32);
                    let tag = refsign::key_tag(&refsign::dnskey_rdata(k.flags, 15, &ed25519_public(&seed)));
                    if attacker_tags.contains(&tag) {
                        k.material = seed;
                        z.mode = format!("{}+tagmatch", z.mode);
                        break;
                    }
                }
            }
        }
    }
    // delegations (NS + DS in the parent)
    for i in 1..n {
        let p = parents[i].unwrap();
        let apex = apexes[i].clone();
        let mode = zones[i].mode.clone();
        let base_mode = mode.split('+').next().unwrap().to_string();
        let ds = delegation_ds(rng, &apex, &base_mode, &zones[i].keys);
        let ns = refzone::rd_name(&child(b"ns1", &apex));
        zones[p].zone.add(&apex, ty::NS, ns);
        for d in ds {
            zones[p].zone.add(&apex, ty::DS, d);
        }
    }
    Hier { zones, now, inception: now - 86_400, expiration: now + 14 * 86_400, probes_do: rng.chance(3, 4) }
}

// ---------------------------------------------------------------------------------------------
// built world + ground truth

#[derive(Clone, Copy, Debug, PartialEq, Eq)]
pub enum Status {
    Secure,
    Insecure,
    Bogus,
}

impl Status {
    pub fn as_str(&self) -> &'static str {
        match self {
            Status::Secure => "secure",
            Status::Insecure => "insecure",
            Status::Bogus => "bogus",
        }
    }
}

pub struct BZone {
    pub apex: Name,
    pub spec: ZoneSpec,
    /// configured data + DNSKEY RRset + NSEC3PARAM (what RefAuth answers from)
    pub full: Zone,
    pub keys: Vec<Key>,
    pub nsec: Vec<Nsec>,
    pub nsec3: Vec<Nsec3>,
    pub parent: Option<usize>,
    pub status: Status,
}

pub struct Truth {
    pub hier: Hier,
    pub zones: Vec<BZone>,
    /// (algorithm, public key) of the configured trust anchor: the first keyset-signing key of the
    /// top zone (`zones[0]`: the root, or the anchored non-root zone of an island world)
    pub anchor: (u8, Vec<u8>),
}

impl Truth {
    pub fn build(hier: &Hier) -> Truth {
        let mut zones: Vec<BZone> = Vec::new();
        for zs in &hier.zones {
            let apex = zs.zone.apex.clone();
            let keys: Vec<Key> = zs.keys.iter().map(Key::build).collect();
            let mut full = zs.zone.clone();
            if zs.signed {
                for k in keys.iter().filter(|k| k.spec.publish) {
                    full.add(&apex, ty::DNSKEY, k.rdata.clone());
                }
                if let Some(p) = &zs.nsec3 {
                    full.add(&apex, ty::NSEC3PARAM, chain::nsec3param_rdata(p));
                }
            }
            let (nsec, nsec3) = match (&zs.nsec3, zs.signed) {
                (_, false) => (Vec::new(), Vec::new()),
                (None, true) => (chain::nsec_chain(&full), Vec::new()),
                (Some(p), true) => (Vec::new(), chain::nsec3_chain(&full, p)),
            };
            zones.push(BZone { apex, spec: zs.clone(), full, keys, nsec, nsec3, parent: None, status: Status::Bogus });
        }
        // parents: deepest other zone whose apex is a strict ancestor
        for i in 0..zones.len() {
            let mut best: Option<usize> = None;
            for j in 0..zones.len() {
                if j != i && is_strict_subdomain(&zones[i].apex, &zones[j].apex) && best.map_or(true, |b| zones[j].apex.len() > zones[b].apex.len()) {
                    best = Some(j);
                }
            }
            zones[i].parent = best;
        }
        let anchor = zones[0].keys.iter().find(|k| k.spec.signs_keyset).map(|k| (k.spec.alg, k.public.clone())).expect("root has a keyset-signing key");
        let mut t = Truth { hier: hier.clone(), zones, anchor };
        for i in 0..t.zones.len() {
            t.zones[i].status = t.compute_status(i);
        }
        t
    }

    /// Is the zone's own signing set-up sound: some published, keyset-signing zone key satisfies
    /// `authenticated`, and every RRset is signed by a published zone key.
    fn internally_signed(&self, i: usize, authenticated: &dyn Fn(&Key) -> bool) -> bool {
        let z = &self.zones[i];
        if !z.spec.signed {
            return false;
        }
        let zone_key = |k: &&Key| k.spec.publish && k.spec.flags & 0x0100 != 0 && k.spec.flags & 0x0080 == 0 && alg_supported(k.spec.alg);
        z.keys.iter().filter(zone_key).any(|k| k.spec.signs_keyset && authenticated(k)) && z.keys.iter().filter(zone_key).any(|k| k.spec.signs_data)
    }

    fn compute_status(&self, i: usize) -> Status {
        let z = &self.zones[i];
        let Some(p) = z.parent else {
            // the root: anchored key must be in the keyset and sign it
            let ok = self.internally_signed(i, &|k: &Key| (k.spec.alg, k.public.clone()) == self.anchor);
            return if ok { Status::Secure } else { Status::Bogus };
        };
        match self.compute_status(p) {
            Status::Insecure => return Status::Insecure,
            Status::Bogus => return Status::Bogus,
            Status::Secure => {}
        }
        let ds: Vec<Vec<u8>> = self.zones[p].full.rrset(&z.apex, ty::DS).cloned().unwrap_or_default();
        if ds.is_empty() {
            return Status::Insecure;
        }
        let supported: Vec<&Vec<u8>> = ds.iter().filter(|d| d.len() > 4 && alg_supported(d[2]) && digest_supported(d[3])).collect();
        if supported.is_empty() {
            return Status::Insecure;
        }
        let matches = |k: &Key| {
            supported.iter().any(|d| {
                u16::from_be_bytes([d[0], d[1]]) == k.tag && d[2] == k.spec.alg && refsign::ds_digest(&z.apex, &k.rdata, d[3]).is_some_and(|dg| dg.as_slice() == &d[4..])
            })
        };
        if self.internally_signed(i, &matches) {
            Status::Secure
        } else {
            Status::Bogus
        }
    }

    /// apex of the zone whose keyset-signing key is the configured trust anchor: the root in the
    /// root-anchored worlds, a non-root name in the anchored-island worlds (`isl.rs`)
    pub fn anchor_apex(&self) -> &Name {
        &self.zones[0].apex
    }

    /// does `n` lie at or below the trust anchor? (always true in the root-anchored worlds)
    pub fn under_anchor(&self, n: &[Vec<u8>]) -> bool {
        is_subdomain(&fold(n), &self.zones[0].apex)
    }

    /// deepest zone whose apex is an ancestor-or-self of `n`
    pub fn zone_of_name(&self, n: &[Vec<u8>]) -> usize {
        let mut best = 0;
        for (i, z) in self.zones.iter().enumerate() {
            if is_subdomain(n, &z.apex) && z.apex.len() >= self.zones[best].apex.len() {
                best = i;
            }
        }
        best
    }

    /// zone that is authoritative for (name, type): parent side for DS at an apex
    pub fn responsible(&self, n: &[Vec<u8>], t: u16) -> usize {
        let z = self.zone_of_name(n);
        if t == ty::DS && fold(n) == self.zones[z].apex {
            if let Some(p) = self.zones[z].parent {
                return p;
            }
        }
        z
    }

    /// zones from the root down to `i`
    pub fn path(&self, i: usize) -> Vec<usize> {
        let mut v = vec![i];
        let mut c = i;
        while let Some(p) = self.zones[c].parent {
            v.push(p);
            c = p;
        }
        v.reverse();
        v
    }

    pub fn class_of(&self, i: usize) -> String {
        let z = &self.zones[i];
        format!("{}/{}", z.spec.mode, if !z.spec.signed { "unsigned" } else if z.spec.nsec3.is_some() { "nsec3" } else { "nsec" })
    }

    /// The genuine RRset(s) for (owner, type) per ground truth: (zone, canonical RDATA set).
    /// NSEC at a zone cut has two genuine versions (parent side and child apex).
    pub fn genuine(&self, owner: &[Vec<u8>], t: u16) -> Vec<(usize, BTreeSet<Vec<u8>>)> {
        let owner = fold(owner);
        let mut out = Vec::new();
        match t {
            chain::T_NSEC => {
                for (i, z) in self.zones.iter().enumerate() {
                    if let Some(n) = z.nsec.iter().find(|n| n.owner == owner) {
                        out.push((i, [canon(t, &chain::nsec_rdata(n))].into_iter().collect()));
                    }
                }
            }
            chain::T_NSEC3 => {
                if owner.is_empty() {
                    return out;
                }
                for (i, z) in self.zones.iter().enumerate() {
                    if z.apex == owner[1..] {
                        if let Some(p) = &z.spec.nsec3 {
                            if let Some(n) = z.nsec3.iter().find(|n| chain::base32hex(&n.hash) == owner[0]) {
                                out.push((i, [canon(t, &chain::nsec3_rdata(n, p))].into_iter().collect()));
                            }
                        }
                    }
                }
            }
            _ => {
                let zi = self.responsible(&owner, t);
                let o = refzone::ref_auth(&self.zones[zi].full, &owner, t);
                let st = o.first_step();
                let rrs: Vec<&refzone::Rr> = match st.kind {
                    refzone::Kind::Answer | refzone::Kind::WildcardAnswer => st.rrs.iter().collect(),
                    refzone::Kind::CnameChain | refzone::Kind::WildcardCname if t == ty::CNAME => st.rrs.iter().collect(),
                    _ => Vec::new(),
                };
                if !rrs.is_empty() {
                    out.push((zi, rrs.iter().map(|r| canon(t, &r.2)).collect()));
                }
            }
        }
        out
    }

    /// zone(s) a record with this owner/type belongs to (for the "may it be Insecure" question)
    pub fn zones_of_record(&self, owner: &[Vec<u8>], t: u16) -> Vec<usize> {
        let owner = fold(owner);
        let z = self.responsible(&owner, t);
        let mut v = vec![z];
        if t == chain::T_NSEC && owner == self.zones[z].apex {
            if let Some(p) = self.zones[z].parent {
                v.push(p);
            }
        }
        v
    }
}

/// lenient reading of an RFC 4034 section 4.1.2 type bitmap into the set of types it denotes
fn bitmap_types(b: &[u8]) -> BTreeSet<u16> {
    let mut out = BTreeSet::new();
    let mut i = 0;
    while i + 2 <= b.len() {
        let w = b[i] as u16;
        let len = b[i + 1] as usize;
        let bytes = &b[i + 2..(i + 2 + len).min(b.len())];
        for (k, x) in bytes.iter().enumerate() {
            for bit in 0..8 {
                if x & (0x80 >> bit) != 0 {
                    out.insert((w << 8) | (k * 8 + bit) as u16);
                }
            }
        }
        i += 2 + len;
    }
    out
}

/// semantic normal form of RDATA for membership tests: embedded names lower-cased, NSEC / NSEC3
/// type bitmaps re-encoded canonically (a non-canonical encoding of the same type set denotes the
/// same record; hickory keeps the original encoding for signature checks but compares type sets)
pub fn canon(t: u16, rd: &[u8]) -> Vec<u8> {
    if t == chain::T_NSEC {
        if let Some((n, off)) = refzone::read_wire_name(rd, 0) {
            let mut v = refzone::wire_name(&n);
            v.extend(chain::type_bitmap(&bitmap_types(&rd[off..])));
            return v;
        }
        return rd.to_vec();
    }
    if t == chain::T_NSEC3 {
        // alg, flags, iterations(2), salt length, salt, hash length, hash, bitmap
        if rd.len() >= 5 {
            let s = 5 + rd[4] as usize;
            if rd.len() > s {
                let hlen = rd[s] as usize;
                let b = s + 1 + hlen;
                if rd.len() >= b {
                    let mut v = rd[..b].to_vec();
                    v.extend(chain::type_bitmap(&bitmap_types(&rd[b..])));
                    return v;
                }
            }
        }
        return rd.to_vec();
    }
    refsign::canonical_rdata(t, rd).unwrap_or_else(|_| rd.to_vec())
}
