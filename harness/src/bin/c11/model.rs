//! The independent GATE MODEL of C11 (plain types only; no hickory code).
//!
//! Input: configuration (zone origins + handler chains, allow/deny prefix sets), source address,
//! request bytes.  Output: whether a response is due and what it may look like.
//!
//! The model evaluates every error condition of the statement separately as No / Maybe / Yes:
//!
//!  | condition            | rcode    | Yes when …                                   | Maybe when … (don't-care)                  |
//!  |----------------------|----------|----------------------------------------------|--------------------------------------------|
//!  | unknown opcode       | NOTIMP   | opcode ∉ {0,2,4,5}                           | –                                          |
//!  | question unparsable  | FORMERR  | QDCOUNT ≠ 1 (RFC 9619, documented), name /   | the QNAME uses a compression pointer (the  |
//!  |                      |          | fixed part runs off the end or is malformed  | accepted pointer forms are not in the      |
//!  |                      |          | under the permissive walker                  | statement)                                 |
//!  | source denied        | REFUSED  | longest deny prefix not beaten by a strictly | deny/allow lists exist only for the other  |
//!  |                      |          | longer allow prefix; only-allow lists miss   | address family (doc comment is ambiguous)  |
//!  | body unparsable      | FORMERR  | a record runs off the end of the message     | anything that is not on the small          |
//!  |                      |          |                                              | "certainly valid" whitelist below          |
//!  | pseudo-RR misplaced  | FORMERR  | more than one OPT RR anywhere in the message | a lone OPT in answer/authority, OPT with a |
//!  |                      |          | (RFC 6891 §6.1.1 MUST); a well-formed TSIG   | non-root owner, SIG(0) anywhere, a type-250|
//!  |                      |          | RR that is not the last additional record /  | record that is not a well-formed TSIG RR   |
//!  |                      |          | a second TSIG (RFC 8945 §5.2 MUST)           | (see `pseudo_records`)                     |
//!  | EDNS version > 0     | BADVERS  | the one OPT in the additional section has    | the records could not be walked; a lone    |
//!  |                      |          | version > 0                                  | OPT outside the additional section has one |
//!  | TSIG key unknown     | NOTAUTH  | –                                            | one well-formed TSIG in its place (no keys |
//!  |                      |          |                                              | are configured: RFC 8945 §5.2.1 says       |
//!  |                      |          |                                              | NOTAUTH/BADKEY, ignoring it is tolerated)  |
//!  | unsupported opcode   | NOTIMP   | STATUS, NOTIFY                               | –                                          |
//!  | no enclosing zone    | REFUSED  | QUERY and no configured origin is a suffix   | –                                          |
//!
//! Where several conditions hold at once the statement gives no order, so every rcode whose
//! condition is Yes or Maybe is admissible; the ordinary outcome (answer from the longest-suffix
//! zone / UPDATE result) is admissible only if NO condition is Yes.  In particular a denied source
//! can never obtain zone data.  `branch` = first Yes condition in the order above (for counters and
//! finding signatures), else the ordinary outcome.

use std::net::IpAddr;

use vh::refwire::{self, fold, Labels};

use crate::cfg::{Config, HKind, Net};

#[derive(Clone, Copy, Debug, PartialEq, Eq)]
pub enum Tri {
    No,
    Maybe,
    Yes,
}

pub const NOERROR: u16 = 0;
pub const FORMERR: u16 = 1;
pub const NXDOMAIN: u16 = 3;
pub const NOTIMP: u16 = 4;
pub const REFUSED: u16 = 5;
pub const NOTAUTH: u16 = 9;
pub const BADVERS: u16 = 16;

#[derive(Clone, Debug, PartialEq, Eq)]
pub struct Question {
    pub labels: Labels,
    pub qtype: u16,
    pub qclass: u16,
    /// offset just past QCLASS in the request
    pub end: usize,
    /// number of compression pointers in QNAME
    pub pointers: usize,
    /// a pointer lands inside the 12 header octets
    pub header_pointer: bool,
}

#[derive(Clone, Debug, PartialEq, Eq)]
pub enum Normal {
    /// answered by handler `marker` of the longest-suffix zone; `strict` = ordinary class/type, so
    /// rcode ∈ {NOERROR, NXDOMAIN} and the marker must be present
    Zone { origin: String, marker: Option<u16>, strict: bool },
    /// UPDATE reaching the catalog: result code is C12's business (don't-care here)
    Update,
    /// not applicable (some condition is certain or the question is unknown)
    None,
}

#[derive(Clone, Debug, PartialEq, Eq)]
pub enum QEcho {
    /// response must carry exactly the request's question
    Must,
    /// question may be absent; if present it must equal the request's
    IfPresent,
    /// QNAME went through the header octets (or question unknown): not compared
    DontCare,
}

#[derive(Clone, Debug)]
pub struct Expect {
    pub branch: &'static str,
    pub respond: bool,
    /// admissible rcodes of the error conditions (Yes or Maybe)
    pub err_rcodes: Vec<u16>,
    pub normal: Normal,
    pub qecho: QEcho,
    pub question: Option<Question>,
    pub conds: Vec<(&'static str, Tri)>,
    /// pseudo-record situations found in the body (counters only; see `pseudo_records`)
    pub tags: Vec<&'static str>,
    /// "pseudo-RR misplaced" is the ONLY certain condition and without it the request would be a
    /// strict zone answer: a server that lets the body through hands out zone data
    pub pseudo_shadows_answer: bool,
}

pub fn question(b: &[u8]) -> Result<Question, String> {
    let (n, p) = refwire::read_name(b, 12)?;
    if p + 4 > b.len() {
        return Err("question fixed part runs off the end".into());
    }
    let qtype = u16::from_be_bytes([b[p], b[p + 1]]);
    let qclass = u16::from_be_bytes([b[p + 2], b[p + 3]]);
    Ok(Question { header_pointer: n.targets.iter().any(|t| *t < 12), pointers: n.pointers, labels: n.labels, qtype, qclass, end: p + 4 })
}

/// Is `ip` denied?  Documented semantics (access.rs): per address family, the longest matching
/// deny prefix loses only against a strictly longer matching allow prefix; deny-only match ⇒ denied;
/// allow-only match ⇒ allowed; no match: lists with deny entries allow the rest, allow-only lists deny
/// the rest, empty lists allow.  v4-mapped v6 sources count as v4.
pub fn acl_denied(cfg: &Config, ip: IpAddr) -> Tri {
    let (v6, addr): (bool, u128) = match ip {
        IpAddr::V4(a) => (false, (u32::from(a) as u128) << 96),
        IpAddr::V6(a) => {
            let x = u128::from(a);
            if x >> 32 == 0xffff {
                (false, ((x & 0xffff_ffff) as u128) << 96)
            } else {
                (true, x)
            }
        }
    };
    let lpm = |nets: &[Net]| -> Option<u8> { nets.iter().filter(|n| n.v6 == v6 && (addr & Net::mask(n.len)) == n.addr).map(|n| n.len).max() };
    match (lpm(&cfg.deny), lpm(&cfg.allow)) {
        (Some(d), Some(a)) => {
            if a > d {
                Tri::No
            } else {
                Tri::Yes
            }
        }
        (Some(_), None) => Tri::Yes,
        (None, Some(_)) => Tri::No,
        (None, None) => {
            let reading = |deny_any: bool, allow_any: bool| -> bool { !deny_any && allow_any };
            let fam = reading(cfg.deny.iter().any(|n| n.v6 == v6), cfg.allow.iter().any(|n| n.v6 == v6));
            let glob = reading(!cfg.deny.is_empty(), !cfg.allow.is_empty());
            match (fam, glob) {
                (true, true) => Tri::Yes,
                (false, false) => Tri::No,
                _ => Tri::Maybe,
            }
        }
    }
}

#[derive(Clone, Copy, Debug, PartialEq, Eq)]
pub enum Edns {
    None,
    Version(u8),
    Unknown,
}

/// What the model concluded about everything after the question.
#[derive(Clone, Debug)]
pub struct Body {
    /// framing: a record runs off the end (Yes) / not on the certainly-valid whitelist (Maybe)
    pub framing: Tri,
    /// pseudo-record placement (see `pseudo_records`)
    pub pseudo: Tri,
    pub edns: Edns,
    /// a lone OPT outside the additional section announces a version > 0 (don't-care BADVERS)
    pub stray_opt_version: bool,
    /// exactly one well-formed TSIG RR, last record of the additional section
    pub tsig_in_place: bool,
    pub tags: Vec<&'static str>,
}

/// RFC 8945 §4.2: algorithm name (uncompressed), 48-bit time, fudge, MAC size + MAC, original id,
/// error, other len + other data, nothing left over; owner = key name, CLASS ANY, TTL 0.
fn tsig_well_formed(b: &[u8], r: &refwire::WRecord) -> bool {
    if r.class != 255 || r.ttl != 0 || r.owner.pointers != 0 {
        return false;
    }
    let rd = r.rdata(b);
    // algorithm name: plain labels inside the RDATA
    let mut i = 0usize;
    loop {
        let Some(&l) = rd.get(i) else { return false };
        if l & 0xC0 != 0 {
            return false;
        }
        i += 1 + l as usize;
        if l == 0 {
            break;
        }
    }
    if i > 255 || i + 10 > rd.len() {
        return false;
    }
    let mac = u16::from_be_bytes([rd[i + 8], rd[i + 9]]) as usize;
    i += 10 + mac;
    if i + 6 > rd.len() {
        return false;
    }
    let other = u16::from_be_bytes([rd[i + 4], rd[i + 5]]) as usize;
    i + 6 + other == rd.len()
}

/// SIG(0)-shaped: TYPE SIG (24) whose "type covered" field is 0 (RFC 2931 §3).
fn sig0_shaped(b: &[u8], r: &refwire::WRecord) -> bool {
    let rd = r.rdata(b);
    r.rtype == 24 && rd.len() >= 18 && rd[0] == 0 && rd[1] == 0
}

/// Placement rules of the pseudo-records, evaluated on the model's own walk of the message.
///
/// REQUIRED FORMERR (Yes) – only where an RFC says MUST to the receiver:
///  * more than one RR of TYPE OPT anywhere in the message.  RFC 6891 §6.1.1: "When an OPT RR is
///    included within any DNS message, it MUST be the only OPT RR in that message.  If a query
///    message with more than one OPT RR is received, a FORMERR (RCODE=1) MUST be returned."  The
///    count is over the whole message, so answer+additional / authority+additional count too.
///  * a well-formed TSIG RR anywhere but last in the additional section, or two of them.  RFC 8945
///    §5.2: "If multiple TSIG records are detected or a TSIG record is present in any other
///    position, the DNS message is dropped and a response with RCODE 1 (FORMERR) MUST be returned."
///    RFC 6891 §6.1.1 repeats that OPT placement "does not override the need for the TSIG or SIG(0)
///    RRs to be the last in the additional section".  (Applies because the harness builds hickory
///    with `dnssec-ring`, i.e. the server implements TSIG; a build without it would see an unknown
///    type and this clause would have to become a don't-care.)
///
/// DON'T-CARE (Maybe: FORMERR and the ordinary outcome both admissible; counted per tag):
///  * a lone OPT in the answer or authority section.  RFC 6891 defines the OPT RR for the
///    additional section only ("MAY be added to the additional data section of a request"), but
///    gives the receiver no instruction for a single misplaced one – rejecting (BIND, Knot, hickory's
///    decoder) and ignoring it are both defensible.  If it announces a version > 0, BADVERS is
///    admissible as well;
///  * an OPT whose owner is not the root: §6.1.2 "MUST be 0 (root domain)" binds the sender; no
///    receiver action is prescribed;
///  * SIG(0)-shaped records (answer/authority/not last): RFC 2931 asks for "the end of the
///    additional section" but mandates no RCODE, and hickory does not implement SIG(0);
///  * a type-250 record that is not a well-formed TSIG RR (wrong class / TTL / RDATA layout): §5.2
///    says FORMERR for a TSIG that "cannot be interpreted", but what exactly is interpretable is not
///    the model's call (an empty one is a legitimate RRset-deletion form in an UPDATE section).
fn pseudo_records(b: &[u8], m: &refwire::WMessage) -> (Tri, Edns, bool, bool, Vec<&'static str>) {
    let mut tags: Vec<&'static str> = Vec::new();
    let mut verdict = Tri::No;
    fn raise(v: &mut Tri, t: Tri) {
        if t == Tri::Yes || *v == Tri::No {
            *v = t;
        }
    }
    // OPT
    let opts: Vec<(usize, &refwire::WRecord)> = m.sections.iter().enumerate().flat_map(|(si, s)| s.iter().filter(|r| r.rtype == 41).map(move |r| (si, r))).collect();
    let mut edns = Edns::None;
    let mut stray_version = false;
    match opts.len() {
        0 => {}
        1 => {
            let (si, o) = opts[0];
            let version = (o.ttl >> 16) as u8;
            if si == 2 {
                edns = Edns::Version(version);
                if !o.owner.labels.is_empty() {
                    tags.push("opt-owner-nonroot");
                    raise(&mut verdict, Tri::Maybe);
                }
            } else {
                tags.push(if si == 0 { "opt1/an" } else { "opt1/ns" });
                stray_version = version > 0;
                raise(&mut verdict, Tri::Maybe);
            }
        }
        n => {
            edns = Edns::Unknown;
            tags.push(match (n, opts[0].0, opts[1].0) {
                (2, 0, 2) => "opt2/an+ar",
                (2, 1, 2) => "opt2/ns+ar",
                (2, 2, 2) => "opt2/ar+ar",
                (2, 0, 1) => "opt2/an+ns",
                (2, _, _) => "opt2/same-data-section",
                _ => "opt2/three-or-more",
            });
            raise(&mut verdict, Tri::Yes);
        }
    }
    // TSIG
    let last_ar = m.sections[2].len().wrapping_sub(1);
    let mut good_tsigs = 0usize;
    let mut tsig_in_place = false;
    for (si, sec) in m.sections.iter().enumerate() {
        for (ri, r) in sec.iter().enumerate().filter(|(_, r)| r.rtype == 250) {
            if !tsig_well_formed(b, r) {
                tags.push("tsig-malformed");
                raise(&mut verdict, Tri::Maybe);
                continue;
            }
            good_tsigs += 1;
            if si == 2 && ri == last_ar {
                tsig_in_place = true;
                tags.push("tsig/ar-last");
            } else {
                tags.push(match si {
                    0 => "tsig/an",
                    1 => "tsig/ns",
                    _ => "tsig/ar-not-last",
                });
                raise(&mut verdict, Tri::Yes);
            }
        }
    }
    if good_tsigs >= 2 {
        tags.push("tsig/two");
    }
    // SIG(0)
    for (si, sec) in m.sections.iter().enumerate() {
        for (ri, _) in sec.iter().enumerate().filter(|(_, r)| sig0_shaped(b, r)) {
            let in_place = si == 2 && (ri == last_ar || (ri + 1 == last_ar && sec[last_ar].rtype == 250));
            tags.push(match (si, in_place) {
                (0, _) => "sig0/an",
                (1, _) => "sig0/ns",
                (_, true) => "sig0/ar-last",
                _ => "sig0/ar-not-last",
            });
            raise(&mut verdict, Tri::Maybe);
        }
    }
    tags.dedup();
    (verdict, edns, stray_version, tsig_in_place && good_tsigs == 1 && verdict != Tri::Yes, tags)
}

/// Everything after the question: framing, pseudo-record placement, EDNS.
pub fn body(b: &[u8], q: &Question, opcode: u8) -> Body {
    let m = match refwire::walk(b) {
        Ok(m) => m,
        Err(e) => {
            // data that is simply not there: every parser must fail
            let missing = e.contains("runs off the end") || e.contains("short read");
            return Body { framing: if missing { Tri::Yes } else { Tri::Maybe }, pseudo: Tri::No, edns: Edns::Unknown, stray_opt_version: false, tsig_in_place: false, tags: vec![] };
        }
    };
    let (pseudo, edns, stray_opt_version, tsig_in_place, tags) = pseudo_records(b, &m);
    // whitelist of certainly-valid bodies
    let mut simple = m.end == b.len();
    for (si, sec) in m.sections.iter().enumerate() {
        for r in sec {
            let owner_ok = r.owner.pointers == 0 || (r.owner.pointers == 1 && r.owner.targets == [12] && q.pointers == 0 && b[r.start] & 0xC0 == 0xC0);
            let rd = r.rdata(b);
            let data_ok = match r.rtype {
                1 => r.class == 1 && (rd.len() == 4 || (opcode == 5 && rd.is_empty())),
                16 => {
                    r.class == 1 && {
                        let mut i = 0;
                        while i < rd.len() {
                            i += 1 + rd[i] as usize;
                        }
                        !rd.is_empty() && i == rd.len()
                    }
                }
                41 => {
                    si == 2 && r.owner.labels.is_empty() && r.owner.pointers == 0 && {
                        let mut i = 0;
                        let mut ok = true;
                        while i < rd.len() {
                            if i + 4 > rd.len() {
                                ok = false;
                                break;
                            }
                            let code = u16::from_be_bytes([rd[i], rd[i + 1]]);
                            let l = u16::from_be_bytes([rd[i + 2], rd[i + 3]]) as usize;
                            if code < 65001 || code > 65534 || i + 4 + l > rd.len() {
                                ok = false;
                                break;
                            }
                            i += 4 + l;
                        }
                        ok
                    }
                }
                _ => false,
            };
            if !(owner_ok && data_ok) {
                simple = false;
            }
        }
    }
    Body { framing: if simple { Tri::No } else { Tri::Maybe }, pseudo, edns, stray_opt_version, tsig_in_place, tags }
}

/// longest-suffix zone for folded labels
pub fn find_zone<'a>(cfg: &'a Config, qname: &Labels) -> Option<&'a crate::cfg::ZoneSpec> {
    let q = fold(qname);
    cfg.zones
        .iter()
        .filter(|z| {
            let o = z.origin_labels();
            o.len() <= q.len() && q[q.len() - o.len()..] == o[..]
        })
        .max_by_key(|z| z.origin_labels().len())
}

const ORDINARY_TYPES: &[u16] = &[1, 2, 5, 6, 15, 16, 28];

pub fn gate(cfg: &Config, src: IpAddr, b: &[u8]) -> Expect {
    let mut e = Expect { branch: "short", respond: false, err_rcodes: vec![], normal: Normal::None, qecho: QEcho::DontCare, question: None, conds: vec![], tags: vec![], pseudo_shadows_answer: false };
    if b.len() < 12 {
        return e;
    }
    let flags = u16::from_be_bytes([b[2], b[3]]);
    if flags & 0x8000 != 0 {
        e.branch = "qr";
        return e;
    }
    e.respond = true;
    let opcode = ((flags >> 11) & 0xf) as u8;
    let qd = u16::from_be_bytes([b[4], b[5]]);

    let c_unknown_op = if matches!(opcode, 0 | 2 | 4 | 5) { Tri::No } else { Tri::Yes };
    let q = if qd == 1 { question(b).ok() } else { None };
    let c_question = match &q {
        None => Tri::Yes,
        Some(q) if q.pointers > 0 => Tri::Maybe,
        Some(_) => Tri::No,
    };
    let c_acl = acl_denied(cfg, src);
    let bd = match &q {
        Some(q) => body(b, q, opcode),
        // not evaluated: the question already failed
        None => Body { framing: Tri::No, pseudo: Tri::No, edns: Edns::None, stray_opt_version: false, tsig_in_place: false, tags: vec![] },
    };
    let (c_body, c_pseudo) = (bd.framing, bd.pseudo);
    let c_badvers = match bd.edns {
        _ if q.is_none() || c_body == Tri::Yes || c_pseudo == Tri::Yes => Tri::No,
        Edns::Version(v) if v > 0 => Tri::Yes,
        Edns::Unknown => Tri::Maybe,
        _ if bd.stray_opt_version => Tri::Maybe,
        _ => Tri::No,
    };
    let c_tsig_key = if bd.tsig_in_place && c_body != Tri::Yes { Tri::Maybe } else { Tri::No };
    let c_unsupported = if matches!(opcode, 2 | 4) { Tri::Yes } else { Tri::No };
    let zone = match (&q, opcode) {
        (Some(q), 0) => Some(find_zone(cfg, &q.labels)),
        _ => None,
    };
    let c_nozone = match zone {
        Some(None) => Tri::Yes,
        _ => Tri::No,
    };
    let conds: Vec<(&'static str, Tri, u16)> = vec![
        ("notimp-unknown-opcode", c_unknown_op, NOTIMP),
        ("formerr-question", c_question, FORMERR),
        ("refused-acl", c_acl, REFUSED),
        ("formerr-body", c_body, FORMERR),
        ("formerr-pseudo", c_pseudo, FORMERR),
        ("badvers", c_badvers, BADVERS),
        ("tsig-unknown-key", c_tsig_key, NOTAUTH),
        ("notimp-opcode", c_unsupported, NOTIMP),
        ("refused-nozone", c_nozone, REFUSED),
    ];
    for (_, t, rc) in &conds {
        if *t != Tri::No && !e.err_rcodes.contains(rc) {
            e.err_rcodes.push(*rc);
        }
    }
    let first_yes = conds.iter().find(|c| c.1 == Tri::Yes).map(|c| c.0);
    e.conds = conds.iter().map(|c| (c.0, c.1)).collect();
    if first_yes.is_none() {
        e.normal = match (opcode, zone) {
            (5, _) => Normal::Update,
            (0, Some(Some(z))) => {
                let q = q.as_ref().unwrap();
                let marker = z.chain.iter().find(|h| h.kind != HKind::Skip).map(|h| h.marker);
                Normal::Zone { origin: z.origin.clone(), marker, strict: marker.is_some() && q.qclass == 1 && ORDINARY_TYPES.contains(&q.qtype) }
            }
            _ => Normal::None,
        };
    }
    if first_yes == Some("formerr-pseudo") && conds.iter().filter(|c| c.1 == Tri::Yes).count() == 1 && opcode == 0 {
        if let (Some(Some(z)), Some(q)) = (zone, q.as_ref()) {
            e.pseudo_shadows_answer = z.chain.iter().any(|h| h.kind != HKind::Skip) && q.qclass == 1 && ORDINARY_TYPES.contains(&q.qtype);
        }
    }
    e.tags = bd.tags;
    e.branch = first_yes.unwrap_or(match &e.normal {
        Normal::Update => "update",
        Normal::Zone { marker: None, .. } => "zone-all-skip",
        Normal::Zone { .. } => "zone-answer",
        Normal::None => "unreachable",
    });
    e.qecho = match &q {
        Some(q) if q.header_pointer => QEcho::DontCare,
        // the server certainly parsed the question: it must come back
        Some(q) if q.pointers == 0 && c_unknown_op == Tri::No => QEcho::Must,
        Some(_) => QEcho::IfPresent,
        // request question unknown to the model: a response without question is expected, one
        // with a question cannot be compared
        None => QEcho::DontCare,
    };
    e.question = q;
    e
}
