//! Thorough tier: a real `Server` on 127.0.0.1 UDP + TCP sockets, same gate model as oracle.
//!
//! Per configuration a server is started on fresh loopback sockets and a batch of requests is sent
//! from one client address (127.0.0.1 / 127.0.0.2 / 127.1.2.3, so the ACL matters).  Every request
//! is followed by a sync query ("probe", itself judged by the model); the client reads until the
//! probe's response arrives.  All datagrams / frames received during the batch are attributed to
//! requests by the (batch-unique) message id.
//!
//! Verdict rules specific to this mode:
//!  * expected response *missing* on UDP: inconclusive aspect, only counted (loopback may drop);
//!  * expected response missing on TCP although a later message on the same connection was
//!    answered (one connection is served in order): violation (count); connection closed by the
//!    server or sync reached only on the other transport: counted, not judged;
//!  * duplicates, responses to silent requests, mismatches (id/question/rcode/zone), responses
//!    carrying an id no request of the batch used, a panic on any server task, a listener task that
//!    ended before shutdown, or no answer to the probe on both transports: violations.

use std::collections::HashMap;
use std::net::{IpAddr, SocketAddr};
use std::time::Duration;

use hickory_net::xfer::Protocol;
use serde_json::{json, Value};
use tokio::io::{AsyncReadExt, AsyncWriteExt};
use tokio::net::{TcpListener, TcpStream, UdpSocket};
use tokio::time::timeout;

use vh::mon::{self, hex, unhex, Ctx, Reporter};
use vh::prng::Rng;
use vh::refwire::{self, labels_of, WHeader};

use crate::cfg::{self, Config, HKind};
use crate::model;
use crate::{obs, proto_name, reqgen};

#[derive(Clone)]
struct Sent {
    bytes: Vec<u8>,
    proto: Protocol,
    kind: String,
    is_probe: bool,
    /// TCP only: a later message on the SAME connection was answered, so (requests on one
    /// connection being handled in order) a response still missing is really missing
    tcp_ordered_sync: bool,
    responses: Vec<Vec<u8>>,
}

struct Client {
    ip: IpAddr,
    udp: UdpSocket,
    tcp: Option<TcpStream>,
    udp_server: SocketAddr,
    tcp_server: SocketAddr,
    inbox: Vec<Vec<u8>>,
    tcp_buf: Vec<u8>,
    reconnects: u64,
}

impl Client {
    async fn connect(&mut self) -> bool {
        let sock = match self.ip {
            IpAddr::V4(_) => tokio::net::TcpSocket::new_v4(),
            IpAddr::V6(_) => tokio::net::TcpSocket::new_v6(),
        };
        let Ok(sock) = sock else { return false };
        if sock.bind(SocketAddr::new(self.ip, 0)).is_err() {
            return false;
        }
        match timeout(Duration::from_secs(2), sock.connect(self.tcp_server)).await {
            Ok(Ok(s)) => {
                self.tcp = Some(s);
                self.tcp_buf.clear();
                true
            }
            _ => false,
        }
    }

    /// move complete frames from tcp_buf to the inbox
    fn deframe(&mut self) {
        while self.tcp_buf.len() >= 2 {
            let l = u16::from_be_bytes([self.tcp_buf[0], self.tcp_buf[1]]) as usize;
            if self.tcp_buf.len() < 2 + l {
                break;
            }
            self.inbox.push(self.tcp_buf[2..2 + l].to_vec());
            self.tcp_buf.drain(..2 + l);
        }
    }

    fn seen(&self, from: usize, id: u16) -> bool {
        self.inbox[from..].iter().any(|m| m.len() >= 2 && u16::from_be_bytes([m[0], m[1]]) == id)
    }

    /// read from the given transport until a message with `id` shows up; false on timeout / close
    async fn wait_for(&mut self, proto: Protocol, id: u16, from: usize, wait: Duration) -> Result<bool, ()> {
        let deadline = tokio::time::Instant::now() + wait;
        loop {
            if self.seen(from, id) {
                return Ok(true);
            }
            let left = deadline.saturating_duration_since(tokio::time::Instant::now());
            if left.is_zero() {
                return Ok(false);
            }
            match proto {
                Protocol::Tcp => {
                    let Some(s) = self.tcp.as_mut() else { return Err(()) };
                    let mut buf = [0u8; 8192];
                    match timeout(left, s.read(&mut buf)).await {
                        Err(_) => return Ok(false),
                        Ok(Ok(0)) | Ok(Err(_)) => {
                            self.tcp = None;
                            return Err(());
                        }
                        Ok(Ok(n)) => {
                            self.tcp_buf.extend_from_slice(&buf[..n]);
                            self.deframe();
                        }
                    }
                }
                _ => {
                    let mut buf = [0u8; 65535];
                    match timeout(left, self.udp.recv_from(&mut buf)).await {
                        Err(_) => return Ok(false),
                        Ok(Err(_)) => {} // ICMP errors surface here; ignore
                        Ok(Ok((n, from_addr))) => {
                            if from_addr == self.udp_server {
                                self.inbox.push(buf[..n].to_vec());
                            }
                        }
                    }
                }
            }
        }
    }

    async fn send(&mut self, proto: Protocol, bytes: &[u8]) -> Result<(), ()> {
        match proto {
            Protocol::Tcp => {
                if self.tcp.is_none() {
                    self.reconnects += 1;
                    if !self.connect().await {
                        return Err(());
                    }
                }
                let s = self.tcp.as_mut().unwrap();
                let mut frame = (bytes.len() as u16).to_be_bytes().to_vec();
                frame.extend_from_slice(bytes);
                if s.write_all(&frame).await.is_err() {
                    self.tcp = None;
                    return Err(());
                }
                Ok(())
            }
            _ => self.udp.send_to(bytes, self.udp_server).await.map(|_| ()).map_err(|_| ()),
        }
    }
}

fn probe_bytes(cfg: &Config, id: u16, nonce: &[u8]) -> Vec<u8> {
    // aimed at a zone that answers, if there is one (else the model says what happens)
    let origin = cfg.zones.iter().find(|z| z.chain.iter().any(|h| h.kind != HKind::Skip)).map(|z| z.origin.clone()).unwrap_or_else(|| cfg.zones[0].origin.clone());
    let mut name = vec![nonce.to_vec()];
    name.extend(labels_of(&origin));
    let mut b = Vec::new();
    refwire::put_header(&mut b, &WHeader { id, flags: 0x0100, qd: 1, an: 0, ns: 0, ar: 0 });
    refwire::put_question(&mut b, &name, 16, 1);
    b
}

fn case_json(cfg: &Config, ip: IpAddr, s: &Sent) -> Value {
    json!({"mode": "socket", "cfg": cfg.to_json(), "kind": s.kind, "src": ip.to_string(), "proto": proto_name(s.proto), "hex": hex(&s.bytes), "probe": s.is_probe})
}

/// Run a list of (kind, protocol, request bytes) against a fresh socket server; judge everything.
async fn batch(rep: &mut Reporter, cfg: &Config, ip: IpAddr, reqs: Vec<(String, Protocol, Vec<u8>)>, id0: u16) {
    let mut server = cfg::build_server(cfg);
    let (Ok(us), Ok(tl)) = (UdpSocket::bind("127.0.0.1:0").await, TcpListener::bind("127.0.0.1:0").await) else {
        rep.inconclusive("cannot bind loopback sockets");
        return;
    };
    let (udp_server, tcp_server) = (us.local_addr().unwrap(), tl.local_addr().unwrap());
    server.register_socket(us);
    server.register_listener(tl, Duration::from_secs(30), 64);
    let Ok(cu) = UdpSocket::bind(SocketAddr::new(ip, 0)).await else {
        rep.count("socket/client_bind_failed");
        return;
    };
    let mut cl = Client { ip, udp: cu, tcp: None, udp_server, tcp_server, inbox: vec![], tcp_buf: vec![], reconnects: 0 };
    let mut sent: Vec<Sent> = Vec::new();
    let mut by_id: HashMap<u16, usize> = HashMap::new();
    let mut next_id = id0;
    let mut fresh_id = |by_id: &HashMap<u16, usize>| loop {
        next_id = next_id.wrapping_add(1);
        if !by_id.contains_key(&next_id) {
            return next_id;
        }
    };
    let mut dead = false;
    let _ = mon::take_last_panic();
    for (n, (kind, proto, mut bytes)) in reqs.into_iter().enumerate() {
        if dead {
            break;
        }
        if bytes.len() >= 2 {
            let id = fresh_id(&by_id);
            bytes[..2].copy_from_slice(&id.to_be_bytes());
            by_id.insert(id, sent.len());
        }
        let from = cl.inbox.len();
        let me = Sent { bytes, proto, kind, is_probe: false, tcp_ordered_sync: false, responses: vec![] };
        let sent_ok = cl.send(proto, &me.bytes).await.is_ok();
        let conn_epoch = cl.reconnects;
        let req_idx = sent.len();
        sent.push(me);
        // sync: probe on the same transport; fall back to the other one before declaring death
        let mut synced = false;
        for attempt in 0..6 {
            let p = if attempt < 3 { proto } else if matches!(proto, Protocol::Tcp) { Protocol::Udp } else { Protocol::Tcp };
            let id = fresh_id(&by_id);
            let pb = probe_bytes(cfg, id, format!("probe-{n}-{attempt}").as_bytes());
            by_id.insert(id, sent.len());
            sent.push(Sent { bytes: pb.clone(), proto: p, kind: "probe".into(), is_probe: true, tcp_ordered_sync: false, responses: vec![] });
            let pi = sent.len() - 1;
            if cl.send(p, &pb).await.is_err() {
                continue;
            }
            match cl.wait_for(p, id, from, Duration::from_millis(if attempt == 0 { 400 } else { 1000 })).await {
                Ok(true) => {
                    synced = true;
                    if matches!(p, Protocol::Tcp) && matches!(proto, Protocol::Tcp) && sent_ok && cl.reconnects == conn_epoch {
                        // same connection as the request: everything before the probe was handled
                        sent[req_idx].tcp_ordered_sync = true;
                        for earlier in sent[req_idx + 1..pi].iter_mut().filter(|e| matches!(e.proto, Protocol::Tcp)) {
                            earlier.tcp_ordered_sync = true;
                        }
                    }
                    break;
                }
                Ok(false) => {
                    rep.count(if matches!(p, Protocol::Tcp) { "socket/probe_timeout_tcp" } else { "socket/probe_timeout_udp" });
                }
                Err(()) => {
                    rep.count("socket/tcp_closed_by_server");
                }
            }
        }
        if let Some(p) = mon::take_last_panic() {
            let exp = model::gate(cfg, ip, &sent[req_idx].bytes);
            rep.violation("panic", &format!("{}|{}", exp.branch, p.site()), case_json(cfg, ip, &sent[req_idx]), json!("no panic on a server task"), json!({"panic": p.message, "at": p.location}));
        }
        if !synced {
            let exp = model::gate(cfg, ip, &sent[req_idx].bytes);
            rep.violation("survival", &format!("{}|no-answer-on-either-transport", exp.branch), case_json(cfg, ip, &sent[req_idx]), json!("probe answered after the request"), json!("6 probes unanswered (3 per transport)"));
            dead = true;
        }
    }
    // stragglers
    let n0 = cl.inbox.len();
    let _ = cl.wait_for(Protocol::Udp, 0, n0, Duration::from_millis(40)).await;
    if cl.tcp.is_some() {
        let n1 = cl.inbox.len();
        let _ = cl.wait_for(Protocol::Tcp, 0, n1, Duration::from_millis(20)).await;
    }
    rep.add("socket/tcp_reconnects", cl.reconnects.saturating_sub(1));
    // the listener tasks must still be alive: shutdown has to come back clean
    match timeout(Duration::from_secs(5), server.shutdown_gracefully()).await {
        Ok(Ok(())) => rep.count("socket/clean_shutdowns"),
        Ok(Err(e)) => rep.violation("survival", "server-task-ended", json!({"mode": "socket", "cfg": cfg.to_json(), "batch": sent.iter().filter(|s| !s.is_probe).map(|s| hex(&s.bytes)).collect::<Vec<_>>()}), json!("listener tasks alive until shutdown"), json!(e.to_string())),
        Err(_) => rep.count("socket/shutdown_timeout"),
    }
    // attribute
    for m in std::mem::take(&mut cl.inbox) {
        let hit = (m.len() >= 2).then(|| u16::from_be_bytes([m[0], m[1]])).and_then(|id| by_id.get(&id).copied());
        match hit {
            Some(i) => sent[i].responses.push(m),
            None => rep.violation("id", "unmatched-response", json!({"mode": "socket", "cfg": cfg.to_json(), "batch": sent.iter().filter(|s| !s.is_probe).map(|s| hex(&s.bytes)).collect::<Vec<_>>()}), json!("every response carries the id of a request of this batch"), json!({"response": hex(&m)})),
        }
    }
    for s in &sent {
        let exp = model::gate(cfg, ip, &s.bytes);
        rep.eval();
        if s.bytes.len() >= 12 && !s.is_probe {
            rep.nontrivial(vh::prng::fnv64(&[&s.bytes[..], &cfg.hash().to_le_bytes(), proto_name(s.proto).as_bytes(), b"socket"].concat()));
        }
        rep.count(&format!("socket/{}/{}", if s.is_probe { "probe" } else { "request" }, proto_name(s.proto)));
        if !s.is_probe {
            rep.count(&format!("socket/branch/{}", exp.branch));
        }
        if exp.respond && s.responses.is_empty() {
            if !matches!(s.proto, Protocol::Tcp) {
                rep.count("socket/udp_response_missing_inconclusive");
                continue;
            }
            if !s.tcp_ordered_sync {
                rep.count("socket/tcp_no_response_unsynced_inconclusive");
                continue;
            }
        }
        let v = obs::judge(&s.bytes, &exp, &s.responses);
        if s.is_probe && v.fails.is_empty() && v.outcome.ends_with("+data") {
            rep.count("socket/probes_answered_with_zone_data");
        }
        if !s.responses.is_empty() {
            rep.count("socket/responses");
        }
        for (clause, e, o) in v.fails {
            rep.violation(clause, exp.branch, case_json(cfg, ip, s), json!({"clause": e, "branch": exp.branch, "error_rcodes": exp.err_rcodes, "ordinary": format!("{:?}", exp.normal), "pseudo_records": exp.tags}), json!({"clause": o, "responses": s.responses.iter().map(|r| hex(r)).collect::<Vec<_>>()}));
        }
    }
}

fn client_ip(rng: &mut Rng) -> IpAddr {
    rng.pick(&["127.0.0.1", "127.0.0.1", "127.0.0.2", "127.1.2.3"]).parse().unwrap()
}

pub fn run(ctx: &Ctx, rep: &mut Reporter) {
    let rt = tokio::runtime::Builder::new_current_thread().enable_all().build().expect("runtime");
    let mut rng = ctx.rng("socket");
    let mut ids = reqgen::Ids { next_id: rng.u16(), nonce: 1 << 40, shard: ctx.shard };
    // quick: a fixed small share (real sockets wait in real time), independent of the quick scale
    let total = if ctx.is_thorough() { ctx.budget(2_000, 100_000) } else { (2_400 / ctx.nshards).max(48) };
    let mut done = 0u64;
    mon::set_quiet(true);
    rep.must("socket/responses", 1000);
    rep.must("socket/clean_shutdowns", 10);
    while done < total {
        let mut cfg = cfg::gen_config(&mut rng);
        // make 127/8 matter in some ACLs
        if rng.chance(1, 3) {
            let n = cfg::Net::parse(*rng.pick(&["127.0.0.0/8", "127.0.0.2/32", "127.1.0.0/16", "127.0.0.0/30"])).unwrap();
            if rng.bool() {
                cfg.deny.push(n);
            } else {
                cfg.allow.push(n);
            }
        }
        let ip = client_ip(&mut rng);
        let n = rng.urange(24, 64);
        let mut reqs = Vec::new();
        for _ in 0..n {
            let r = reqgen::request(&mut rng, &cfg, &mut ids);
            let proto = if rng.bool() { Protocol::Udp } else { Protocol::Tcp };
            // UDP receive buffer of the server is 4096; an empty TCP frame ends the connection (C17)
            if r.bytes.len() > 4096 || (r.bytes.is_empty() && matches!(proto, Protocol::Tcp)) {
                continue;
            }
            reqs.push((r.kind.to_string(), proto, r.bytes));
        }
        done += reqs.len() as u64;
        let id0 = rng.u16();
        rep.count("socket/batches");
        rt.block_on(batch(rep, &cfg, ip, reqs, id0));
    }
    mon::set_quiet(false);
}

pub fn replay(rep: &mut Reporter, cfg: &Config, c: &Value) {
    let rt = tokio::runtime::Builder::new_current_thread().enable_all().build().expect("runtime");
    mon::set_quiet(true);
    let ip: IpAddr = c["src"].as_str().unwrap_or("127.0.0.1").parse().unwrap_or("127.0.0.1".parse().unwrap());
    let mut reqs: Vec<(String, Protocol, Vec<u8>)> = Vec::new();
    if let Some(list) = c["batch"].as_array() {
        for (i, h) in list.iter().enumerate() {
            reqs.push(("replay".into(), if i % 2 == 0 { Protocol::Udp } else { Protocol::Tcp }, unhex(h.as_str().unwrap_or(""))));
        }
    } else {
        let proto = if c["proto"].as_str() == Some("tcp") { Protocol::Tcp } else { Protocol::Udp };
        reqs.push((c["kind"].as_str().unwrap_or("replay").to_string(), proto, unhex(c["hex"].as_str().unwrap_or(""))));
    }
    let id0 = reqs.first().filter(|r| r.2.len() >= 2).map(|r| u16::from_be_bytes([r.2[0], r.2[1]]).wrapping_sub(1)).unwrap_or(7);
    rt.block_on(batch(rep, cfg, ip, reqs, id0));
    mon::set_quiet(false);
}
