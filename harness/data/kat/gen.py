#!/usr/bin/env python3
"""Generator of the C05 known-answer vectors (third-party RRSIGs made with the OpenSSL CLI).

Run ONCE (needs OpenSSL 3.x and a built c05 binary); the check itself only reads rsa_kat.json.

    cd /verif/harness && CARGO_TARGET_DIR=/verif/target cargo build --offline --bin c05
    python3 /verif/harness/data/kat/gen.py            # keys that already exist are re-used

What it does, file by file (all under this directory):

  <key>.pem          test private keys (PKCS#8 / traditional PEM, NOT secret), produced by
      rsa1024.pem      openssl genrsa -out rsa1024.pem 1024            (e = 65537, "-f4" default)
      rsa1280.pem      openssl genrsa -out rsa1280.pem 1280
      rsa2048.pem      openssl genrsa -out rsa2048.pem 2048
      rsa3072.pem      openssl genrsa -out rsa3072.pem 3072
      rsa4096.pem      openssl genrsa -out rsa4096.pem 4096
      rsa1024e3.pem    openssl genrsa -3 -out rsa1024e3.pem 1024       (e = 3, one exponent octet)
      rsa2048e33.pem   openssl genpkey -algorithm RSA -pkeyopt rsa_keygen_bits:2048 \
                               -pkeyopt rsa_keygen_pubexp:4294967297   (e = 2^32+1, five exponent octets)
      p256.pem         openssl genpkey -algorithm EC -pkeyopt ec_paramgen_curve:P-256
      p384.pem         openssl genpkey -algorithm EC -pkeyopt ec_paramgen_curve:P-384
      ed25519.pem      openssl genpkey -algorithm ed25519

  DNSKEY public-key field of each key:
      RSA (RFC 3110 s.2): `openssl rsa -in K.pem -RSAPublicKey_out -outform DER` -> SEQUENCE{n, e};
          field = exponent length (1 octet, or 0 + 2 octets when > 255) | e | n, no leading zeros
      ECDSA (RFC 6605 s.4): `openssl pkey -in K.pem -pubout -outform DER`, the uncompressed point
          at the end of the SubjectPublicKeyInfo without its 0x04 prefix (x | y)
      Ed25519 (RFC 8080 s.3): last 32 octets of the SubjectPublicKeyInfo

  to-be-signed bytes: `c05 --kat-emit WORK --kat-keys WORK/keys.json` writes, for every RRset of
      kat::rrsets() x every algorithm of every key, the RFC 4035 s.5.3.2 signed data computed by the
      harness' reference encoder (refsign::signed_data), with the key tag of that DNSKEY
      (RFC 4034 App. B; cross-checked below by an independent implementation).

  signature of each case (file WORK/NNNN.tbs):
      alg 5, 7  (RSASHA1, RSASHA1-NSEC3-SHA1; RFC 3110, RFC 5155):  openssl dgst -sha1   -sign K.pem
      alg 8     (RSASHA256; RFC 5702):                              openssl dgst -sha256 -sign K.pem
      alg 10    (RSASHA512; RFC 5702):                              openssl dgst -sha512 -sign K.pem
          (RSASSA-PKCS1-v1_5; the output, modulus-length octets, is the RRSIG Signature field)
      alg 13    (ECDSAP256SHA256; RFC 6605):  openssl dgst -sha256 -sign p256.pem, DER
      alg 14    (ECDSAP384SHA384; RFC 6605):  openssl dgst -sha384 -sign p384.pem, DER
          ECDSA-Sig-Value{r, s} converted to fixed-width r | s (32+32 / 48+48 octets)
      alg 15    (ED25519; RFC 8080):          openssl pkeyutl -sign -rawin -inkey ed25519.pem
      every signature is verified again with `openssl dgst -verify` / `pkeyutl -verify`.

  rsa_kat.json       the result: {"keys": [...], "vectors": [...]}; per vector the RRset
      (owner as hex labels, rtype, class, recs[{rdata hex, ttl}]), the RRSIG fields ("sig"),
      and "kat": {dnskey{flags, protocol, algorithm, public_key hex}, signature hex, tbs hex}.

Re-running with the existing keys reproduces the RSA and Ed25519 signatures bit for bit
(deterministic schemes); ECDSA signatures are randomised and will differ (still valid).
If the RRset list (kat::rrsets in src/bin/c05/kat.rs) or the key table below changes, update
EXPECT_PER_ALG / EXPECT_PER_KEY in kat.rs to the counts printed at the end.
"""
import json
import os
import subprocess
import sys
import tempfile

HERE = os.path.dirname(os.path.abspath(__file__))
OPENSSL = os.environ.get("OPENSSL", "/root/miniconda/bin/openssl")
C05 = os.environ.get("C05_BIN", "/verif/target/debug/c05")

SUBSET = ["a-mixedcase-owner", "mx-names", "txt-strings"]
RSA_ALGS = [5, 7, 8, 10]
KEYS = [
    # id, kind, bits, note, flags, algorithms, rrsets (None = all), generation command
    ("rsa1024", "rsa", 1024, "", 256, RSA_ALGS, None, ["genrsa", "-out", "@", "1024"]),
    ("rsa1280", "rsa", 1280, "", 256, RSA_ALGS, None, ["genrsa", "-out", "@", "1280"]),
    ("rsa2048", "rsa", 2048, "", 257, RSA_ALGS, None, ["genrsa", "-out", "@", "2048"]),
    ("rsa3072", "rsa", 3072, "", 256, RSA_ALGS, None, ["genrsa", "-out", "@", "3072"]),
    ("rsa4096", "rsa", 4096, "", 257, RSA_ALGS, None, ["genrsa", "-out", "@", "4096"]),
    ("rsa1024e3", "rsa", 1024, "e3", 256, RSA_ALGS, SUBSET, ["genrsa", "-3", "-out", "@", "1024"]),
    ("rsa2048e33", "rsa", 2048, "e2^32+1", 256, RSA_ALGS, SUBSET,
     ["genpkey", "-algorithm", "RSA", "-pkeyopt", "rsa_keygen_bits:2048", "-pkeyopt", "rsa_keygen_pubexp:4294967297", "-out", "@"]),
    ("p256", "ecdsa", 256, "", 257, [13], None, ["genpkey", "-algorithm", "EC", "-pkeyopt", "ec_paramgen_curve:P-256", "-out", "@"]),
    ("p384", "ecdsa", 384, "", 256, [14], None, ["genpkey", "-algorithm", "EC", "-pkeyopt", "ec_paramgen_curve:P-384", "-out", "@"]),
    ("ed25519", "ed25519", 256, "", 257, [15], None, ["genpkey", "-algorithm", "ed25519", "-out", "@"]),
]
DIGEST = {5: "-sha1", 7: "-sha1", 8: "-sha256", 10: "-sha512", 13: "-sha256", 14: "-sha384"}


def ossl(*args, stdin=None):
    r = subprocess.run([OPENSSL, *args], input=stdin, stdout=subprocess.PIPE, stderr=subprocess.PIPE)
    if r.returncode != 0:
        sys.exit("openssl %s failed: %s" % (" ".join(args), r.stderr.decode()))
    return r.stdout


def der_tlv(b, off=0):
    """-> (tag, value, next offset)"""
    tag = b[off]
    l = b[off + 1]
    off += 2
    if l & 0x80:
        n = l & 0x7F
        l = int.from_bytes(b[off:off + n], "big")
        off += n
    return tag, b[off:off + l], off + l


def der_two_integers(der):
    tag, seq, _ = der_tlv(der)
    assert tag == 0x30
    t1, a, nxt = der_tlv(seq)
    t2, b, _ = der_tlv(seq, nxt)
    assert (t1, t2) == (2, 2)
    return int.from_bytes(a, "big"), int.from_bytes(b, "big")


def minimal(n):
    return n.to_bytes((n.bit_length() + 7) // 8, "big")


def dnskey_public(kid, kind, bits):
    pem = os.path.join(HERE, kid + ".pem")
    if kind == "rsa":
        n, e = der_two_integers(ossl("rsa", "-in", pem, "-RSAPublicKey_out", "-outform", "DER"))
        assert n.bit_length() == bits, (kid, n.bit_length())
        eb, nb = minimal(e), minimal(n)
        head = bytes([len(eb)]) if len(eb) <= 255 else b"\0" + len(eb).to_bytes(2, "big")
        return head + eb + nb, e
    spki = ossl("pkey", "-in", pem, "-pubout", "-outform", "DER")
    if kind == "ecdsa":
        w = bits // 8
        point = spki[-(2 * w + 1):]
        assert point[0] == 4
        return point[1:], None
    return spki[-32:], None


def key_tag(rdata):
    """RFC 4034 Appendix B"""
    ac = 0
    for i, b in enumerate(rdata):
        ac += b if i & 1 else b << 8
    ac += (ac >> 16) & 0xFFFF
    return ac & 0xFFFF


def sign(case, work):
    k = case["kat"]
    alg = case["sig"]["algorithm"]
    pem = os.path.join(HERE, k["key"] + ".pem")
    pub = os.path.join(work, k["key"] + ".pub.pem")
    if not os.path.exists(pub):
        ossl("pkey", "-in", pem, "-pubout", "-out", pub)
    tbs = os.path.join(work, case["tbs_file"])
    sigf = tbs + ".sig"
    if k["key_kind"] == "ed25519":
        ossl("pkeyutl", "-sign", "-rawin", "-inkey", pem, "-in", tbs, "-out", sigf)
        ossl("pkeyutl", "-verify", "-rawin", "-pubin", "-inkey", pub, "-in", tbs, "-sigfile", sigf)
        sig = open(sigf, "rb").read()
        assert len(sig) == 64
        return sig
    ossl("dgst", DIGEST[alg], "-sign", pem, "-out", sigf, tbs)
    out = ossl("dgst", DIGEST[alg], "-verify", pub, "-signature", sigf, tbs)
    assert b"Verified OK" in out
    sig = open(sigf, "rb").read()
    if k["key_kind"] == "rsa":
        assert len(sig) == (k["key_bits"] + 7) // 8
        return sig
    r, s = der_two_integers(sig)
    w = k["key_bits"] // 8
    return r.to_bytes(w, "big") + s.to_bytes(w, "big")


def main():
    version = ossl("version").decode().strip()
    keys = []
    for kid, kind, bits, note, flags, algs, rrsets, cmd in KEYS:
        pem = os.path.join(HERE, kid + ".pem")
        if not os.path.exists(pem):
            ossl(*[pem if a == "@" else a for a in cmd])
        public, e = dnskey_public(kid, kind, bits)
        entry = {"id": kid, "file": kid + ".pem", "kind": kind, "bits": bits, "note": note, "flags": flags, "algorithms": algs,
                 "public_key": public.hex(), "generated_with": "openssl " + " ".join(kid + ".pem" if a == "@" else a for a in cmd)}
        if e is not None:
            entry["exponent"] = str(e)
        if rrsets is not None:
            entry["rrsets"] = rrsets
        keys.append(entry)
    with tempfile.TemporaryDirectory(prefix="c05kat") as work:
        with open(os.path.join(work, "keys.json"), "w") as f:
            json.dump(keys, f)
        subprocess.run([C05, "--kat-emit", work, "--kat-keys", os.path.join(work, "keys.json")], check=True)
        cases = json.load(open(os.path.join(work, "cases.json")))["vectors"]
        for c in cases:
            k = c["kat"]
            tbs = open(os.path.join(work, c["tbs_file"]), "rb").read()
            assert tbs.hex() == k["tbs"]
            d = k["dnskey"]
            rdata = d["flags"].to_bytes(2, "big") + bytes([d["protocol"], d["algorithm"]]) + bytes.fromhex(d["public_key"])
            assert key_tag(rdata) == c["sig"]["key_tag"], ("key tag", k["id"])
            k["signature"] = sign(c, work).hex()
            del c["tbs_file"]
    per = {}
    for c in cases:
        a = "alg%d" % c["sig"]["algorithm"]
        per[a] = per.get(a, 0) + 1
        per[c["kat"]["key"]] = per.get(c["kat"]["key"], 0) + 1
    doc = {
        "format": 1,
        "description": "C05 known-answer vectors: RRSIGs over refsign::signed_data made by the OpenSSL command line (see gen.py in this directory)",
        "openssl": version,
        "counts": per,
        "keys": keys,
        "vectors": cases,
    }
    with open(os.path.join(HERE, "rsa_kat.json"), "w") as f:
        json.dump(doc, f, indent=1, sort_keys=True)
        f.write("\n")
    print("wrote %d vectors: %s" % (len(cases), json.dumps(per, sort_keys=True)))


if __name__ == "__main__":
    main()
