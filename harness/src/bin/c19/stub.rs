//! Stub resolver alias chasing: `Resolver::lookup` over one scripted upstream that serves CNAME
//! chains, loops and dangling aliases must end after a bounded number of upstream queries
//! (CachingClient's DepthTracker allows 8 nested lookups; x2 for the configured `attempts`).

use std::str::FromStr;
use std::sync::atomic::Ordering;
use std::sync::Arc;
use std::time::Duration;

use hickory_net::runtime::TokioHandle;
use hickory_proto::rr::{Name, RecordType};
use hickory_resolver::config::{NameServerConfig, ResolveHosts, ResolverConfig};
use hickory_resolver::Resolver;
use serde_json::{json, Value};

use vh::mon::{self, Ctx, Reporter};
use vh::prng::{fnv64, Rng};

use crate::net::{Net, SimRuntime};
use crate::world::{Opts, Rec, Server, World, Zone};

pub const STUB_BUDGET: u64 = 16;
const UPSTREAM: &str = "192.0.2.53";

struct Case {
    recs: Vec<Rec>,
    chase: bool,
    preserve: bool,
    query: String,
    shape: String,
}

impl Case {
    fn json(&self) -> Value {
        json!({"stub": {"recs": self.recs.iter().map(|r| r.text()).collect::<Vec<_>>(), "chase": self.chase, "preserve": self.preserve, "query": self.query, "shape": self.shape}})
    }
    fn from(v: &Value) -> Option<Case> {
        let s = &v["stub"];
        Some(Case {
            recs: s["recs"].as_array()?.iter().filter_map(|x| x.as_str().and_then(Rec::parse)).collect(),
            chase: s["chase"].as_bool().unwrap_or(false),
            preserve: s["preserve"].as_bool().unwrap_or(true),
            query: s["query"].as_str()?.to_string(),
            shape: s["shape"].as_str().unwrap_or("").to_string(),
        })
    }
    fn world(&self) -> World {
        World {
            roots: vec![],
            zones: vec![Zone { apex: ".".into(), recs: self.recs.clone() }],
            servers: vec![Server { ip: UPSTREAM.into(), zones: vec![".".into()], lame: "refused".into(), chase: self.chase, ..Default::default() }],
            opts: Opts { recursion_limit: 0, ns_recursion_limit: 0, deny_server: vec![], allow_server: vec![], deny_answers: vec![], allow_answers: vec![], case_randomization: false, relaxed_qmin: false },
            queries: vec![],
            tags: vec![],
            fan: None,
        }
    }
}

fn gen_case(rng: &mut Rng, idx: u64) -> Case {
    let shape = ["chain", "loop", "self", "dangling"][(idx % 4) as usize];
    let l = rng.urange(1, 24);
    let mut recs = vec![];
    let name = |i: usize| format!("c{i}.stub.test.");
    match shape {
        "self" => recs.push(Rec::new(&name(0), "CNAME", &name(0))),
        _ => {
            for i in 0..l {
                let next = if i + 1 < l {
                    name(i + 1)
                } else {
                    match shape {
                        "loop" => name(rng.usize_below(l)),
                        "dangling" => "nowhere.stub.test.".to_string(),
                        _ => "end.stub.test.".to_string(),
                    }
                };
                recs.push(Rec::new(&name(i), "CNAME", &next));
            }
            recs.push(Rec::new("end.stub.test.", "A", "198.51.100.42"));
        }
    }
    Case { recs, chase: rng.bool(), preserve: rng.bool(), query: name(0), shape: format!("{shape}-{}", if l <= 7 { "short" } else { "long" }) }
}

/// returns per-lookup (upstream datagrams, ok, finished)
fn run_case(c: &Case) -> Result<Vec<(u64, bool, bool)>, String> {
    let rt = tokio::runtime::Builder::new_current_thread().enable_time().start_paused(true).build().map_err(|e| e.to_string())?;
    let net = Net::new(Arc::new(c.world()), 10_000);
    let query = c.query.clone();
    let preserve = c.preserve;
    rt.block_on(async move {
        let provider = SimRuntime { handle: TokioHandle::default(), net: net.clone() };
        let cfg = ResolverConfig::from_parts(None, vec![], vec![NameServerConfig::udp(UPSTREAM.parse().unwrap())]);
        let mut b = Resolver::builder_with_config(cfg, provider);
        {
            let o = b.options_mut();
            o.use_hosts_file = ResolveHosts::Never;
            o.preserve_intermediates = preserve;
        }
        let r = b.build().map_err(|e| format!("Resolver build: {e}"))?;
        let mut out = vec![];
        for i in 0..2 {
            crate::HEARTBEAT.fetch_add(1, Ordering::Relaxed);
            net.begin_top(i);
            let n = Name::from_str(&query).map_err(|e| e.to_string())?;
            let res = tokio::time::timeout(Duration::from_secs(3600), r.lookup(n, RecordType::A)).await;
            let sent = net.st.lock().unwrap().sent_this_top;
            match res {
                Ok(Ok(_)) => out.push((sent, true, true)),
                Ok(Err(_)) => out.push((sent, false, true)),
                Err(_) => out.push((sent, false, false)),
            }
        }
        Ok(out)
    })
}

fn do_case(c: &Case, rep: &mut Reporter) {
    mon::set_quiet(true);
    let r = mon::catch(|| run_case(c));
    mon::set_quiet(false);
    match r {
        Ok(Ok(v)) => {
            for (i, (sent, ok, finished)) in v.iter().enumerate() {
                rep.eval();
                rep.count("stub_lookups");
                if c.shape.starts_with("loop") || c.shape.starts_with("self") {
                    rep.count("stub_loop_lookups");
                }
                if *ok {
                    rep.count("stub_ok");
                }
                rep.max("stub_max_upstream_per_lookup", *sent as f64);
                if *sent > STUB_BUDGET || !*finished {
                    rep.violation(
                        "stub-alias-budget",
                        &c.shape,
                        c.json(),
                        json!(format!("lookup ends within {STUB_BUDGET} upstream queries")),
                        json!({"lookup": i, "upstream_queries": sent, "finished": finished}),
                    );
                }
            }
            rep.nontrivial(fnv64(c.json().to_string().as_bytes()));
        }
        Ok(Err(e)) => {
            rep.count("stub_setup_errors");
            rep.note("last_stub_setup_error", json!(e));
        }
        Err(p) => {
            rep.eval();
            rep.violation("panic", &format!("stub|{}", p.site()), c.json(), json!("lookup returns Ok or Err"), json!({"panic": p.message, "at": p.location}));
        }
    }
}

pub fn run(ctx: &Ctx, rep: &mut Reporter) {
    let n = ctx.budget(3_200, 800_000);
    let mut rng = ctx.rng("stub");
    for k in 0..n {
        let idx = k * ctx.nshards + ctx.shard;
        let mut r = rng.fork();
        let _ = idx;
        let c = gen_case(&mut r, k + ctx.shard);
        do_case(&c, rep);
    }
}

pub fn replay(c: &Value, rep: &mut Reporter) {
    if let Some(case) = Case::from(c) {
        do_case(&case, rep);
    }
}
