//! Clause 4: text round trip of host-style names (`to_ascii` → `from_ascii`).
//!
//! DONT-CAREs (not judged here):
//! * labels with a *leading* hyphen: hickory prints `\-x` and then refuses to re-read it
//!   ("Malformed label"); a host-style label per RFC 952/1123 cannot start with a hyphen, so
//!   the statement's "hyphen" is taken as a non-leading hyphen. Counted as
//!   `text_leading_hyphen_reparse_err` for the record.
//! * `\DDD` escapes (hickory prints and reads them as OCTAL, RFC 1035 §5.1 says decimal) — a
//!   host-style name never needs one; if one shows up in printed text the independent reader
//!   abstains.
//! * `from_utf8` / `from_str` / `parse`: IDNA processing lower-cases by design; only the limit
//!   and panic monitors look at their results.

use std::str::FromStr;

use hickory_proto::rr::Name;
use serde_json::json;

use vh::gen::{self, NameStyle};
use vh::mon;
use vh::prng::{fnv64, Rng};

use crate::common::{build_checked, err_kind, labels_of, to_rname, Ck};
use crate::fam;
use crate::refname::{fold_labels, read_host_text, RName};

fn diff(want: &RName, got: &RName) -> &'static str {
    if want.labels != got.labels {
        if fold_labels(&want.labels) == fold_labels(&got.labels) {
            "letter-case"
        } else if want.labels.concat() == got.labels.concat() {
            "label-boundaries"
        } else {
            "octets"
        }
    } else if want.fqdn != got.fqdn {
        "fqdn"
    } else {
        "same"
    }
}

pub fn gen_host_name(rng: &mut Rng) -> RName {
    let mut labels: Vec<Vec<u8>> = match rng.below(12) {
        0 => {
            let t = rng.urange(200, 255);
            fam::name_with_wire_len(rng, t, 63, true)
        }
        1 => gen::name(rng, NameStyle::Small).into_iter().filter(|l| l.as_slice() != b"*").collect(),
        2 => vec![],
        _ => {
            let n = rng.urange(1, 6);
            (0..n)
                .map(|_| {
                    let len = match rng.below(12) {
                        0 => 63,
                        1 => 1,
                        _ => rng.urange(1, 14),
                    };
                    (0..len)
                        .map(|j| match rng.below(16) {
                            0 if j > 0 => b'-',
                            1 => b'_',
                            2 => b'.',
                            3..=5 => *rng.pick(b"0123456789"),
                            6..=9 => *rng.pick(b"ABCDEFGHIJKLMNOPQRSTUVWXYZ"),
                            _ => *rng.pick(b"abcdefghijklmnopqrstuvwxyz"),
                        })
                        .collect()
                })
                .collect()
        }
    };
    if rng.chance(1, 16) && !labels.is_empty() {
        labels[0] = b"xn--80ak6aa92e".to_vec();
    }
    if rng.chance(1, 5) {
        labels.insert(0, b"*".to_vec());
    }
    let mut n = RName::new(labels, rng.chance(2, 3));
    while !n.valid() {
        n.labels.pop();
    }
    n
}

pub fn check_text(ck: &mut Ck, r: &RName) {
    if !r.valid() {
        return;
    }
    let case = || json!({"kind": "text", "name": r.to_json()});
    let Some(name) = build_checked(ck, r, "from_labels") else { return };
    let leading_hyphen = r.labels.iter().any(|l| l[0] == b'-');
    let host = r.host_style();
    ck.rep.eval();
    if host {
        ck.rep.count("text_rt_host_style");
        if r.labels.len() >= 2 {
            ck.rep.nontrivial(fnv64(&[&b"text"[..], &r.case_bytes()].concat()));
        }
        if r.labels.iter().any(|l| l.contains(&b'.')) {
            ck.rep.count("text_rt_with_escaped_dot");
        }
        if r.labels.first().map(|l| l.as_slice()) == Some(b"*") {
            ck.rep.count("text_rt_with_wildcard");
        }
        if r.labels != fold_labels(&r.labels) {
            ck.rep.count("text_rt_with_upper_case");
        }
    }
    let text = match mon::catch(|| name.to_ascii()) {
        Ok(t) => t,
        Err(p) => {
            ck.fail("panic", &format!("to_ascii|{}", p.site()), case(), json!("no panic"), json!({"panic": p.message, "at": p.location}));
            return;
        }
    };
    if !host {
        // non-host-style names: only panics and limits are judged (re-parse may fail or differ)
        ck.rep.count("text_non_host_style");
        match mon::catch(|| Name::from_ascii(&text)) {
            Ok(Ok(n)) => {
                ck.limit("from_ascii", &n, &case);
                if to_rname(&n) == *r {
                    ck.rep.count("text_non_host_style_rt_same");
                } else if leading_hyphen {
                    ck.rep.count("text_leading_hyphen_changed");
                }
            }
            Ok(Err(_)) => {
                if leading_hyphen && r.labels.iter().all(|l| l.iter().all(|&c| c.is_ascii_alphanumeric() || matches!(c, b'-' | b'_' | b'.'))) {
                    ck.rep.count("text_leading_hyphen_reparse_err");
                }
            }
            Err(p) => ck.fail("panic", &format!("from_ascii|{}", p.site()), case(), json!("no panic"), json!({"panic": p.message, "at": p.location, "text": text})),
        }
        return;
    }
    // printed text, read independently, must denote the same name
    match read_host_text(&text) {
        Some(rr) => {
            let d = diff(r, &rr);
            if d != "same" {
                ck.fail("text-print", d, case(), json!(r.host_text()), json!(text));
            }
        }
        None => ck.rep.count("text_print_reader_abstains"),
    }
    // hickory re-reads its own text
    match mon::catch(|| Name::from_ascii(&text)) {
        Ok(Ok(n)) => {
            ck.limit("from_ascii", &n, &case);
            let d = diff(r, &to_rname(&n));
            if d != "same" {
                ck.fail("text-rt", d, case(), r.to_json(), json!({"text": text, "reparsed": to_rname(&n).to_json()}));
            }
            if n != name {
                ck.fail("text-rt", "not-eq", case(), json!("from_ascii(to_ascii(n)) == n"), json!({"text": text}));
            }
        }
        Ok(Err(e)) => ck.fail("text-rt", &format!("reparse-err|{}", err_kind(&e)), case(), json!("Ok"), json!({"text": text, "err": e.to_string()})),
        Err(p) => ck.fail("panic", &format!("from_ascii|{}", p.site()), case(), json!("no panic"), json!({"panic": p.message, "at": p.location, "text": text})),
    }
    // standard presentation text (written by the reference printer) must parse to the name
    let std_text = r.host_text();
    match mon::catch(|| Name::from_ascii(&std_text)) {
        Ok(Ok(n)) => {
            ck.rep.count("op/from_ascii:Ok");
            let d = diff(r, &to_rname(&n));
            if d != "same" {
                ck.fail("text-parse", d, case(), r.to_json(), json!({"text": std_text, "parsed": to_rname(&n).to_json()}));
            }
        }
        Ok(Err(e)) => ck.fail("text-parse", &format!("err|{}", err_kind(&e)), case(), json!("Ok"), json!({"text": std_text, "err": e.to_string()})),
        Err(p) => ck.fail("panic", &format!("from_ascii|{}", p.site()), case(), json!("no panic"), json!({"panic": p.message, "at": p.location, "text": std_text})),
    }
    // other text constructors: limits / panics only (IDNA may fold case or reject `_` inside)
    type TextCtor = fn(&str) -> Result<Name, hickory_proto::ProtoError>;
    let ctors: [(&str, TextCtor); 4] = [
        ("from_utf8", |s| Name::from_utf8(s)),
        ("from_str", |s| Name::from_str(s)),
        ("parse", |s| Name::parse(s, None)),
        ("from_str_relaxed", |s| Name::from_str_relaxed(s)),
    ];
    for (op, f) in ctors {
        match mon::catch(|| f(&text)) {
            Ok(Ok(n)) => {
                ck.rep.count(&format!("op/{op}:Ok"));
                ck.limit(op, &n, &case);
                if fold_labels(&labels_of(&n)) == fold_labels(&r.labels) {
                    ck.rep.count("text_idna_same_up_to_case");
                }
            }
            Ok(Err(_)) => ck.rep.count(&format!("op/{op}:Err")),
            Err(p) => ck.fail("panic", &format!("{op}|{}", p.site()), case(), json!("no panic"), json!({"panic": p.message, "at": p.location, "text": text})),
        }
    }
    // Display / to_utf8 must not panic
    if let Err(p) = mon::catch(|| (name.to_utf8(), format!("{name:?}"))) {
        ck.fail("panic", &format!("display|{}", p.site()), case(), json!("no panic"), json!({"panic": p.message, "at": p.location}));
    }
}
