import json,re,sys
def kind_re(kinds):
    # the fault kind (with or without variant) as the single fault, as an ingredient of a shrunk multi-fault set,
    # or as an ingredient of a history that did not shrink to one step (via-history:<kinds>)
    alt="|".join(re.escape(k) for k in kinds)
    return r".*(?:\||\+|\|multi-fault:|\|via-history:)(?:%s)(?::[a-z0-9-]+)*(?:\+[^|]+)?(?:\|.*)?" % alt
P=r"(?:cli-|rec-|isl-|rsrv-)?"
FAMS=[
 ("C07-FAM1","F3", P+r".*", kind_re(["cross-zone-signature"]),
  "C07-F3 family (RRSIG signer name not tied to the zone of the RRset; ancestor signer names are accepted, RFC 4035 5.3.1): every violation whose shrunk fault set contains a cross-zone signature, at any observation point (validator, server AD/CD, DnssecClient, validating Recursor)"),
 ("C07-FAM2","F6", P+r"(?:false-denial|unauthenticated-denial|insecure-in-signed-zone|false-denial-served|served-forged-to-cd0|bogus-denial-served|bogus-zone-data-served)", kind_re(["replay-other","fake-insecure-delegation:replayed-nx-denial","fake-insecure-delegation:replayed-nx-denial-noerror","flip-rcode:toggle"])+r"|answer\|fake-insecure-delegation",
  "C07-F6/F12 family (= C09-F1: NSEC3 wrap-around cover test inverted so the last NSEC3 of any chain covers every hash, apex NODATA arm, Opt-Out span accepted as name error): a replayed genuine denial / a toggled rcode is accepted as authenticated denial or as DS-absence proof; every denial-side or insecure-side violation whose shrunk fault set contains replay-other, fake-insecure-delegation:replayed-nx-denial(-noerror) or flip-rcode:toggle"),
 ("C07-FAM3","F7", P+r"(?:unauthenticated-denial|insecure-in-signed-zone|served-forged-to-cd0|false-denial-served|bogus-denial-served|bogus-zone-data-served)", kind_re(["fake-cut","inject-forged"]),
  "C07-F7 family (zone cut located with unvalidated NS probes, unsigned records in a signed zone marked Insecure after the zone's own genuine NODATA proof for DS): every insecure-side violation whose shrunk fault set contains a fake cut or injected unsigned records"),
 ("C07-FAM4","F10", P+r"(?:unauthenticated-denial|false-denial|false-denial-served|served-forged-to-cd0)", r"irrelevant-answer\|.*|"+kind_re(["alter-bit:data","drop:data","replace-genuine:data:foreign-owner","alter-bit","drop","replace-genuine"]).replace("(?::[a-z0-9-]+)*","",1) ,
  "C07-F10 family (the validator never checks that a response answers the question): an answer section left without the data asked for (record dropped, owner/rdata altered, foreign records) is returned as 'no data' instead of an error; every denial-side violation with outcome irrelevant-answer, or whose shrunk fault set alters/drops/replaces the answer's data record"),
 ("C07-FAM5","F11d", P+r"(?:secure-not-genuine|served-forged-to-cd0)", r"dnskey:not-in-zone-data\|.*|answer\|(?:replace-genuine:dnskey:rdata|alter-bit:dnskey)",
  "C07-F11d family (a DNSKEY RRset is accepted without a valid RRSIG when every key in it matches a DS / the anchor; anchors matched by key bytes regardless of owner): a key set that is not the zone's (keys dropped, altered, planted) is Secure"),
]
if __name__=="__main__":
    allsig=json.load(open('/var/tmp/c07sweep/all.json'))
    unc=[]
    for sg,ss in allsig.items():
        rule,where=sg.split('|',1)
        hit=[f[0] for f in FAMS if re.fullmatch(f[2],rule) and re.fullmatch(f[3],where)]
        if not hit: unc.append((len(ss),sg))
    print("covered",len(allsig)-len(unc),"of",len(allsig))
    for n,s in sorted(unc): print(n,s)
