//! C17 part T — the server's read stack `TimeoutStream<TcpStream<..>>` under virtual time.
//!
//! Would-block steps take time. The server reads every TCP/TLS connection through
//! `hickory_server::server::TimeoutStream` ("timeout between each request, once exceed the
//! connection is killed"; "any Ready from the underlying stream will reset the timeout"). A case
//! scripts the virtual arrival instant of every chunk of 2–4 messages and (optionally) of the
//! peer's close; the stack runs on a current-thread tokio runtime with a paused clock, so the only
//! thing that moves time is the script's next arrival or the idle timer.
//!
//! Oracle (walks the observed history; the reference is the script):
//!  * the idle deadline is `T` after the first poll, and `T` after the instant at which the
//!    previous item was observed;
//!  * the next thing the script makes available — message i complete at cᵢ, peer close at e, or
//!    nothing ever — must be what the stream yields next whenever it happens before the deadline:
//!    the message whole and byte-identical, `None` for a close on a frame boundary, a
//!    non-timeout error for a close inside a frame. A `TimedOut` error instead is
//!    `timeout-spurious`;
//!  * when it happens after the deadline (or never), the stream yields a `TimedOut` error and
//!    nothing else (the documented purpose of the type); anything else is `timeout-missing`;
//!  * `T == 0` disables the timer (as the code documents by `timeout()` returning `None`).
//!
//! Don't-cares: an event within 2 ms of the deadline (timer granularity) — the case is not judged
//! from that point on (never generated; only reachable by hand-edited replay files); the virtual
//! instant at which an item or the timeout error is observed (recorded as maxima only); the kind
//! of the error for a close inside a frame (only: not `TimedOut`); what the stream does after the
//! first error (the server drops the connection; so does the driver).

use std::collections::VecDeque;
use std::future::Future;
use std::io;
use std::pin::Pin;
use std::sync::{Arc, Mutex};
use std::task::{Context, Poll};
use std::time::Duration;

use futures::stream::StreamExt;
use hickory_net::runtime::iocompat::AsyncIoTokioAsStd;
use hickory_net::runtime::DnsTcpStream;
use hickory_net::tcp::TcpStream;
use hickory_server::server::TimeoutStream;
use serde_json::{json, Value};
use tokio::time::{Instant, Sleep};

use crate::simnet::VTime;
use crate::{class_of, layout, peer, short, Sock};
use vh::mon::{self, Reporter};
use vh::prng::{fnv64, Rng};

/// events closer than this to the idle deadline are not judged
const MARGIN_MS: u64 = 2;

// ---------------------------------------------------------------------------------------------
// case

#[derive(Clone, Debug)]
pub struct TCase {
    pub sock: Sock,
    /// tokio socket announcing / implementing gathering writes (irrelevant for reads; kept so that
    /// both adapter instantiations are exercised)
    pub vectored: bool,
    /// idle timeout handed to `TimeoutStream::new`; 0 = disabled
    pub timeout_ms: u64,
    /// lengths of the messages the peer sends
    pub inbound: Vec<usize>,
    /// (cumulative stream offset, virtual arrival instant in ms since the first poll)
    pub chunks: Vec<(usize, u64)>,
    /// orderly close by the peer: (stream offset, virtual instant in ms)
    pub close: Option<(usize, u64)>,
}

impl TCase {
    pub fn to_json(&self) -> Value {
        json!({"kind": "timeout", "sock": self.sock.name(), "vectored": self.vectored, "timeout_ms": self.timeout_ms,
               "inbound": self.inbound,
               "chunks": self.chunks.iter().map(|&(o, t)| json!([o, t])).collect::<Vec<_>>(),
               "close": self.close.map(|(o, t)| json!([o, t]))})
    }

    pub fn from_json(v: &Value) -> TCase {
        let pair = |x: &Value| -> Option<(usize, u64)> { Some((x.get(0)?.as_u64()? as usize, x.get(1)?.as_u64()?)) };
        let mut c = TCase {
            sock: Sock::from_name(v["sock"].as_str().unwrap_or("tokio")),
            vectored: v["vectored"].as_bool().unwrap_or(true),
            timeout_ms: v["timeout_ms"].as_u64().unwrap_or(0),
            inbound: v["inbound"].as_array().map(|a| a.iter().filter_map(|x| x.as_u64()).map(|x| x as usize).collect()).unwrap_or_default(),
            chunks: v["chunks"].as_array().map(|a| a.iter().filter_map(pair).collect()).unwrap_or_default(),
            close: pair(&v["close"]),
        };
        c.normalise();
        c
    }

    /// Canonical form: offsets strictly increasing and within the (possibly cut) stream, instants
    /// non-decreasing, the last chunk reaches the end of what the peer sends, close not before it.
    pub fn normalise(&mut self) {
        let total: usize = self.inbound.iter().map(|l| l + 2).sum();
        if let Some((k, _)) = &mut self.close {
            *k = (*k).min(total);
        }
        let cut = self.close.map(|(k, _)| k).unwrap_or(total);
        let mut out: Vec<(usize, u64)> = Vec::new();
        let mut t = 0u64;
        let mut cut_t: Option<u64> = None;
        for &(o, at) in &self.chunks {
            t = t.max(at);
            if o >= cut {
                // the chunk that would have carried the byte at the cut carries what is before it
                if cut_t.is_none() {
                    cut_t = Some(t);
                }
                continue;
            }
            if o == 0 || out.last().is_some_and(|l| l.0 >= o) {
                continue;
            }
            out.push((o, t));
        }
        if cut > 0 {
            let last_t = out.last().map(|l| l.1).unwrap_or(0);
            out.push((cut, cut_t.unwrap_or(last_t).max(last_t)));
        }
        self.chunks = out;
        let last_t = self.chunks.last().map(|l| l.1).unwrap_or(0);
        if let Some((_, e)) = &mut self.close {
            *e = (*e).max(last_t);
        }
    }

    fn last_event_ms(&self) -> u64 {
        self.close.map(|c| c.1).unwrap_or(0).max(self.chunks.last().map(|c| c.1).unwrap_or(0))
    }
}

// ---------------------------------------------------------------------------------------------
// socket whose read side follows virtual arrival instants

pub struct TimedState {
    rbytes: Vec<u8>,
    chunks: VecDeque<(usize, u64)>,
    eof_ms: Option<u64>,
    epoch: Instant,
    avail: usize,
    pub delivered: usize,
    timer: Option<Pin<Box<Sleep>>>,
    /// (virtual ms, stream offset, bytes returned)
    pub reads: Vec<(u64, usize, usize)>,
    pub pendings: usize,
    pub eof_reads: usize,
    pub parked_forever: bool,
    pub written: usize,
    pub calls: usize,
    pub max_calls: usize,
    pub overrun: bool,
}

impl TimedState {
    fn now_ms(&self) -> u64 {
        (Instant::now() - self.epoch).as_millis() as u64
    }

    fn do_read(&mut self, cx: &mut Context<'_>, buf: &mut [u8]) -> Poll<io::Result<usize>> {
        self.calls += 1;
        if self.calls > self.max_calls {
            self.overrun = true;
            return Poll::Ready(Err(io::Error::other("simnet: socket call budget exceeded")));
        }
        if buf.is_empty() {
            return Poll::Ready(Ok(0));
        }
        loop {
            let now = self.now_ms();
            while let Some(&(o, at)) = self.chunks.front() {
                if at > now {
                    break;
                }
                self.avail = self.avail.max(o.min(self.rbytes.len()));
                self.chunks.pop_front();
            }
            if self.delivered < self.avail {
                let n = (self.avail - self.delivered).min(buf.len());
                let d = self.delivered;
                buf[..n].copy_from_slice(&self.rbytes[d..d + n]);
                self.delivered += n;
                self.reads.push((now, d, n));
                self.timer = None;
                return Poll::Ready(Ok(n));
            }
            let next = match (self.chunks.front(), self.eof_ms) {
                (Some(&(_, at)), _) => Some(at),
                (None, Some(e)) if e <= now => {
                    self.eof_reads += 1;
                    self.timer = None;
                    return Poll::Ready(Ok(0));
                }
                (None, Some(e)) => Some(e),
                (None, None) => None,
            };
            match next {
                None => {
                    // open connection, nothing more will ever arrive
                    self.parked_forever = true;
                    self.timer = None;
                    return Poll::Pending;
                }
                Some(at) => {
                    let mut s = Box::pin(tokio::time::sleep_until(self.epoch + Duration::from_millis(at)));
                    if s.as_mut().poll(cx).is_pending() {
                        self.timer = Some(s);
                        self.pendings += 1;
                        return Poll::Pending;
                    }
                    // due already: look again
                }
            }
        }
    }

    fn do_write(&mut self, n: usize) -> Poll<io::Result<usize>> {
        self.calls += 1;
        self.written += n;
        Poll::Ready(Ok(n))
    }
}

/// futures-io front end (handed to `TcpStream` directly)
#[derive(Clone)]
pub struct TimedStd(pub Arc<Mutex<TimedState>>);

impl futures::io::AsyncRead for TimedStd {
    fn poll_read(self: Pin<&mut Self>, cx: &mut Context<'_>, buf: &mut [u8]) -> Poll<io::Result<usize>> {
        self.0.lock().unwrap().do_read(cx, buf)
    }
}

impl futures::io::AsyncWrite for TimedStd {
    fn poll_write(self: Pin<&mut Self>, _cx: &mut Context<'_>, buf: &[u8]) -> Poll<io::Result<usize>> {
        self.0.lock().unwrap().do_write(buf.len())
    }
    fn poll_flush(self: Pin<&mut Self>, _cx: &mut Context<'_>) -> Poll<io::Result<()>> {
        Poll::Ready(Ok(()))
    }
    fn poll_close(self: Pin<&mut Self>, _cx: &mut Context<'_>) -> Poll<io::Result<()>> {
        Poll::Ready(Ok(()))
    }
}

impl DnsTcpStream for TimedStd {
    type Time = VTime;
}

/// tokio front end (wrapped in `AsyncIoTokioAsStd`, as the server does with an accepted socket)
#[derive(Clone)]
pub struct TimedTokio(pub Arc<Mutex<TimedState>>, pub bool);

impl tokio::io::AsyncRead for TimedTokio {
    fn poll_read(self: Pin<&mut Self>, cx: &mut Context<'_>, buf: &mut tokio::io::ReadBuf<'_>) -> Poll<io::Result<()>> {
        let r = self.0.lock().unwrap().do_read(cx, buf.initialize_unfilled());
        match r {
            Poll::Ready(Ok(n)) => {
                buf.advance(n);
                Poll::Ready(Ok(()))
            }
            Poll::Ready(Err(e)) => Poll::Ready(Err(e)),
            Poll::Pending => Poll::Pending,
        }
    }
}

impl tokio::io::AsyncWrite for TimedTokio {
    fn poll_write(self: Pin<&mut Self>, _cx: &mut Context<'_>, buf: &[u8]) -> Poll<io::Result<usize>> {
        self.0.lock().unwrap().do_write(buf.len())
    }
    fn poll_write_vectored(self: Pin<&mut Self>, _cx: &mut Context<'_>, bufs: &[io::IoSlice<'_>]) -> Poll<io::Result<usize>> {
        let n = if self.1 { bufs.iter().map(|b| b.len()).sum() } else { bufs.iter().map(|b| b.len()).find(|&l| l > 0).unwrap_or(0) };
        self.0.lock().unwrap().do_write(n)
    }
    fn is_write_vectored(&self) -> bool {
        self.1
    }
    fn poll_flush(self: Pin<&mut Self>, _cx: &mut Context<'_>) -> Poll<io::Result<()>> {
        Poll::Ready(Ok(()))
    }
    fn poll_shutdown(self: Pin<&mut Self>, _cx: &mut Context<'_>) -> Poll<io::Result<()>> {
        Poll::Ready(Ok(()))
    }
}

// ---------------------------------------------------------------------------------------------
// execution

#[derive(Clone, Debug, PartialEq)]
pub enum TTerm {
    End,
    Err { timed_out: bool, text: String },
    /// nothing happened until the driver's horizon
    Pending,
    /// more items than messages were ever sent
    Flood,
    Overrun,
    Panic(String, String),
}

impl TTerm {
    fn kind(&self) -> &'static str {
        match self {
            TTerm::End => "end",
            TTerm::Err { timed_out: true, .. } => "timed-out",
            TTerm::Err { .. } => "err",
            TTerm::Pending => "pending",
            TTerm::Flood => "flood",
            TTerm::Overrun => "livelock",
            TTerm::Panic(..) => "panic",
        }
    }
}

pub struct TObs {
    /// (virtual ms at which the item was observed, body)
    pub items: Vec<(u64, Vec<u8>)>,
    pub terminal: TTerm,
    pub term_ms: u64,
    pub delivered: usize,
    pub sock_pendings: usize,
}

pub struct TRunner {
    rt: tokio::runtime::Runtime,
}

fn new_rt() -> tokio::runtime::Runtime {
    tokio::runtime::Builder::new_current_thread().enable_time().start_paused(true).build().expect("tokio runtime")
}

async fn drive<S: DnsTcpStream>(sock: S, c: &TCase, epoch: Instant, state: &Arc<Mutex<TimedState>>) -> (Vec<(u64, Vec<u8>)>, TTerm, u64) {
    let (stream, handle) = TcpStream::from_stream(sock, peer());
    let mut ts = TimeoutStream::new(stream, Duration::from_millis(c.timeout_ms));
    let horizon = epoch + Duration::from_millis(c.last_event_ms() + 3 * c.timeout_ms + 10_000);
    let mut items = Vec::new();
    let now = || (Instant::now() - epoch).as_millis() as u64;
    let term = loop {
        if items.len() > c.inbound.len() {
            break TTerm::Flood;
        }
        match tokio::time::timeout_at(horizon, ts.next()).await {
            Err(_) => break TTerm::Pending,
            Ok(None) => break TTerm::End,
            Ok(Some(Ok(m))) => {
                let (b, _) = m.into_parts();
                items.push((now(), b));
            }
            Ok(Some(Err(e))) => {
                if state.lock().unwrap().overrun {
                    break TTerm::Overrun;
                }
                break TTerm::Err { timed_out: e.kind() == io::ErrorKind::TimedOut, text: format!("{:?}: {e}", e.kind()) };
            }
        }
    };
    let at = now();
    drop(ts);
    drop(handle);
    (items, term, at)
}

impl TRunner {
    pub fn new() -> TRunner {
        TRunner { rt: new_rt() }
    }

    pub fn run(&mut self, c: &TCase) -> TObs {
        let inl = layout(1, &c.inbound);
        let cut = c.close.map(|(k, _)| k.min(inl.wire.len())).unwrap_or(inl.wire.len());
        let rbytes = inl.wire[..cut].to_vec();
        let max_calls = 4 * rbytes.len() + 8 * c.chunks.len() + 64;
        let c2 = c.clone();
        let shared: Arc<Mutex<Option<Arc<Mutex<TimedState>>>>> = Arc::new(Mutex::new(None));
        let shared2 = shared.clone();
        let r = {
            let rt = &self.rt;
            mon::catch(move || {
                rt.block_on(async move {
                    let epoch = Instant::now();
                    let state = Arc::new(Mutex::new(TimedState {
                        rbytes,
                        chunks: c2.chunks.iter().copied().collect(),
                        eof_ms: c2.close.map(|(_, e)| e),
                        epoch,
                        avail: 0,
                        delivered: 0,
                        timer: None,
                        reads: Vec::new(),
                        pendings: 0,
                        eof_reads: 0,
                        parked_forever: false,
                        written: 0,
                        calls: 0,
                        max_calls,
                        overrun: false,
                    }));
                    *shared2.lock().unwrap() = Some(state.clone());
                    let out = match c2.sock {
                        Sock::Direct => drive(TimedStd(state.clone()), &c2, epoch, &state).await,
                        Sock::Tokio => drive(AsyncIoTokioAsStd(TimedTokio(state.clone(), c2.vectored)), &c2, epoch, &state).await,
                    };
                    // the socket's own timer must not outlive the case
                    state.lock().unwrap().timer = None;
                    out
                })
            })
        };
        let st = shared.lock().unwrap().clone();
        let (delivered, sock_pendings) = st.map(|s| s.lock().map(|s| (s.delivered, s.pendings)).unwrap_or((0, 0))).unwrap_or((0, 0));
        match r {
            Ok((items, terminal, term_ms)) => TObs { items, terminal, term_ms, delivered, sock_pendings },
            Err(p) => {
                // a panic may have left timers of the dead case behind: fresh runtime
                self.rt = new_rt();
                TObs { items: Vec::new(), terminal: TTerm::Panic(p.message.clone(), p.site()), term_ms: 0, delivered, sock_pendings }
            }
        }
    }
}

// ---------------------------------------------------------------------------------------------
// oracle

pub struct TVerdict {
    pub rule: &'static str,
    pub sig: String,
    pub expected: Value,
    pub observed: Value,
}

/// What the oracle saw in a silent case (for the counters).
#[derive(Default)]
pub struct TSeen {
    pub items_ok: usize,
    pub expected_timeout: bool,
    pub ambiguous: bool,
    /// an item was rightly delivered later than one idle timeout after the first poll
    pub item_after_cumulative_timeout: bool,
    /// largest (event instant − previous item instant) of a delivered item, in ‰ of the timeout
    pub max_gap_permille: u64,
    pub end_ok: bool,
    pub err_ok: bool,
    pub pending_ok: bool,
}

#[derive(Clone, Copy, Debug, PartialEq)]
enum Want {
    Item(usize),
    End,
    BrokenErr,
    Pending,
    TimedOut,
}

pub fn judge(c: &TCase, o: &TObs) -> (Vec<TVerdict>, TSeen) {
    let mut out = Vec::new();
    let mut seen = TSeen::default();
    match &o.terminal {
        TTerm::Panic(msg, site) => {
            out.push(TVerdict { rule: "panic", sig: format!("timeout-stack|{site}"), expected: json!("no panic"), observed: json!(msg) });
            return (out, seen);
        }
        TTerm::Overrun => {
            out.push(TVerdict { rule: "livelock", sig: "timeout-stack|socket-call-bound".into(), expected: json!("a bounded number of socket calls"), observed: json!(o.terminal.kind()) });
            return (out, seen);
        }
        _ => {}
    }
    let inl = layout(1, &c.inbound);
    let total = inl.wire.len();
    let cut = c.close.map(|(k, _)| k.min(total)).unwrap_or(total);
    let complete: Vec<usize> = (0..inl.frames.len()).filter(|&i| inl.frames[i].1 <= cut).collect();
    let t = c.timeout_ms;
    // instant at which the byte before stream offset `off` has arrived
    let arrival = |off: usize| -> u64 { c.chunks.iter().find(|ch| ch.0 >= off).map(|ch| ch.1).unwrap_or_else(|| c.chunks.last().map(|ch| ch.1).unwrap_or(0)) };

    let mut deadline: Option<u64> = if t > 0 { Some(t) } else { None };
    let mut prev_item_ms = 0u64;
    let mut pos = 0usize;
    loop {
        // what the script makes available next, and when
        let (ev, ev_ms): (Want, Option<u64>) = if pos < complete.len() {
            (Want::Item(complete[pos]), Some(arrival(inl.frames[complete[pos]].1)))
        } else {
            match c.close {
                Some((_, e)) => (if class_of(cut, &inl.frames) == "frame" || cut == 0 { Want::End } else { Want::BrokenErr }, Some(e)),
                None => (Want::Pending, None),
            }
        };
        let want = match (ev_ms, deadline) {
            (Some(e), Some(d)) if e.abs_diff(d) < MARGIN_MS => {
                seen.ambiguous = true;
                return (out, seen);
            }
            (Some(e), Some(d)) if e > d => Want::TimedOut,
            (None, Some(_)) => Want::TimedOut,
            _ => ev,
        };
        // what the stream yielded at this position
        let got_item = o.items.get(pos);
        let got_kind = if got_item.is_some() { "item" } else { o.terminal.kind() };
        let ok = match (want, got_item) {
            (Want::Item(f), Some((_, b))) => *b == inl.bodies[f],
            (Want::Item(_), None) => false,
            (_, Some(_)) => false,
            (Want::End, None) => o.terminal == TTerm::End,
            (Want::BrokenErr, None) => matches!(o.terminal, TTerm::Err { timed_out: false, .. }),
            (Want::Pending, None) => o.terminal == TTerm::Pending,
            (Want::TimedOut, None) => matches!(o.terminal, TTerm::Err { timed_out: true, .. }),
        };
        if ok {
            match want {
                Want::Item(_) => {
                    let at = o.items[pos].0;
                    seen.items_ok += 1;
                    if t > 0 {
                        if at > t {
                            seen.item_after_cumulative_timeout = true;
                        }
                        seen.max_gap_permille = seen.max_gap_permille.max(ev_ms.unwrap_or(0).saturating_sub(prev_item_ms) * 1000 / t);
                    }
                    prev_item_ms = at;
                    deadline = if t > 0 { Some(at + t) } else { None };
                    pos += 1;
                    continue;
                }
                Want::End => seen.end_ok = true,
                Want::BrokenErr => seen.err_ok = true,
                Want::Pending => seen.pending_ok = true,
                Want::TimedOut => seen.expected_timeout = true,
            }
            return (out, seen);
        }
        // ---- mismatch
        let where_ = if pos >= complete.len() {
            "end"
        } else if pos == 0 {
            "first-message"
        } else {
            "later-message"
        };
        let stalled = if o.delivered >= cut && cut == total { "frame" } else { class_of(o.delivered, &inl.frames) };
        let got_timed_out = got_item.is_none() && matches!(o.terminal, TTerm::Err { timed_out: true, .. });
        let expected = json!({"position": pos, "want": format!("{want:?}"), "script_event_ms": ev_ms, "idle_deadline_ms": deadline, "timeout_ms": t});
        let observed = json!({"items": o.items.iter().map(|(at, b)| json!([at, short(b)])).collect::<Vec<_>>(),
                              "terminal": format!("{:?}", o.terminal), "terminal_ms": o.term_ms, "socket_bytes_delivered": o.delivered});
        let (rule, sig) = if got_timed_out && want != Want::TimedOut {
            // the error came although the deadline (counted from the previous item) was not reached:
            // had the connection already lived for one whole timeout, or not even that?
            let cumulative = if !o.items.is_empty() && o.term_ms >= t { "connection-older-than-timeout" } else { "connection-younger-than-timeout" };
            ("timeout-spurious", format!("{where_}|stalled-{stalled}|{cumulative}"))
        } else if want == Want::TimedOut {
            ("timeout-missing", format!("{where_}|got-{got_kind}"))
        } else if let (Want::Item(_), Some(_)) = (want, got_item) {
            ("items", format!("timeout-stack|{where_}|wrong-bytes"))
        } else {
            ("terminal", format!("timeout-stack|{where_}|{}->{got_kind}", match want { Want::Item(_) => "item", Want::End => "end", Want::BrokenErr => "err", Want::Pending => "pending", Want::TimedOut => "timed-out" }))
        };
        out.push(TVerdict { rule, sig, expected, observed });
        return (out, seen);
    }
}

pub fn check_t(rep: &mut Reporter, runner: &mut TRunner, c: &TCase) {
    let o = runner.run(c);
    rep.eval();
    let (vs, seen) = judge(c, &o);
    // ---- what was observed
    rep.count("t_cases");
    rep.count(&format!("t_sock/{}", c.sock.name()));
    rep.add("t_items_ok", seen.items_ok as u64);
    rep.add("t_socket_would_block", o.sock_pendings as u64);
    rep.count(&format!("t_terminal/{}", o.terminal.kind()));
    if c.timeout_ms == 0 {
        rep.count("t_timer_disabled");
    }
    if seen.ambiguous {
        rep.count("t_ambiguous_not_judged");
    }
    if seen.expected_timeout {
        rep.count("t_timeout_expected_and_seen");
        rep.count(&format!("t_timeout_expected_and_seen/after-{}-items", seen.items_ok.min(3)));
        let inl = layout(1, &c.inbound);
        rep.count(&format!("t_timeout_stalled/{}", if o.delivered >= inl.wire.len() { "frame" } else { class_of(o.delivered, &inl.frames) }));
    }
    if seen.item_after_cumulative_timeout {
        rep.count("t_item_after_cumulative_gap_over_timeout");
    }
    if seen.end_ok {
        rep.count("t_clean_end");
    }
    if seen.err_ok {
        rep.count("t_close_inside_frame_err");
    }
    if seen.pending_ok {
        rep.count("t_open_no_timer_pending");
    }
    rep.max("t_max_gap_permille_of_timeout_delivered", seen.max_gap_permille as f64);
    if vs.is_empty() && !seen.ambiguous && c.inbound.len() >= 2 && (seen.item_after_cumulative_timeout || seen.expected_timeout) {
        rep.nontrivial(fnv64(c.to_json().to_string().as_bytes()));
        rep.count("t_nontrivial_cases");
    }
    for v in vs {
        rep.violation(v.rule, &v.sig, c.to_json(), v.expected, v.observed);
    }
    rep.sample(|| json!({"case": c.to_json(), "terminal": o.terminal.kind(), "items": o.items.len(), "terminal_ms": o.term_ms}));
}

// ---------------------------------------------------------------------------------------------
// generator

/// split `g` units into `k` non-negative parts
fn split_units(r: &mut Rng, g: u64, k: usize) -> Vec<u64> {
    let mut v = vec![0u64; k];
    match r.below(4) {
        0 => v[r.usize_below(k)] = g,
        1 => {
            // even-ish
            let mut left = g;
            for (i, x) in v.iter_mut().enumerate() {
                let share = left / (k - i) as u64;
                *x = share;
                left -= share;
            }
        }
        _ => {
            let mut left = g;
            for x in v.iter_mut().take(k - 1) {
                let s = r.range(0, left);
                *x = s;
                left -= s;
            }
            v[k - 1] = left;
            r.shuffle(&mut v);
        }
    }
    v
}

fn under(r: &mut Rng, heavy: bool) -> u64 {
    if heavy {
        r.range(14, 39)
    } else {
        match r.below(4) {
            0 => 0,
            1 => r.range(1, 10),
            2 => r.range(11, 30),
            _ => r.range(31, 39),
        }
    }
}

fn over(r: &mut Rng) -> u64 {
    match r.below(3) {
        0 => r.range(41, 45),
        1 => r.range(46, 80),
        _ => r.range(81, 130),
    }
}

pub fn gen_tcase(r: &mut Rng) -> TCase {
    loop {
        // one unit of the gap grid; the idle timeout is 40 units
        let unit = *r.pick(&[2u64, 5, 40, 150]);
        let disabled = r.chance(1, 16);
        let timeout_ms = if disabled { 0 } else { 40 * unit };
        let n = 2 + r.weighted(&[4, 4, 2]);
        let inbound: Vec<usize> = (0..n).map(|_| *r.pick(&[1usize, 2, 3, 40, 255, 256, 300])).collect();
        let frames = crate::frame_bounds(&inbound);
        let total = frames.last().unwrap().1;
        let mode = r.below(5);
        let over_at = r.usize_below(n + 1);
        let mut t = 0u64;
        let mut chunks = Vec::new();
        for (i, &(s, e)) in frames.iter().enumerate() {
            let g = match mode {
                0 | 1 => under(r, true),
                2 => {
                    if i == over_at {
                        over(r)
                    } else {
                        {
                        let heavy = r.bool();
                        under(r, heavy)
                    }
                    }
                }
                3 => under(r, false),
                _ => {
                    if r.chance(1, 4) {
                        over(r)
                    } else {
                        {
                        let heavy = r.bool();
                        under(r, heavy)
                    }
                    }
                }
            };
            // 1..4 chunks: inner boundaries of this frame, the frame edge last
            let k = r.urange(1, 4).min(e - s);
            let mut offs: Vec<usize> = Vec::new();
            while offs.len() < k - 1 {
                let o = if r.chance(1, 2) { s + r.urange(1, 3.min(e - s - 1)) } else { r.urange(s + 1, e - 1) };
                if !offs.contains(&o) {
                    offs.push(o);
                }
            }
            offs.sort_unstable();
            offs.push(e);
            let parts = split_units(r, g, k);
            for (o, d) in offs.into_iter().zip(parts) {
                t += d * unit;
                chunks.push((o, t));
            }
        }
        let g_end = match mode {
            2 if over_at == n => over(r),
            2 => under(r, false),
            _ => {
                if r.bool() {
                    over(r)
                } else {
                    under(r, false)
                }
            }
        };
        let close = match r.below(10) {
            0..=3 => None,
            4..=7 => Some((total, t + g_end * unit)),
            _ => {
                // inside a frame (or on an inner frame edge)
                let k = r.urange(1, total - 1);
                let at = chunks.iter().find(|c: &&(usize, u64)| c.0 >= k).map(|c| c.1).unwrap_or(t);
                Some((k, at + g_end * unit))
            }
        };
        let mut c = TCase { sock: if r.chance(1, 4) { Sock::Direct } else { Sock::Tokio }, vectored: r.bool(), timeout_ms, inbound, chunks, close };
        c.normalise();
        if !would_be_ambiguous(&c) {
            return c;
        }
    }
}

/// reference walk with ideal delivery instants: does any event fall within the margin of a deadline?
fn would_be_ambiguous(c: &TCase) -> bool {
    if c.timeout_ms == 0 {
        return false;
    }
    let frames = crate::frame_bounds(&c.inbound);
    let total = frames.last().map(|f| f.1).unwrap_or(0);
    let cut = c.close.map(|(k, _)| k.min(total)).unwrap_or(total);
    let mut deadline = c.timeout_ms;
    for &(_, e) in frames.iter().filter(|f| f.1 <= cut) {
        let at = c.chunks.iter().find(|ch| ch.0 >= e).map(|ch| ch.1).unwrap_or(0);
        if at.abs_diff(deadline) < MARGIN_MS {
            return true;
        }
        if at > deadline {
            return false;
        }
        deadline = at + c.timeout_ms;
    }
    matches!(c.close, Some((_, e)) if e.abs_diff(deadline) < MARGIN_MS)
}

/// Keep the unused-import lint quiet for items only needed by trait bounds.
#[allow(dead_code)]
fn _assert_future<F: Future>(_: &F) {}
