//! Server observation point over the VALIDATING RECURSOR (rules `rsrv-*`, counters `rsrv/*`, witnesses
//! `"mode": "rsrv"`): the wire response of `Catalog::handle_request` for a catalog whose root zone is
//! hickory's own `RecursiveZoneHandler<SimRuntime>`, built with `RecursiveZoneHandler::try_from_config`
//! from a `RecursiveConfig` (roots file = addresses of the simulated root servers, `DnssecPolicyConfig::
//! ValidateWithStaticKey { path = trust-anchor file with the hierarchy's root KSK }`; both files are
//! written into the run's output directory), resolving over the simulated signed internet of `rnet.rs`
//! (part R's scripted `RuntimeProvider`, tamper layer at the responder boundary). This is the only
//! place where the `LookupError::RecursiveError(..)` arms of `build_forwarded_response` run: `Negative`
//! / `Net(NoRecordsFound)` (validated NODATA / NXDOMAIN), `Net(Nsec { proof })` (a denial the validator
//! did not find Secure: passed on unauthenticated only when the proof is Insecure, SERVFAIL otherwise).
//!
//! One FRESH catalog (recursor, caches) per request. Requests: RD=1, EDNS always present; honest
//! network with (DO,AD,CD) in {100, 101, 010, 000} (+ one RD=0 now and then), then single faults of part
//! R's menu (`rec::enumerate_faults`) on the recorded authoritative exchanges of the DO=1 CD=0 honest
//! request: first the faults on the denial link (drop / alter / replace one NSEC / NSEC3 / SOA record or
//! its RRSIG, strip RRSIGs, strip the denial, empty the authority section, replay another negative
//! response, flip the rcode) and one compound fault of this point, `forged-unsigned-soa` (the SOA of the
//! negative answer rewritten in its MINIMUM field, its RRSIGs removed, the NSEC / NSEC3 proof untouched),
//! then a sample of the rest stratified by (kind, link); each with DO=1 CD=0, some repeated with CD=1 and
//! with DO=0 AD=1 CD=0.
//!
//! Clauses: the server clauses of `server.rs` (`crate::server_wire_alarms`: `ad-not-authentic`,
//! `served-forged-to-cd0`, `false-denial-served`), `server-panic`, and
//!  * `bogus-denial-served`: a CD=0 client that signalled DNSSEC awareness (DO=1 or AD=1) gets NOERROR /
//!    NXDOMAIN without the (CNAME-chased) data asked for and WITHOUT AD, for a name whose zone is not
//!    truly insecure (securely delegated, or bogus by configuration), and either (a) DO=1 and the
//!    authority section carries no NSEC / NSEC3 record at all (detail `nxdomain-no-proof-records` /
//!    `nodata-no-proof-records`): a negative answer of a signed zone that neither the server vouches for
//!    nor the client can check, or (b) DO=1, the SAME request over the honest network is answered with
//!    AD=1, and no record or signature in answer / authority belongs to a truly insecure zone (such a
//!    record keeps AD clear legitimately) (detail `nxdomain` / `nodata`): under tampering the negative
//!    answer is handed on unauthenticated, as if the zone were unsigned ("SERVFAIL to CD=0 clients,
//!    never silently Insecure"). Not raised when `false-denial-served` already describes the response.
//!    (hickory leaves AD clear on honest negative answers whose RRsets carry RRSIGs of two algorithms -
//!    it marks the signature it did not need Indeterminate -: stricter, not judged; that is why (b)
//!    compares with the honest request.)
//!  * `bogus-zone-data-served`: a CD=0 client gets NOERROR / NXDOMAIN with a genuine answer record of a
//!    zone that is bogus by configuration (its DS matches none of its keys).
//! Signature = `detail|<full fault kind>` (`detail|honest`; `detail|multi-fault:<kinds>` when a replayed
//! fault set does not shrink to one fault; the panic site for panics).
//!
//! Don't-cares: everything that is SERVFAIL / another error rcode / no response; AD on requests with
//! neither DO nor AD; negative answers for names in NSEC3 Opt-Out zones (RFC 5155 9.2 forbids AD over
//! Opt-Out spans: counted as `rsrv/info_unauthenticated_negative_in_optout_zone_not_judged`); negative
//! conclusions behind a CNAME link of a truly insecure zone; honest requests answered SERVFAIL
//! (stricter, counted); what a CD=1 client gets beyond the AD clause; NSEC3 iteration limits (not
//! configured here, part R does that).
#![allow(dead_code)]

use std::net::{IpAddr, SocketAddr};
use std::path::PathBuf;
use std::sync::Arc;
use std::time::Duration;

use hickory_net::runtime::TokioHandle;
use hickory_net::xfer::Protocol;
use hickory_proto::rr::LowerName;
use hickory_resolver::recursor::{DnssecPolicyConfig, RecursiveConfig, RecursorOptions};
use hickory_server::server::{Request, RequestHandler};
use hickory_server::store::recursor::RecursiveZoneHandler;
use hickory_server::zone_handler::{Catalog, ZoneHandler, ZoneType};
use serde_json::{json, Value};

use vh::mon::{self, Reporter};
use vh::prng::{fnv64, Rng};

use crate::fault::{Attacker, Fault, Prim};
use crate::hier::{Status, Truth};
use crate::rec::{self, RStep, Recorded};
use crate::refzone::{self, fold, show, ty, Name};
use crate::rnet::{AuthExchange, AuthNet, RFault, SimRuntime, VTime};
use crate::server::{self, Flags, Recorder, WireObs};
use crate::upstream::Exchange;
use crate::world::{Rec, SEC_AN};
use crate::{vrt, Bench, QueryCase};

/// per-request cap on datagrams the simulated network answers
const DATAGRAM_CAP: usize = 800;

// ---------------------------------------------------------------------------------------------
// configuration files of the recursor zone handler

/// roots file + trust-anchor file of one hierarchy, in the run's output directory
pub struct Cfg {
    pub dir: PathBuf,
    pub roots: PathBuf,
    pub anchor: PathBuf,
}

impl Cfg {
    pub fn write(rep: &Reporter, b: &Bench, attacker: &Arc<Attacker>) -> Result<Cfg, String> {
        let ctx = rep.ctx();
        let dir = ctx.out.join(format!("rsrv-cfg-{}-{}", ctx.shard, std::process::id()));
        std::fs::create_dir_all(&dir).map_err(|e| format!("{}: {e}", dir.display()))?;
        let net = AuthNet::new(b.world.clone(), attacker.clone(), 1);
        let roots = net.roots();
        if roots.is_empty() {
            return Err("the root zone has no name server address".into());
        }
        // hints: only the addresses are used by `Recursor::from_config`
        let mut txt = String::from(". 3600000 IN NS hints.rsrv.\n");
        for ip in &roots {
            match ip {
                IpAddr::V4(a) => txt.push_str(&format!("hints.rsrv. 3600000 IN A {a}\n")),
                IpAddr::V6(a) => txt.push_str(&format!("hints.rsrv. 3600000 IN AAAA {a}\n")),
            }
        }
        let roots_file = dir.join("roots.zone");
        std::fs::write(&roots_file, txt).map_err(|e| format!("{}: {e}", roots_file.display()))?;
        let (alg, key) = &b.truth().anchor;
        let anchor_file = dir.join("trust-anchor.key");
        std::fs::write(&anchor_file, format!(". 3600 IN DNSKEY 257 3 {} {}\n", alg, data_encoding::BASE64.encode(key))).map_err(|e| format!("{}: {e}", anchor_file.display()))?;
        Ok(Cfg { dir, roots: PathBuf::from("roots.zone"), anchor: anchor_file })
    }
    pub fn remove(&self) {
        let _ = std::fs::remove_dir_all(&self.dir);
    }
}

/// A catalog whose root zone is the validating recursor over `net`. Must run inside the runtime.
async fn build_catalog(cfg: &Cfg, net: Arc<AuthNet>) -> Result<Catalog, String> {
    let mut o = RecursorOptions::default();
    // the simulated servers live on TEST-NET addresses
    o.deny_server = Vec::new();
    o.allow_server = Vec::new();
    o.edns_payload_len = crate::rnet::PAYLOAD as u16;
    let config = RecursiveConfig {
        roots: cfg.roots.clone(),
        dnssec_policy: DnssecPolicyConfig::ValidateWithStaticKey { path: Some(cfg.anchor.clone()), nsec3_soft_iteration_limit: None, nsec3_hard_iteration_limit: None, validation_cache_size: None },
        options: o,
    };
    let provider = SimRuntime { handle: TokioHandle::default(), net };
    let handler = RecursiveZoneHandler::try_from_config(hickory_proto::rr::Name::root(), ZoneType::External, config, Some(cfg.dir.as_path()), provider).await?;
    if !handler.can_validate_dnssec() {
        return Err("RecursiveZoneHandler built with ValidateWithStaticKey does not validate".into());
    }
    let mut cat = Catalog::new();
    cat.upsert(LowerName::from(&hickory_proto::rr::Name::root()), vec![Arc::new(handler) as Arc<dyn ZoneHandler>]);
    Ok(cat)
}

// ---------------------------------------------------------------------------------------------
// one request

pub struct SResult {
    /// decoded wire response; Err: "PANIC ..", no response, undecodable, virtual timeout
    pub wire: Result<WireObs, String>,
    pub log: Vec<AuthExchange>,
    pub cap_hit: bool,
}

/// One request through a FRESH catalog / recursor zone handler over the simulated internet with the
/// faults of `st` in place. Err: the observation point could not be set up.
pub fn run_case(b: &Bench, attacker: &Arc<Attacker>, cfg: &Cfg, st: &RStep, f: Flags) -> Result<SResult, String> {
    let rt = tokio::runtime::Builder::new_current_thread().enable_time().start_paused(true).build().map_err(|e| e.to_string())?;
    let net = Arc::new(AuthNet::new(b.world.clone(), attacker.clone(), DATAGRAM_CAP));
    vrt::clock_reset(b.truth().hier.now as u64);
    net.begin_step(st.faults.clone());
    let wire_req = server::request_wire(&st.qname, st.qtype, f);
    let mut build_err: Option<String> = None;
    let caught = mon::catch(|| {
        rt.block_on(async {
            let cat = match build_catalog(cfg, net.clone()).await {
                Ok(c) => c,
                Err(e) => {
                    build_err = Some(e);
                    return Err("not built".to_string());
                }
            };
            let src: SocketAddr = "192.0.2.9:5353".parse().unwrap();
            let req = Request::from_bytes(wire_req, src, Protocol::Udp).map_err(|e| format!("request did not parse: {e}"))?;
            let rec = Recorder::default();
            if tokio::time::timeout(Duration::from_secs(600), cat.handle_request::<_, VTime>(&req, rec.clone())).await.is_err() {
                return Err("virtual timeout (600 s)".to_string());
            }
            let out = std::mem::take(&mut *rec.0.lock().unwrap());
            Ok::<_, String>(out)
        })
    });
    if let Some(e) = build_err {
        return Err(e);
    }
    let (log, cap_hit) = net.take_log();
    let wire = match caught {
        Ok(Ok(msgs)) => match msgs.first() {
            Some(m) => server::decode(m),
            None => Err("no response".into()),
        },
        Ok(Err(e)) => Err(e),
        Err(p) => Err(format!("PANIC {} @ {}", p.message.split_whitespace().collect::<Vec<_>>().join(" "), crate::crate_site(&p.site()))),
    };
    Ok(SResult { wire, log, cap_hit })
}

// ---------------------------------------------------------------------------------------------
// judging

pub struct SAlarm {
    pub rule: &'static str,
    pub detail: String,
    pub observed: Value,
}

/// the (CNAME-chased) name the response leaves without data of the type asked for, and whether the
/// chain passed a CNAME of a truly insecure zone
fn negative_conclusion(t: &Truth, qname: &Name, qtype: u16, w: &WireObs) -> Option<(Name, bool)> {
    let answers: Vec<&Rec> = w.recs.iter().filter(|r| r.sec == SEC_AN && r.rtype != ty::RRSIG).collect();
    let mut n = qname.clone();
    let mut via_insecure = false;
    for _ in 0..12 {
        if answers.iter().any(|r| fold(&r.owner) == n && r.rtype == qtype) {
            return None;
        }
        if qtype != ty::CNAME {
            if let Some(cn) = answers.iter().find(|r| fold(&r.owner) == n && r.rtype == ty::CNAME) {
                let target = refzone::cname_target(&cn.rdata);
                if target == n {
                    return None;
                }
                if t.zones[t.responsible(&n, ty::CNAME)].status == Status::Insecure {
                    via_insecure = true;
                }
                n = target;
                continue;
            }
        }
        return Some((n, via_insecure));
    }
    None
}

/// What `judge_case` saw besides alarms (for the counters).
#[derive(Default)]
pub struct Seen {
    pub optout_negative_not_judged: bool,
    /// AD=0 negative answer with proof records where the honest request has AD=0 as well
    pub ad0_negative_not_judged: bool,
}

/// `honest_ad1`: the same request (same flags) over the honest network is answered NOERROR / NXDOMAIN with AD=1
pub fn judge_case(b: &Bench, st: &RStep, f: Flags, res: &SResult, honest_ad1: bool, seen: &mut Seen) -> Vec<SAlarm> {
    let t = b.truth();
    let mut out: Vec<SAlarm> = Vec::new();
    let w = match &res.wire {
        Err(e) if e.starts_with("PANIC") => {
            out.push(SAlarm { rule: "server-panic", detail: e.clone(), observed: json!(e) });
            return out;
        }
        Err(_) => return out,
        Ok(w) => w,
    };
    if !f.rd || !(w.rcode == 0 || w.rcode == 3) {
        return out;
    }
    for (rule, detail, observed) in crate::server_wire_alarms(t, &st.qname, st.qtype, f, w) {
        out.push(SAlarm { rule, detail, observed });
    }
    if !f.cd {
        // data of a zone that is bogus by configuration
        for r in w.recs.iter().filter(|r| r.sec == SEC_AN && r.rtype != ty::RRSIG) {
            let zs = t.zones_of_record(&r.owner, r.rtype);
            let genuine = t.genuine(&r.owner, r.rtype).iter().any(|(_, set)| set.contains(&crate::hier::canon(r.rtype, &r.rdata)));
            if genuine && !zs.is_empty() && zs.iter().all(|z| t.zones[*z].status == Status::Bogus) {
                out.push(SAlarm { rule: "bogus-zone-data-served", detail: "answer".into(), observed: json!({"record": r.to_json(), "rcode": w.rcode, "ad": w.ad, "flags": f.label()}) });
                break;
            }
        }
        // an unauthenticated denial for a name of a zone that is not truly insecure
        let explained = out.iter().any(|a| matches!(a.rule, "ad-not-authentic" | "served-forged-to-cd0" | "false-denial-served" | "bogus-zone-data-served"));
        if (f.edns_do || f.ad) && !w.ad && !explained {
            if let Some((n, false)) = negative_conclusion(t, &st.qname, st.qtype, w) {
                let z = &t.zones[t.responsible(&n, st.qtype)];
                if z.status != Status::Insecure {
                    if z.spec.nsec3.as_ref().is_some_and(|p| p.opt_out) {
                        seen.optout_negative_not_judged = true;
                    } else {
                        let no_proof = f.edns_do && !w.recs.iter().any(|r| r.sec == crate::world::SEC_NS && matches!(r.rtype, crate::chain::T_NSEC | crate::chain::T_NSEC3));
                        // a record (or signature) of a truly insecure zone in answer / authority keeps AD clear legitimately
                        let ad0_explained = !f.edns_do || w.recs.iter().filter(|r| r.sec != crate::world::SEC_AR).any(|r| t.zones_of_record(&r.owner, r.covered().unwrap_or(r.rtype)).iter().any(|z| t.zones[*z].status == Status::Insecure));
                        if no_proof || (honest_ad1 && !st.faults.is_empty() && !ad0_explained) {
                            out.push(SAlarm {
                                rule: "bogus-denial-served",
                                detail: format!("{}{}", if w.rcode == 3 { "nxdomain" } else { "nodata" }, if no_proof { "-no-proof-records" } else { "" }),
                                observed: json!({"name": show(&n), "qtype": st.qtype, "rcode": w.rcode, "ad": w.ad, "flags": f.label(), "zone": show(&z.apex), "zone_status": z.status.as_str(), "same_request_over_honest_network_has_ad1": honest_ad1}),
                            });
                        } else {
                            seen.ad0_negative_not_judged = true;
                        }
                    }
                }
            }
        }
    }
    let mut keys: Vec<(&'static str, String)> = Vec::new();
    out.retain(|a| {
        let k = (a.rule, a.detail.clone());
        if keys.contains(&k) {
            false
        } else {
            keys.push(k);
            true
        }
    });
    out
}

const EXPECTED: &str = "AD=1 only over authentic data of truly secure zones; nothing forged and no denial of existing secure data to a CD=0 client; SERVFAIL (never an unauthenticated NOERROR / NXDOMAIN) to a CD=0 client for a name of a zone that is not truly insecure when the denial did not validate";

pub struct SJudge<'a> {
    pub rep: &'a mut Reporter,
    pub attacker: Arc<Attacker>,
    pub cfg: &'a Cfg,
    pub hier_json: Value,
    pub hier_hash: u64,
}

impl SJudge<'_> {
    fn reproduces(&self, b: &Bench, st: &RStep, f: Flags, honest_ad1: bool, rule: &str, detail: &str) -> bool {
        let Ok(res) = run_case(b, &self.attacker, self.cfg, st, f) else { return false };
        judge_case(b, st, f, &res, honest_ad1, &mut Seen::default()).iter().any(|a| a.rule == rule && a.detail == detail)
    }

    /// one fault if one suffices, fewest primitives of a compound fault
    fn minimize(&mut self, b: &Bench, st: &RStep, f: Flags, honest_ad1: bool, rule: &str, detail: &str) -> RStep {
        let mut cur = st.clone();
        if cur.faults.len() > 1 {
            for x in cur.faults.clone() {
                let t = RStep { faults: vec![x], ..cur.clone() };
                if self.reproduces(b, &t, f, honest_ad1, rule, detail) {
                    cur = t;
                    break;
                }
            }
        }
        for fi in 0..cur.faults.len() {
            let mut pi = 0;
            while cur.faults[fi].fault.prims.len() > 1 && pi < cur.faults[fi].fault.prims.len() {
                let mut t = cur.clone();
                t.faults[fi].fault.prims.remove(pi);
                if self.reproduces(b, &t, f, honest_ad1, rule, detail) {
                    cur = t;
                } else {
                    pi += 1;
                }
            }
        }
        self.rep.count("rsrv/violations_minimized");
        cur
    }

    fn report(&mut self, b: &Bench, st: &RStep, f: Flags, honest_ad1: bool, a: SAlarm, workload: &str) {
        let needs_min = a.rule != "server-panic" && (st.faults.len() > 1 || st.faults.iter().any(|x| x.fault.prims.len() > 1));
        let min = if needs_min { self.minimize(b, st, f, honest_ad1, a.rule, &a.detail) } else { st.clone() };
        let sig = if a.rule == "server-panic" {
            a.detail.clone()
        } else if min.faults.is_empty() {
            format!("{}|honest", a.detail)
        } else if min.faults.len() > 1 {
            format!("{}|multi-fault:{}", a.detail, crate::fault_kinds(min.faults.iter().map(|x| x.fault.kind.as_str())))
        } else {
            format!("{}|{}", a.detail, min.faults[0].fault.kind)
        };
        // re-run the minimal case to record what it shows
        let (wire, ex_json) = match run_case(b, &self.attacker, self.cfg, &min, f) {
            Ok(r) => (
                match &r.wire {
                    Ok(w) => json!({"rcode": w.rcode, "ad": w.ad, "records": w.recs.iter().map(|r| r.to_json()).collect::<Vec<_>>()}),
                    Err(e) => json!(e),
                },
                r.log.iter().map(|e| format!("@{} {} {} -> {}{}", show(&e.server), show(&e.ex.qname), refzone::type_name(e.ex.qtype), e.ex.honest.kind, if e.ex.presented != e.ex.honest { " (tampered)" } else { "" })).collect::<Vec<_>>(),
            ),
            Err(e) => (json!(e), vec![]),
        };
        let case = json!({"mode": "rsrv", "hier": self.hier_json, "rsteps": [min.to_json()], "server_flags": f.label(), "workload": workload});
        self.rep.violation(&format!("rsrv-{}", a.rule), &sig, case, json!(EXPECTED), json!({"alarm": a.observed, "wire_response": wire, "authoritative_exchanges": ex_json}));
    }

    /// one request: run, count, judge, report. Returns what came back.
    pub fn case(&mut self, b: &Bench, st: &RStep, f: Flags, honest_ad1: bool, workload: &str) -> Option<SResult> {
        let res = match run_case(b, &self.attacker, self.cfg, st, f) {
            Ok(r) => r,
            Err(e) => {
                self.rep.inconclusive(&format!("server-over-recursor point: {e}"));
                return None;
            }
        };
        self.rep.eval();
        self.rep.count("rsrv/runs");
        let tampered = !st.faults.is_empty();
        let th = if tampered { "tampered" } else { "honest" };
        self.rep.max("rsrv/max_authoritative_exchanges_per_request", res.log.len() as f64);
        if res.cap_hit {
            self.rep.count("rsrv/info_datagram_cap_hit_not_judged");
        }
        if res.log.len() >= 3 {
            self.rep.nontrivial(fnv64(format!("rsrv|{}|{}|{}", self.hier_hash, st.to_json(), f.label()).as_bytes()));
        }
        let hit = tampered && res.log.iter().any(|e| e.ex.presented != e.ex.honest);
        if hit {
            self.rep.count("rsrv/tampered_runs_where_the_fault_hit");
        }
        // did the fault rewrite the (negative) authoritative answer to the question itself?
        let hit_top_denial = res.log.iter().any(|e| e.ex.presented != e.ex.honest && e.ex.qname == st.qname && e.ex.qtype == st.qtype && !e.ex.honest.kind.starts_with("referral") && e.ex.honest.is_negative());
        for x in &st.faults {
            self.rep.count(&format!("rsrv/tampered_runs/{}", rec::kind_base(&x.fault.kind)));
            self.rep.count(&format!("rsrv/fault/{}/{}", rec::kind_base(&x.fault.kind), x.fault.link));
        }
        let t = b.truth();
        match &res.wire {
            Err(e) if e.starts_with("PANIC") => self.rep.count("rsrv/panics"),
            Err(_) => self.rep.count("rsrv/no_response"),
            Ok(w) => {
                self.rep.count(&format!("rsrv/rcode/{th}/{}", w.rcode));
                self.rep.count(&format!("rsrv/flags/{}", f.label()));
                let wants_ad = f.edns_do || f.ad;
                let neg = negative_conclusion(t, &st.qname, st.qtype, w);
                if !f.rd {
                    if w.rcode == 5 {
                        self.rep.count("rsrv/rd0_refused");
                    }
                } else if w.rcode == 0 || w.rcode == 3 {
                    if w.ad {
                        self.rep.count(&format!("rsrv/ad1/{th}"));
                    }
                    let kind = if neg.is_some() { if w.rcode == 3 { "nxdomain" } else { "nodata" } } else { "positive" };
                    if !tampered {
                        if w.ad && neg.is_none() {
                            self.rep.count("rsrv/honest_positive_ad1");
                        }
                        if w.ad && neg.is_some() {
                            self.rep.count("rsrv/honest_negative_ad1");
                            self.rep.count(&format!("rsrv/honest_negative_ad1/{kind}"));
                            let zi = neg.as_ref().map(|n| t.responsible(&n.0, st.qtype)).unwrap_or(0);
                            self.rep.count(&format!("rsrv/honest_negative_ad1/{}", if t.zones[zi].spec.nsec3.is_some() { "nsec3" } else { "nsec" }));
                        }
                        if !w.ad && wants_ad {
                            self.rep.count(&format!("rsrv/honest_ad0/{kind}"));
                        }
                        if !wants_ad && !w.ad {
                            self.rep.count("rsrv/honest_no_ad_for_unaware_client");
                        }
                    } else if f.cd {
                        self.rep.count(&format!("rsrv/tampered_cd1_served/{kind}"));
                    } else {
                        self.rep.count(&format!("rsrv/tampered_cd0_served/{kind}/{}", if w.ad { "ad1" } else { "ad0" }));
                    }
                } else if w.rcode == 2 {
                    if !tampered {
                        self.rep.count("rsrv/info_honest_servfail");
                    }
                    if hit && !f.cd {
                        self.rep.count("rsrv/tampered_servfail_to_cd0");
                    }
                    if hit_top_denial && !f.cd {
                        self.rep.count("rsrv/tampered_denial_servfail_to_cd0");
                    }
                    if hit_top_denial && f.cd {
                        self.rep.count("rsrv/tampered_denial_servfail_to_cd1");
                    }
                }
                if hit_top_denial {
                    self.rep.count("rsrv/tampered_runs_where_the_fault_hit_the_denial");
                    if !f.cd && f.rd && (w.rcode == 0 || w.rcode == 3) {
                        // e.g. one of two RRSIGs altered, a record the proof does not need, a rewritten additional section
                        self.rep.count(&format!("rsrv/info_tampered_denial_still_served_to_cd0/{}/{}", st.faults.first().map(|x| x.fault.kind.as_str()).unwrap_or(""), if w.ad { "ad1" } else { "ad0" }));
                    }
                }
            }
        }
        if std::env::var("C07_SDUMP").is_ok() {
            eprintln!("SDUMP {} {} {} faults={:?} -> {}", show(&st.qname), refzone::type_name(st.qtype), f.label(), st.faults.iter().map(|x| format!("{}|{}", x.fault.kind, x.fault.link)).collect::<Vec<_>>(), match &res.wire { Ok(w) => format!("rcode={} ad={} recs={:?}", w.rcode, w.ad, w.recs.iter().map(|r| format!("{}:{}/{}", r.sec, show(&r.owner), refzone::type_name(r.rtype))).collect::<Vec<_>>()), Err(e) => e.clone() });
        }
        let mut seen = Seen::default();
        let alarms = judge_case(b, st, f, &res, honest_ad1, &mut seen);
        if seen.optout_negative_not_judged {
            self.rep.count("rsrv/info_unauthenticated_negative_in_optout_zone_not_judged");
        }
        if seen.ad0_negative_not_judged {
            self.rep.count(&format!("rsrv/info_ad0_negative_with_proof_records_not_judged/{th}"));
        }
        for a in alarms {
            self.rep.count(&format!("rsrv/alarms_raw/{}", a.rule));
            self.report(b, st, f, honest_ad1, a, workload);
        }
        Some(res)
    }
}

// ---------------------------------------------------------------------------------------------
// workload for one hierarchy

pub struct SParams {
    pub n_queries: usize,
    /// faults on the denial link per query
    pub cap_denial: usize,
    /// other faults per query
    pub cap_other: usize,
    /// repeat a tampered request with CD=1 / with DO=0 AD=1: 1 in n (1 = always)
    pub cd1_one_in: u64,
    pub do0_one_in: u64,
}

fn fl(edns_do: bool, ad: bool, cd: bool) -> Flags {
    Flags { edns_do, ad, cd, rd: true }
}

pub fn workload(rep: &mut Reporter, attacker: &Arc<Attacker>, b: &Bench, hier_json: &Value, hier_hash: u64, queries: &[QueryCase], attacker_tags: &[u16], p: &SParams) {
    let t = b.truth();
    let cfg = match Cfg::write(rep, b, attacker) {
        Ok(c) => c,
        Err(e) => {
            rep.inconclusive(&format!("server-over-recursor point: configuration files: {e}"));
            return;
        }
    };
    let mut j = SJudge { rep, attacker: attacker.clone(), cfg: &cfg, hier_json: hier_json.clone(), hier_hash };
    j.rep.count("rsrv/hierarchies");
    let mut rng = Rng::new(hier_hash ^ fnv64(b"rsrv/queries"));
    // queries: negative answers of zones that are not truly insecure first (that is where the
    // RecursiveError arms decide), then distinct kinds
    let mut qs: Vec<QueryCase> = queries.to_vec();
    rng.shuffle(&mut qs);
    let is_signed_negative = |q: &QueryCase| {
        let h = b.world.honest(&q.qname, q.qtype, true);
        h.is_negative() && t.zones[t.responsible(&q.qname, q.qtype)].status != Status::Insecure
    };
    let mut chosen: Vec<QueryCase> = Vec::new();
    for q in &qs {
        if chosen.len() < (p.n_queries + 1) / 2 && is_signed_negative(q) && !chosen.iter().any(|c| c.label == q.label) {
            chosen.push(q.clone());
        }
    }
    for q in &qs {
        if chosen.len() < p.n_queries && !chosen.iter().any(|c| c.label == q.label) {
            chosen.push(q.clone());
        }
    }
    for q in &qs {
        if chosen.len() < p.n_queries && !chosen.iter().any(|c| c.qname == q.qname && c.qtype == q.qtype) {
            chosen.push(q.clone());
        }
    }

    // ---- honest pass ---------------------------------------------------------------------------
    let mut recorded: Vec<Recorded> = Vec::new();
    let mut baselines: Vec<[bool; 3]> = Vec::new();
    let mut pool: Vec<Rec> = Vec::new();
    let mut tops: Vec<Exchange> = Vec::new();
    for q in &chosen {
        j.rep.count(&format!("rsrv/honest_query/{}", q.label));
        let st = RStep { qname: q.qname.clone(), qtype: q.qtype, do_bit: true, faults: Vec::new() };
        let ad1 = |r: &Option<SResult>| r.as_ref().is_some_and(|r| r.wire.as_ref().is_ok_and(|w| w.ad && (w.rcode == 0 || w.rcode == 3)));
        let Some(res) = j.case(b, &st, fl(true, false, false), false, "rsrv-honest") else { return };
        let mut base = [false; 3]; // AD of the honest request with flags (DO,AD,CD) = 100, 101, 010
        base[0] = res.wire.as_ref().is_ok_and(|w| w.ad && (w.rcode == 0 || w.rcode == 3));
        for (i, f) in [fl(true, false, true), fl(false, true, false), fl(false, false, false)].into_iter().enumerate() {
            let st = RStep { do_bit: f.edns_do, ..st.clone() };
            let r = j.case(b, &st, f, false, "rsrv-honest");
            if i < 2 {
                base[i + 1] = ad1(&r);
            }
        }
        if rng.chance(1, 4) {
            j.case(b, &st, Flags { edns_do: true, ad: false, cd: false, rd: false }, false, "rsrv-honest");
        }
        baselines.push(base);
        let ex = rec::distinct_auth(&res.log, &q.qname, q.qtype);
        for e in &ex {
            for r in &e.ex.honest.recs {
                if !pool.contains(r) {
                    pool.push(r.clone());
                }
            }
            if !tops.iter().any(|x| x.qname == e.ex.qname && x.qtype == e.ex.qtype && x.honest == e.ex.honest) {
                tops.push(e.ex.clone());
            }
        }
        recorded.push(Recorded { q: q.clone(), ex });
    }

    // ---- single faults ----------------------------------------------------------------------------
    for (qi, r) in recorded.iter().enumerate() {
        if r.ex.is_empty() {
            continue;
        }
        let mut rng = Rng::new(hier_hash ^ fnv64(format!("rsrv/{qi}/single").as_bytes()));
        let all = rec::enumerate_faults(&mut rng, b, r, &pool, &tops, attacker_tags);
        j.rep.add("rsrv/single_faults_enumerated", all.len() as u64);
        let (denial, other): (Vec<RFault>, Vec<RFault>) = all.into_iter().partition(|f| f.fault.link == "denial");
        let mut picked: Vec<RFault> = Vec::new();
        // the SOA of the negative answer rewritten (lowest bit of MINIMUM, the negative-caching TTL) and left
        // without signature: whatever the NSEC / NSEC3 proof says, this authority RRset is not authentic
        if let Some(e) = r.ex.first().filter(|e| e.ex.qname == r.q.qname && e.ex.qtype == r.q.qtype && !e.ex.honest.kind.starts_with("referral") && e.ex.honest.is_negative()) {
            if let Some((i, soa)) = e.ex.honest.recs.iter().enumerate().find(|(_, x)| x.sec == crate::world::SEC_NS && x.rtype == ty::SOA && x.rdata.len() >= 22) {
                let mut prims = vec![Prim::new("alter-bit").at(&e.ex.qname, e.ex.qtype).idx(i).n(soa.rdata.len() as u64 * 8 - 1)];
                for (k, x) in e.ex.honest.recs.iter().enumerate() {
                    if x.sec == soa.sec && x.covered() == Some(ty::SOA) && fold(&x.owner) == fold(&soa.owner) {
                        prims.push(Prim::new("drop").at(&e.ex.qname, e.ex.qtype).idx(k));
                    }
                }
                if prims.len() > 1 {
                    picked.push(RFault::at(&e.server, Fault::new("forged-unsigned-soa", "denial", prims)));
                }
            }
        }
        picked.extend(rec::sample_stratified(&mut rng, &denial, p.cap_denial, |f| (f.fault.kind.clone(), f.server.as_ref().map(|s| show(s)).unwrap_or_default())));
        picked.extend(rec::sample_stratified(&mut rng, &other, p.cap_other, |f| (rec::kind_base(&f.fault.kind), f.fault.link.clone())));
        for f in &picked {
            let st = RStep { qname: r.q.qname.clone(), qtype: r.q.qtype, do_bit: true, faults: vec![f.clone()] };
            let base = baselines[qi];
            let cd0 = j.case(b, &st, fl(true, false, false), base[0], "rsrv-single-fault");
            if rng.chance(1, p.cd1_one_in) {
                let cd1 = j.case(b, &st, fl(true, false, true), base[1], "rsrv-single-fault");
                if let (Some(Ok(w0)), Some(Ok(w1))) = (cd0.as_ref().map(|r| r.wire.as_ref()), cd1.as_ref().map(|r| r.wire.as_ref())) {
                    j.rep.count("rsrv/cd0_cd1_pairs");
                    if w0.rcode == 2 && (w1.rcode == 0 || w1.rcode == 3) && !w1.recs.is_empty() {
                        j.rep.count("rsrv/cd1_gets_what_cd0_is_refused");
                    }
                }
            }
            if rng.chance(1, p.do0_one_in) {
                let st0 = RStep { do_bit: false, ..st.clone() };
                j.case(b, &st0, fl(false, true, false), base[2], "rsrv-single-fault");
            }
        }
    }
    cfg.remove();
}

/// `--replay` of a witness of this observation point
pub fn replay(rep: &mut Reporter, attacker: &Arc<Attacker>, b: &Bench, hier_json: &Value, c: &Value, dump: bool) {
    let steps: Vec<RStep> = c["rsteps"].as_array().map(|a| a.iter().filter_map(RStep::from_json).collect()).unwrap_or_default();
    let (Some(st), Some(flags)) = (steps.last(), c["server_flags"].as_str()) else {
        eprintln!("bad replay case: no rsteps / server_flags");
        return;
    };
    let f = crate::flags_from_label(flags);
    let cfg = match Cfg::write(rep, b, attacker) {
        Ok(c) => c,
        Err(e) => {
            eprintln!("replay: {e}");
            return;
        }
    };
    if dump {
        if let Ok(r) = run_case(b, attacker, &cfg, st, f) {
            match &r.wire {
                Ok(w) => {
                    println!("WIRE rcode={} ad={} cd={} ra={}", w.rcode, w.ad, w.cd, w.ra);
                    for x in &w.recs {
                        println!("    {} {} {} {}", ["an", "ns", "ar"][x.sec.min(2) as usize], show(&x.owner), refzone::type_name(x.rtype), refzone::show_rdata(x.rtype, &x.rdata).chars().take(70).collect::<String>());
                    }
                }
                Err(e) => println!("WIRE {e}"),
            }
            for e in &r.log {
                println!("  @{} {} {} do={} -> {} rcode={}{}", show(&e.server), show(&e.ex.qname), refzone::type_name(e.ex.qtype), e.ex.dnssec, e.ex.honest.kind, e.ex.presented.rcode, if e.ex.presented != e.ex.honest { " (tampered)" } else { "" });
                if e.ex.presented != e.ex.honest {
                    for x in &e.ex.presented.recs {
                        println!("        {} {} {} {}", ["an", "ns", "ar"][x.sec.min(2) as usize], show(&x.owner), refzone::type_name(x.rtype), refzone::show_rdata(x.rtype, &x.rdata).chars().take(70).collect::<String>());
                    }
                }
            }
        }
    }
    {
        // clause (b) of `bogus-denial-served` compares with the same request over the honest network
        let honest_ad1 = !st.faults.is_empty() && run_case(b, attacker, &cfg, &RStep { faults: Vec::new(), ..st.clone() }, f).is_ok_and(|r| r.wire.is_ok_and(|w| w.ad && (w.rcode == 0 || w.rcode == 3)));
        let mut j = SJudge { rep, attacker: attacker.clone(), cfg: &cfg, hier_json: hier_json.clone(), hier_hash: fnv64(hier_json.to_string().as_bytes()) };
        j.case(b, st, f, honest_ad1, "replay");
    }
    cfg.remove();
}
