//! Observation side: a lenient framing walker for response bytes (never follows compression
//! pointers, so it also works when the echoed question went through the header octets) and the
//! comparison of what was observed with what the gate model admits.

use serde_json::{json, Value};

use vh::mon::hex;
use vh::refwire;

use crate::model::{Expect, Normal, QEcho, BADVERS, NOERROR, NXDOMAIN};

#[derive(Clone, Debug, Default)]
pub struct Resp {
    pub id: u16,
    pub flags: u16,
    pub qd: u16,
    pub counts: [u16; 3],
    /// raw question octets (QNAME as sent + QTYPE + QCLASS) if qd == 1
    pub question_raw: Vec<u8>,
    /// (section, type, class, ttl, rdata offset, rdata len)
    pub records: Vec<(usize, u16, u16, u32, usize, usize)>,
    pub ext_rcode: u16,
    pub has_opt: bool,
    pub opt_version: u8,
    /// markers `zmkNNN` found after the question section
    pub markers: Vec<u16>,
    pub end: usize,
    /// octets after the last counted record
    pub trailing: usize,
}

/// skip a name without following pointers
fn skip_name(b: &[u8], mut off: usize) -> Result<usize, String> {
    loop {
        let l = *b.get(off).ok_or("name runs off the end")?;
        match l & 0xC0 {
            0 => {
                if l == 0 {
                    return Ok(off + 1);
                }
                off += 1 + l as usize;
            }
            0xC0 => {
                if off + 2 > b.len() {
                    return Err("pointer runs off the end".into());
                }
                return Ok(off + 2);
            }
            _ => return Err(format!("reserved label type at {off}")),
        }
    }
}

pub fn parse_response(b: &[u8]) -> Result<Resp, String> {
    let h = refwire::read_header(b)?;
    let mut r = Resp { id: h.id, flags: h.flags, qd: h.qd, counts: [h.an, h.ns, h.ar], ..Default::default() };
    let mut off = 12;
    if h.qd > 1 {
        return Err(format!("QDCOUNT {}", h.qd));
    }
    if h.qd == 1 {
        let p = skip_name(b, off)?;
        if p + 4 > b.len() {
            return Err("question runs off the end".into());
        }
        r.question_raw = b[off..p + 4].to_vec();
        off = p + 4;
    }
    let after_question = off;
    r.ext_rcode = h.flags & 0xf;
    for (si, n) in r.counts.into_iter().enumerate() {
        for _ in 0..n {
            let p = skip_name(b, off)?;
            if p + 10 > b.len() {
                return Err("record header runs off the end".into());
            }
            let rtype = u16::from_be_bytes([b[p], b[p + 1]]);
            let class = u16::from_be_bytes([b[p + 2], b[p + 3]]);
            let ttl = u32::from_be_bytes([b[p + 4], b[p + 5], b[p + 6], b[p + 7]]);
            let rdlen = u16::from_be_bytes([b[p + 8], b[p + 9]]) as usize;
            if p + 10 + rdlen > b.len() {
                return Err("rdata runs off the end".into());
            }
            if rtype == 41 && si == 2 {
                r.has_opt = true;
                r.ext_rcode |= ((ttl >> 24) as u16) << 4;
                r.opt_version = (ttl >> 16) as u8;
            }
            r.records.push((si, rtype, class, ttl, p + 10, rdlen));
            off = p + 10 + rdlen;
        }
    }
    r.end = off;
    // Octets after the last counted record are NOT judged here: a size-limited (TC=1) encoding that
    // leaves part of a dropped record behind is C03's subject, not C11's.  They are counted.
    r.trailing = b.len() - off;
    // Markers live in RDATA only (SOA MNAME/RNAME, NS target, TXT). Owner names are not scanned: they
    // echo the (random) query name, lower-cased by the server, which can spell `zmkNNN` by chance.
    let _ = after_question;
    for &(_, _, _, _, rd, rdlen) in &r.records {
        let tail = &b[rd..rd + rdlen];
        let mut i = 0;
        while i + 6 <= tail.len() {
            if &tail[i..i + 3] == b"zmk" && tail[i + 3..i + 6].iter().all(|c| c.is_ascii_digit()) {
                let m = (tail[i + 3] - b'0') as u16 * 100 + (tail[i + 4] - b'0') as u16 * 10 + (tail[i + 5] - b'0') as u16;
                if !r.markers.contains(&m) {
                    r.markers.push(m);
                }
            }
            i += 1;
        }
    }
    Ok(r)
}

pub struct Verdict {
    /// (clause, expected, observed)
    pub fails: Vec<(&'static str, Value, Value)>,
    pub outcome: String,
    pub trailing: usize,
}

/// Compare the responses to one request with the model's expectation.
pub fn judge(req: &[u8], exp: &Expect, responses: &[Vec<u8>]) -> Verdict {
    let mut v = Verdict { fails: vec![], outcome: String::new(), trailing: 0 };
    let want = exp.respond as usize;
    if responses.len() != want {
        v.fails.push(("count", json!(want), json!({"responses": responses.len(), "first": responses.first().map(|r| hex(r))})));
        v.outcome = format!("count={}", responses.len());
        return v;
    }
    if want == 0 {
        v.outcome = "silent".into();
        return v;
    }
    let rb = &responses[0];
    let r = match parse_response(rb) {
        Ok(r) => r,
        Err(e) => {
            v.fails.push(("wire", json!("a well-framed DNS message"), json!({"error": e, "response": hex(rb)})));
            v.outcome = "unframed".into();
            return v;
        }
    };
    let req_id = u16::from_be_bytes([req[0], req[1]]);
    if r.id != req_id {
        v.fails.push(("id", json!(req_id), json!(r.id)));
    }
    if r.flags & 0x8000 == 0 {
        v.fails.push(("qr", json!("QR=1"), json!(format!("flags {:#06x}", r.flags))));
    }
    // question
    match (&exp.qecho, &exp.question) {
        (QEcho::DontCare, _) | (_, None) => {}
        (mode, Some(q)) => {
            let sent = &req[12..q.end];
            if r.qd == 0 {
                if *mode == QEcho::Must {
                    v.fails.push(("question", json!({"question": hex(sent)}), json!("no question in the response")));
                }
            } else {
                // q has no pointer into the header, so decoded equality = raw equality unless the
                // name was compressed against itself (not generated by any encoder; raw compare
                // first, decoded compare as fallback)
                if r.question_raw != sent {
                    let dec = refwire::walk(rb).ok().and_then(|m| m.questions.first().map(|x| (x.name.labels.clone(), x.qtype, x.qclass)));
                    if dec != Some((q.labels.clone(), q.qtype, q.qclass)) {
                        v.fails.push(("question", json!({"question": hex(sent)}), json!({"question": hex(&r.question_raw)})));
                    }
                }
            }
        }
    }
    // rcode
    let rc = r.ext_rcode;
    let in_err = exp.err_rcodes.contains(&rc);
    let normal_rc_ok = match &exp.normal {
        Normal::Zone { strict: true, .. } => rc == NOERROR || rc == NXDOMAIN,
        Normal::Zone { .. } | Normal::Update => true,
        Normal::None => false,
    };
    if !in_err && !normal_rc_ok {
        let mut adm: Vec<String> = exp.err_rcodes.iter().map(|x| x.to_string()).collect();
        match &exp.normal {
            Normal::Zone { strict: true, .. } => adm.push("0|3 (zone answer)".into()),
            Normal::Zone { .. } | Normal::Update => adm.push("any (ordinary outcome)".into()),
            Normal::None => {}
        }
        v.fails.push(("rcode", json!({"admissible": adm}), json!(rc)));
    }
    if rc == BADVERS && !r.has_opt {
        v.fails.push(("rcode", json!("BADVERS carried by an OPT record"), json!("no OPT")));
    }
    // zone
    match &exp.normal {
        Normal::Zone { origin, marker, strict } => {
            let foreign: Vec<u16> = r.markers.iter().copied().filter(|m| Some(*m) != *marker).collect();
            if !foreign.is_empty() {
                v.fails.push(("zone", json!({"zone": origin, "marker": marker}), json!({"markers": r.markers})));
            } else if *strict && !in_err && r.markers.is_empty() && r.flags & 0x0200 == 0 {
                // (a truncated response, TC=1, may have lost every record)
                v.fails.push(("zone", json!({"zone": origin, "marker": marker}), json!({"markers": [], "rcode": rc})));
            }
        }
        _ => {
            if !r.markers.is_empty() {
                v.fails.push(("zone", json!("no zone data in this response"), json!({"markers": r.markers, "rcode": rc})));
            }
        }
    }
    v.outcome = format!("rcode={rc}{}{}", if r.flags & 0x0200 != 0 { "+tc" } else { "" }, if r.markers.is_empty() { "" } else { "+data" });
    v.trailing = r.trailing;
    v
}

/// The survival probe is a known-good TXT query at `<nonce>.<origin>`; its full answer is fixed by
/// the zone data: NOERROR, AA, one TXT answer holding exactly the marker, owner = the query name.
pub fn judge_probe(req: &[u8], marker: u16, responses: &[Vec<u8>]) -> Option<(Value, Value)> {
    let exp = json!({"responses": 1, "rcode": 0, "aa": true, "answers": 1, "txt": crate::cfg::marker_text(marker)});
    if responses.len() != 1 {
        return Some((exp, json!({"responses": responses.len()})));
    }
    let rb = &responses[0];
    let m = match refwire::walk(rb) {
        Ok(m) if m.end == rb.len() => m,
        Ok(_) => return Some((exp, json!({"error": "trailing octets", "response": hex(rb)}))),
        Err(e) => return Some((exp, json!({"error": e, "response": hex(rb)}))),
    };
    let rq = refwire::walk(req).expect("probe request");
    let q = &rq.questions[0];
    let mut bad: Vec<String> = Vec::new();
    if m.header.id != rq.header.id {
        bad.push("id".into());
    }
    if !m.header.qr() || m.header.opcode() != 0 || m.header.tc() {
        bad.push(format!("flags {:#06x}", m.header.flags));
    }
    if !m.header.aa() {
        bad.push("AA clear".into());
    }
    if m.header.rcode_low() != 0 {
        bad.push(format!("rcode {}", m.header.rcode_low()));
    }
    if m.questions.len() != 1 || m.questions[0].name.labels != q.name.labels || m.questions[0].qtype != 16 || m.questions[0].qclass != 1 {
        bad.push("question".into());
    }
    let want_rdata: Vec<u8> = {
        let t = crate::cfg::marker_text(marker);
        let mut v = vec![t.len() as u8];
        v.extend_from_slice(t.as_bytes());
        v
    };
    if m.sections[0].len() != 1 {
        bad.push(format!("{} answers", m.sections[0].len()));
    } else {
        let a = &m.sections[0][0];
        if refwire::fold(&a.owner.labels) != refwire::fold(&q.name.labels) {
            bad.push("answer owner".into());
        }
        if a.rtype != 16 || a.class != 1 {
            bad.push("answer type/class".into());
        }
        if a.rdata(rb) != want_rdata.as_slice() {
            bad.push("answer rdata".into());
        }
    }
    if bad.is_empty() {
        None
    } else {
        Some((exp, json!({"mismatch": bad, "response": hex(rb)})))
    }
}
