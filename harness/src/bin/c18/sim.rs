//! Scripted `ConnectionProvider` + runner: drives the real `NameServerPool` over scripted
//! connections on tokio's paused (virtual) clock and records every upstream event.

use std::collections::HashMap;
use std::future::Future;
use std::io;
use std::net::IpAddr;
use std::pin::Pin;
use std::sync::{Arc, Mutex};
use std::time::Duration;

use futures::future::join_all;
use futures::stream::{self, Stream, StreamExt};
use hickory_net::runtime::TokioRuntimeProvider;
use hickory_net::xfer::{DnsHandle, Protocol};
use hickory_net::{DnsError, NetError};
use hickory_proto::op::{DnsRequest, DnsRequestOptions, DnsResponse, Message, OpCode, Query, ResponseCode};
use hickory_proto::rr::rdata::{A, SOA};
use hickory_proto::rr::{Name, RData, Record, RecordType};
use hickory_resolver::config::{ConnectionConfig, NameServerConfig, ResolverOpts, ServerOrderingStrategy};
use hickory_resolver::{ConnectionProvider, NameServer, NameServerPool, PoolContext, TlsConfig};

use crate::scn::{Beh, Caller, Scenario, Strat};

/// safety valve: a scenario never needs more than a few dozen exchanges; a pool that spins
/// (e.g. a truncation retry loop at one virtual instant) is cut off by a fatal scripted error
pub const EXCHANGE_LIMIT: u32 = 4000;

#[derive(Clone, Copy, Debug, PartialEq, Eq)]
pub enum Kind {
    /// a connection attempt begins (paired with Connect / ConnectFail by `seq`)
    ConnectStart,
    /// connection established
    Connect,
    /// connection attempt failed (scripted ConnFail)
    ConnectFail,
    /// a request was handed to a connection
    Send,
    ReplyAnswer,
    ReplyNx,
    ReplyTrunc,
    ReplyTimeout,
    ReplyIoErr,
    ReplyBusy,
}

impl Kind {
    pub fn name(&self) -> &'static str {
        match self {
            Kind::ConnectStart => "connect-start",
            Kind::Connect => "connect",
            Kind::ConnectFail => "connfail",
            Kind::Send => "send",
            Kind::ReplyAnswer => "answer",
            Kind::ReplyNx => "nx",
            Kind::ReplyTrunc => "trunc",
            Kind::ReplyTimeout => "silent",
            Kind::ReplyIoErr => "ioerr",
            Kind::ReplyBusy => "busy",
        }
    }
}

#[derive(Clone, Debug)]
pub struct Ev {
    /// virtual µs since the scenario start (after the warm-up)
    pub t: u64,
    pub kind: Kind,
    pub server: usize,
    /// 1 = UDP, 2 = TCP
    pub proto: u8,
    /// query key index (connection events: key of the caller that was being polled), -1 = unknown
    pub q: i32,
    /// exchange sequence number (unique per run); connection events carry the number of the
    /// connection attempt instead (separate counter)
    pub seq: u32,
    /// index of the caller whose future was being polled when the event happened (a shared
    /// lookup is driven by whichever of its callers is polled), -1 = none
    pub caller: i32,
}

thread_local! {
    /// query key of the caller whose future is being polled right now (monitor-side attribution of
    /// connection attempts, which carry no query); -1 outside a tagged caller
    static CUR_Q: std::cell::Cell<i32> = const { std::cell::Cell::new(-1) };
    /// index of that caller (attributes every upstream event to the caller that drove it)
    static CUR_CALLER: std::cell::Cell<i32> = const { std::cell::Cell::new(-1) };
}

/// wraps a caller's future: while it is being polled, `CUR_Q` holds its query key
struct Tagged<F> {
    q: i32,
    caller: i32,
    f: Pin<Box<F>>,
}

impl<F: Future> Future for Tagged<F> {
    type Output = F::Output;
    fn poll(mut self: Pin<&mut Self>, cx: &mut std::task::Context<'_>) -> std::task::Poll<F::Output> {
        let prev = CUR_Q.with(|c| c.replace(self.q));
        let prev_caller = CUR_CALLER.with(|c| c.replace(self.caller));
        let r = self.f.as_mut().poll(cx);
        CUR_Q.with(|c| c.set(prev));
        CUR_CALLER.with(|c| c.set(prev_caller));
        r
    }
}

#[derive(Clone, Copy, PartialEq)]
enum Phase {
    Warm(u8),
    Main,
}

struct State {
    phase: Phase,
    log: Vec<Ev>,
    busy_used: HashMap<(usize, u8, i32), u32>,
    seq: u32,
    cseq: u32,
    exchanges: u32,
    runaway: bool,
    origin: tokio::time::Instant,
}

struct Inner {
    scn: Scenario,
    st: Mutex<State>,
}

#[derive(Clone)]
pub struct SimConnProvider {
    inner: Arc<Inner>,
    rt: TokioRuntimeProvider,
}

#[derive(Clone)]
pub struct SimConn {
    inner: Arc<Inner>,
    server: usize,
    proto: u8,
}

fn server_ip(i: usize) -> IpAddr {
    IpAddr::from([192, 0, 2, (i + 1) as u8])
}
fn server_idx(ip: IpAddr) -> usize {
    match ip {
        IpAddr::V4(v4) => (v4.octets()[3] as usize).saturating_sub(1),
        _ => usize::MAX,
    }
}
pub fn qname(q: u8) -> Name {
    Name::from_ascii(format!("q{q}.c18.example.")).unwrap()
}
fn qidx(n: &Name) -> i32 {
    let s = n.to_ascii().to_ascii_lowercase();
    s.strip_prefix('q').and_then(|r| r.split('.').next()).and_then(|d| d.parse::<i32>().ok()).unwrap_or(-1)
}

impl Inner {
    fn now_us(st: &State) -> u64 {
        tokio::time::Instant::now().saturating_duration_since(st.origin).as_micros() as u64
    }
    fn log(&self, kind: Kind, server: usize, proto: u8, q: i32, seq: u32) {
        let mut st = self.st.lock().unwrap();
        if st.phase != Phase::Main {
            return;
        }
        let t = Self::now_us(&st);
        st.log.push(Ev { t, kind, server, proto, q, seq, caller: CUR_CALLER.with(|c| c.get()) });
    }
}

fn build_answer(request: &DnsRequest, query: &Query, server: usize, proto: u8, q: i32, seq: u32, tc: bool) -> Result<DnsResponse, NetError> {
    let mut m = Message::response(request.id, OpCode::Query);
    m.add_query(query.clone());
    m.metadata.truncation = tc;
    // marker: which server, which protocol, which query key; TTL = exchange sequence number
    m.add_answer(Record::from_rdata(query.name.clone(), seq, RData::A(A::new(10, server as u8, proto, q as u8))));
    DnsResponse::from_message(m).map_err(NetError::from)
}

fn build_nx(request: &DnsRequest, query: &Query, seq: u32) -> Result<DnsResponse, NetError> {
    let mut m = Message::response(request.id, OpCode::Query);
    m.add_query(query.clone());
    m.metadata.response_code = ResponseCode::NXDomain;
    let zone = Name::from_ascii("c18.example.").unwrap();
    let soa = SOA::new(Name::from_ascii("ns.c18.example.").unwrap(), Name::from_ascii("h.c18.example.").unwrap(), seq, 3600, 600, 86400, 60);
    m.add_authority(Record::from_rdata(zone, 60, RData::SOA(soa)));
    DnsResponse::from_message(m).map_err(NetError::from)
}

impl DnsHandle for SimConn {
    type Response = Pin<Box<dyn Stream<Item = Result<DnsResponse, NetError>> + Send>>;
    type Runtime = TokioRuntimeProvider;

    fn send(&self, request: DnsRequest) -> Self::Response {
        let inner = self.inner.clone();
        let (server, proto) = (self.server, self.proto);
        Box::pin(stream::once(async move {
            let Some(query) = request.queries.first().cloned() else {
                return Err(NetError::from("verif: request without query"));
            };
            let q = qidx(&query.name);
            // decide the behaviour at send time (all monitor state behind the monitor's own mutex)
            let (beh, seq) = {
                let mut st = inner.st.lock().unwrap();
                st.exchanges += 1;
                if st.exchanges > EXCHANGE_LIMIT {
                    st.runaway = true;
                    return Err(NetError::from("verif: exchange budget exhausted"));
                }
                match st.phase {
                    Phase::Warm(_) => (Beh::IoErr { d: 0, reset: false }, 0),
                    Phase::Main => {
                        st.seq += 1;
                        let seq = st.seq;
                        let t = Inner::now_us(&st);
                        st.log.push(Ev { t, kind: Kind::Send, server, proto, q, seq, caller: CUR_CALLER.with(|c| c.get()) });
                        let scripted = inner.scn.servers.get(server).and_then(|s| s.slot(proto)).cloned().unwrap_or(Beh::Silent);
                        let b = match scripted {
                            Beh::Busy { k, d } => {
                                let used = st.busy_used.entry((server, proto, q)).or_insert(0);
                                if *used < k {
                                    *used += 1;
                                    Beh::Busy { k, d }
                                } else {
                                    Beh::Answer { d }
                                }
                            }
                            // a TCP slot cannot truncate; ConnFail never reaches send
                            Beh::Trunc { d } if proto != 1 => Beh::Answer { d },
                            other => other,
                        };
                        (b, seq)
                    }
                }
            };
            let timeout = inner.scn.timeout;
            let nap = |ms: u64| tokio::time::sleep(Duration::from_millis(ms));
            // the connection's own per-request timeout (hickory builds its client streams with
            // `options.timeout`): a scripted delay ≥ timeout is a Timeout at `timeout`
            let late = |d: u64| d >= timeout;
            match beh {
                Beh::Silent => {
                    nap(timeout).await;
                    inner.log(Kind::ReplyTimeout, server, proto, q, seq);
                    Err(NetError::Timeout)
                }
                Beh::Answer { d } | Beh::Nx { d } | Beh::Trunc { d } | Beh::IoErr { d, .. } if late(d) => {
                    nap(timeout).await;
                    inner.log(Kind::ReplyTimeout, server, proto, q, seq);
                    Err(NetError::Timeout)
                }
                Beh::Answer { d } => {
                    if d > 0 {
                        nap(d).await;
                    }
                    inner.log(Kind::ReplyAnswer, server, proto, q, seq);
                    build_answer(&request, &query, server, proto, q, seq, false)
                }
                Beh::Nx { d } => {
                    if d > 0 {
                        nap(d).await;
                    }
                    inner.log(Kind::ReplyNx, server, proto, q, seq);
                    build_nx(&request, &query, seq)
                }
                Beh::Trunc { d } => {
                    if d > 0 {
                        nap(d).await;
                    }
                    inner.log(Kind::ReplyTrunc, server, proto, q, seq);
                    build_answer(&request, &query, server, proto, q, seq, true)
                }
                Beh::IoErr { d, reset } => {
                    if d > 0 {
                        nap(d).await;
                    }
                    inner.log(Kind::ReplyIoErr, server, proto, q, seq);
                    let kind = if reset { io::ErrorKind::ConnectionReset } else { io::ErrorKind::Other };
                    Err(NetError::from(io::Error::new(kind, "scripted io error")))
                }
                Beh::Busy { .. } => {
                    inner.log(Kind::ReplyBusy, server, proto, q, seq);
                    Err(NetError::Busy)
                }
                Beh::ConnFail { .. } => Err(NetError::from(io::Error::new(io::ErrorKind::ConnectionRefused, "scripted"))),
            }
        }))
    }
}

impl ConnectionProvider for SimConnProvider {
    type Conn = SimConn;
    type FutureConn = Pin<Box<dyn Future<Output = Result<SimConn, NetError>> + Send>>;
    type RuntimeProvider = TokioRuntimeProvider;

    fn new_connection(&self, ip: IpAddr, config: &ConnectionConfig, _cx: &PoolContext) -> Result<Self::FutureConn, NetError> {
        let server = server_idx(ip);
        let proto = match config.protocol.to_protocol() {
            Protocol::Udp => 1u8,
            Protocol::Tcp => 2,
            _ => 0,
        };
        let inner = self.inner.clone();
        let refused = || NetError::from(io::Error::new(io::ErrorKind::ConnectionRefused, "scripted connect failure"));
        let phase = inner.st.lock().unwrap().phase;
        match phase {
            Phase::Warm(r) => {
                // round r of the warm-up: servers with warm[i] >= r get a connection whose exchange
                // fails (recorded by NameServer as a failure); the others fail to connect, which
                // NameServer does not record
                let fails = inner.scn.warm.get(server).copied().unwrap_or(0) >= r;
                Ok(Box::pin(async move {
                    if fails {
                        Ok(SimConn { inner, server, proto })
                    } else {
                        Err(refused())
                    }
                }))
            }
            Phase::Main => {
                let beh = inner.scn.servers.get(server).and_then(|s| s.slot(proto)).cloned();
                let q = CUR_Q.with(|c| c.get());
                let cseq = {
                    let mut st = inner.st.lock().unwrap();
                    st.cseq += 1;
                    let (t, cseq) = (Inner::now_us(&st), st.cseq);
                    st.log.push(Ev { t, kind: Kind::ConnectStart, server, proto, q, seq: cseq, caller: CUR_CALLER.with(|c| c.get()) });
                    cseq
                };
                Ok(Box::pin(async move {
                    match beh {
                        Some(Beh::ConnFail { d }) => {
                            let d = d.min(inner.scn.timeout);
                            if d > 0 {
                                tokio::time::sleep(Duration::from_millis(d)).await;
                            }
                            inner.log(Kind::ConnectFail, server, proto, q, cseq);
                            Err(refused())
                        }
                        _ => {
                            inner.log(Kind::Connect, server, proto, q, cseq);
                            Ok(SimConn { inner, server, proto })
                        }
                    }
                }))
            }
        }
    }

    fn runtime_provider(&self) -> &TokioRuntimeProvider {
        &self.rt
    }
}

// ---------------------------------------------------------------------------------------------
// outcomes

#[derive(Clone, Debug, PartialEq)]
pub enum Outcome {
    /// Ok(response): decoded marker
    Ok { server: u8, proto: u8, q: u8, seq: u32, tc: bool, answers: usize, marker: bool },
    /// Err(NoRecordsFound NXDOMAIN): SOA serial = exchange sequence number (0 if no SOA)
    Nx { seq: u32 },
    /// any other error, by kind
    Err(String),
    /// the caller dropped its future (scripted cancellation)
    Cancelled,
}

impl Outcome {
    pub fn text(&self) -> String {
        match self {
            Outcome::Ok { server, proto, q, seq, tc, answers, marker } => {
                format!("ok server={server} proto={} q={q} seq={seq} tc={tc} answers={answers} marker={marker}", pname(*proto))
            }
            Outcome::Nx { seq } => format!("nxdomain seq={seq}"),
            Outcome::Err(k) => format!("err {k}"),
            Outcome::Cancelled => "cancelled".to_string(),
        }
    }
}

pub fn pname(p: u8) -> &'static str {
    match p {
        1 => "udp",
        2 => "tcp",
        _ => "?",
    }
}

pub fn classify(r: Result<DnsResponse, NetError>) -> Outcome {
    match r {
        Ok(resp) => {
            let tc = resp.truncation;
            let answers = resp.answers.len();
            match resp.answers.first() {
                Some(rec) => match &rec.data {
                    RData::A(a) => {
                        let o = a.0.octets();
                        Outcome::Ok { server: o[1], proto: o[2], q: o[3], seq: rec.ttl, tc, answers, marker: o[0] == 10 }
                    }
                    _ => Outcome::Ok { server: 255, proto: 0, q: 255, seq: 0, tc, answers, marker: false },
                },
                None => Outcome::Ok { server: 255, proto: 0, q: 255, seq: 0, tc, answers, marker: false },
            }
        }
        Err(NetError::Dns(DnsError::NoRecordsFound(nr))) if nr.response_code == ResponseCode::NXDomain => {
            Outcome::Nx { seq: nr.soa.as_ref().map(|s| s.data.serial).unwrap_or(0) }
        }
        Err(NetError::Timeout) => Outcome::Err("Timeout".into()),
        Err(NetError::Busy) => Outcome::Err("Busy".into()),
        Err(NetError::NoConnections) => Outcome::Err("NoConnections".into()),
        Err(NetError::Io(_)) => Outcome::Err("Io".into()),
        Err(NetError::Message(m)) => Outcome::Err(format!("Message({m})")),
        Err(NetError::Msg(m)) => Outcome::Err(format!("Msg({m})")),
        Err(e) => {
            let s = format!("{e:?}");
            let end = s.find(|c: char| !(c.is_alphanumeric() || c == '_')).unwrap_or(s.len());
            Outcome::Err(format!("Other({})", &s[..end]))
        }
    }
}

#[derive(Clone, Debug)]
pub struct CallRes {
    pub idx: usize,
    pub q: u8,
    /// virtual µs
    pub start: u64,
    pub end: u64,
    pub outcome: Outcome,
    pub cancel: Option<u64>,
}

#[derive(Debug)]
pub struct RunOut {
    pub calls: Vec<CallRes>,
    pub later: Option<CallRes>,
    pub log: Vec<Ev>,
    pub runaway: bool,
    /// the whole scenario did not finish within 100 × timeout of virtual time
    pub stuck: bool,
}

fn strategy(s: Strat) -> ServerOrderingStrategy {
    match s {
        Strat::Qs => ServerOrderingStrategy::QueryStatistics,
        Strat::User => ServerOrderingStrategy::UserProvidedOrder,
        Strat::Rr => ServerOrderingStrategy::RoundRobin,
    }
}

fn build_pool(scn: &Scenario, prov: &SimConnProvider) -> NameServerPool<SimConnProvider> {
    let mut opts = ResolverOpts::default();
    opts.timeout = Duration::from_millis(scn.timeout);
    opts.num_concurrent_reqs = scn.conc;
    opts.server_ordering_strategy = strategy(scn.strat);
    let mut servers = Vec::new();
    for (i, s) in scn.servers.iter().enumerate() {
        let ip = server_ip(i);
        let mut cfg = match (s.udp.is_some(), s.tcp.is_some()) {
            (true, true) => NameServerConfig::udp_and_tcp(ip),
            (false, true) => NameServerConfig::tcp(ip),
            _ => NameServerConfig::udp(ip),
        };
        cfg.trust_negative_responses = s.trust_nx;
        servers.push(Arc::new(NameServer::new([], cfg, &opts, prov.clone())));
    }
    NameServerPool::from_nameservers(servers, Arc::new(PoolContext::new(opts, TlsConfig::new().expect("tls config"))))
}

pub async fn one_lookup(pool: &NameServerPool<SimConnProvider>, origin: tokio::time::Instant, idx: usize, c: &Caller) -> CallRes {
    Tagged { q: c.q as i32, caller: idx as i32, f: Box::pin(one_lookup_inner(pool, origin, idx, c)) }.await
}

async fn one_lookup_inner(pool: &NameServerPool<SimConnProvider>, origin: tokio::time::Instant, idx: usize, c: &Caller) -> CallRes {
    if c.at > 0 {
        tokio::time::sleep(Duration::from_millis(c.at)).await;
    }
    let now = || tokio::time::Instant::now().saturating_duration_since(origin).as_micros() as u64;
    let start = now();
    let req = DnsRequest::from_query(Query::new(qname(c.q), RecordType::A), DnsRequestOptions::default());
    let mut st = pool.send(req);
    let r = match c.cancel {
        Some(ms) => tokio::time::timeout(Duration::from_millis(ms), st.next()).await.ok(),
        None => Some(st.next().await),
    };
    drop(st);
    let end = now();
    let outcome = match r {
        None => Outcome::Cancelled,
        Some(None) => Outcome::Err("StreamEnded".into()),
        Some(Some(r)) => classify(r),
    };
    CallRes { idx, q: c.q, start, end, outcome, cancel: c.cancel }
}

/// fresh provider + pool for `scn` (must be called inside a tokio runtime)
pub fn setup(scn: &Scenario) -> (SimConnProvider, NameServerPool<SimConnProvider>) {
    let inner = Arc::new(Inner {
        scn: scn.clone(),
        st: Mutex::new(State {
            phase: Phase::Main,
            log: Vec::new(),
            busy_used: HashMap::new(),
            seq: 0,
            cseq: 0,
            exchanges: 0,
            runaway: false,
            origin: tokio::time::Instant::now(),
        }),
    });
    let prov = SimConnProvider { inner, rt: TokioRuntimeProvider::new() };
    let pool = build_pool(scn, &prov);
    (prov, pool)
}

impl SimConnProvider {
    pub fn origin(&self) -> tokio::time::Instant {
        self.inner.st.lock().unwrap().origin
    }
    pub fn snapshot(&self) -> (Vec<Ev>, bool) {
        let st = self.inner.st.lock().unwrap();
        (st.log.clone(), st.runaway)
    }
}

/// Run `callers` (and optionally the later identical query) of `scn` on a fresh pool, fresh
/// runtime, paused clock.
pub fn run(scn: &Scenario, callers: &[Caller], later: bool) -> RunOut {
    let rt = tokio::runtime::Builder::new_current_thread().enable_time().start_paused(true).build().expect("runtime");
    rt.block_on(async {
        let (prov, pool) = setup(scn);
        let inner = prov.inner.clone();

        // warm-up: server i records warm[i] failed exchanges (zero virtual time)
        let rounds = scn.warm.iter().copied().max().unwrap_or(0);
        for r in 1..=rounds {
            inner.st.lock().unwrap().phase = Phase::Warm(r);
            let name = Name::from_ascii(format!("w{r}.warm.example.")).unwrap();
            let req = DnsRequest::from_query(Query::new(name, RecordType::A), DnsRequestOptions::default());
            let _ = pool.send(req).next().await;
        }
        let origin = tokio::time::Instant::now();
        {
            let mut st = inner.st.lock().unwrap();
            st.phase = Phase::Main;
            st.origin = origin;
            st.exchanges = 0;
        }

        let guard = Duration::from_millis(scn.timeout * 100);
        let mut stuck = false;
        let futs = callers.iter().enumerate().map(|(i, c)| one_lookup(&pool, origin, i, c));
        let calls = match tokio::time::timeout(guard, join_all(futs)).await {
            Ok(v) => v,
            Err(_) => {
                stuck = true;
                Vec::new()
            }
        };
        let mut later_res = None;
        if later && !stuck && !callers.is_empty() {
            tokio::time::sleep(Duration::from_millis(1)).await;
            let c = Caller { q: callers[0].q, at: 0, cancel: None };
            match tokio::time::timeout(guard, one_lookup(&pool, origin, callers.len(), &c)).await {
                Ok(r) => later_res = Some(r),
                Err(_) => stuck = true,
            }
        }
        let st = inner.st.lock().unwrap();
        RunOut { calls, later: later_res, log: st.log.clone(), runaway: st.runaway, stuck }
    })
}
