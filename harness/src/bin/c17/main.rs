//! C17 — stream framing is independent of how the bytes are chunked.
//!
//! Observation point: `TcpStream::from_stream(<socket>, peer)` polled by hand as a `Stream`; outbound
//! messages pushed through its `BufDnsStreamHandle`. The scripted socket models availability
//! boundaries on the inbound byte stream, acceptance boundaries on the outbound byte stream,
//! would-block (waker called at once, or kept and fired later by the driver) before any boundary
//! and before flush, and an orderly close by the peer at any stream offset.
//!
//! Socket flavours (`Case::sock` × `Case::vectored`), same scripts, same oracle:
//!  * `direct` — `SimTcp` implements hickory's `DnsTcpStream` (futures-io traits) itself, with or
//!    without writev;
//!  * `tokio`  — the script sits behind TOKIO's `AsyncRead + AsyncWrite` (`tsock.rs`) and reaches
//!    `TcpStream` through `hickory_net::runtime::iocompat::AsyncIoTokioAsStd`, the adapter every
//!    tokio / rustls stream goes through in production (`ReadBuf` translation, `poll_write` /
//!    `poll_write_vectored` / `is_write_vectored`, flush, shutdown). `vectored == false`: the
//!    socket has plain `poll_write` only (tokio's provided `poll_write_vectored`), so the length
//!    prefix and the body are separate socket calls, each of which may accept k bytes or
//!    would-block; `vectored == true`: `is_write_vectored()` and a gathering `poll_write_vectored`.
//!
//! Wrappers (`Case::wrap`), same scripts, same sockets, same oracle:
//!  * `raw`    — the driver polls the `TcpStream` itself;
//!  * `client` — the driver polls `TcpClientStream::from_stream(<that TcpStream>)`, the wrapper every
//!    TCP client connection uses (`TcpClientStream::new` / `::exchange` build exactly this; the
//!    `DnsMultiplexer` polls it). Its items are `Result<SerialMessage, NetError>`; they are mapped
//!    onto the same observed shape (Ok(bytes, addr) / Err / None / Pending) and judged by the same
//!    four clauses, so an inner error item that the wrapper swallows, turns into a clean end, or
//!    repeats shows under `terminal` / `items`. The outbound side is the same `BufDnsStreamHandle`.
//!    Every enumerated composition (W1, W3a) gets extra repetitions under `client` (both socket
//!    flavours), every W2a plan runs once more under `client`, and 1 in 3 of the random cases
//!    (W2b, W3b) is polled through it. Signature prefix `client:`.
//!
//! Part T (`idle.rs`): the server's read stack `TimeoutStream<TcpStream<..>>` under virtual time.
//!
//! Oracle (reference = the list of message lengths the case was built from, nothing of hickory):
//!  * items     — the `Ok` items are exactly the frames that lie completely before the close
//!                offset, byte-identical, in order, each attributed to the peer address;
//!  * terminal  — no close ⇒ the stream stays pending after the last frame (no extra item);
//!                close on a frame boundary ⇒ `None` right after those items; close inside a
//!                length prefix or body ⇒ exactly one `Err` item after them;
//!  * wire      — the bytes accepted by the socket are always a prefix of
//!                concat(u16 length ‖ body) of the outbound messages in order, and are the whole
//!                of it whenever the connection stayed open until the driver went quiescent;
//!  * progress  — the stream never returns `Pending` without a wake-up source (stall), never
//!                spins (poll bound) and never panics.
//!
//! Don't-cares (not judged): zero-length frames (never generated); sockets returning `Ok(0)` from
//! write (never scripted); the kind/message of the error item; whether outbound messages queued
//! when the peer closes are still written (only the prefix rule applies after End/Err); flush
//! placement (counted only); write errors (not scripted).

mod idle;
mod simnet;
mod tsock;

use std::sync::{Arc, Mutex};
use std::task::{Context, Poll};

use futures::stream::{Stream, StreamExt};
use hickory_net::runtime::iocompat::AsyncIoTokioAsStd;
use hickory_net::runtime::DnsTcpStream;
use hickory_net::tcp::{TcpClientStream, TcpStream};
use hickory_net::{BufDnsStreamHandle, DnsStreamHandle};
use hickory_proto::op::SerialMessage;
use serde_json::{json, Value};

use simnet::{FlagWaker, ReadEnd, SimTcp, Step, TcpState};
use tsock::{SimTokioPlain, SimTokioVec};
use vh::mon::{self, Ctx, Reporter};
use vh::prng::{fnv64, Rng};

const LENS: [usize; 10] = [1, 2, 3, 254, 255, 256, 257, 300, 4096, 65535];

fn peer() -> std::net::SocketAddr {
    "192.0.2.1:53".parse().unwrap()
}

// ---------------------------------------------------------------------------------------------
// case

/// how the scripted socket reaches `TcpStream`
#[derive(Clone, Copy, Debug, Default, PartialEq, Eq)]
pub enum Sock {
    /// `SimTcp: DnsTcpStream` (futures-io traits) handed to `TcpStream` as it is
    #[default]
    Direct,
    /// tokio `AsyncRead + AsyncWrite` wrapped in `AsyncIoTokioAsStd`
    Tokio,
}

impl Sock {
    pub fn name(self) -> &'static str {
        match self {
            Sock::Direct => "direct",
            Sock::Tokio => "tokio",
        }
    }
    pub fn from_name(s: &str) -> Sock {
        if s == "tokio" {
            Sock::Tokio
        } else {
            Sock::Direct
        }
    }
}

/// which stream the driver polls
#[derive(Clone, Copy, Debug, Default, PartialEq, Eq)]
pub enum Wrap {
    /// the `TcpStream` itself
    #[default]
    Raw,
    /// `TcpClientStream::from_stream(<the TcpStream>)`
    Client,
}

impl Wrap {
    pub fn name(self) -> &'static str {
        match self {
            Wrap::Raw => "raw",
            Wrap::Client => "client",
        }
    }
    pub fn from_name(s: &str) -> Wrap {
        if s == "client" {
            Wrap::Client
        } else {
            Wrap::Raw
        }
    }
}

#[derive(Clone, Debug, Default)]
struct Case {
    /// discriminator of the socket flavour (absent in old witnesses = direct)
    sock: Sock,
    /// discriminator of the polled wrapper (absent in old witnesses = raw)
    wrap: Wrap,
    /// lengths of the messages the peer sends
    inbound: Vec<usize>,
    /// stream offset at which the peer closes (None: connection stays open)
    close: Option<usize>,
    /// > 0: availability boundary at this cumulative offset; 0: Pending, waker called at once;
    /// -1: Pending, waker fired later
    rsteps: Vec<i64>,
    /// lengths of the messages pushed through the handle
    outbound: Vec<usize>,
    /// poll count before which each outbound message is handed to the handle
    send_at: Vec<usize>,
    /// same encoding as rsteps, acceptance boundaries of the socket's write side
    wsteps: Vec<i64>,
    /// flush script: 0 / -1 as above, 1 = ready
    fsteps: Vec<i64>,
    vectored: bool,
    drop_handle: bool,
}

impl Case {
    fn to_json(&self) -> Value {
        json!({"kind": "framing", "sock": self.sock.name(), "wrap": self.wrap.name(), "inbound": self.inbound, "close": self.close, "rsteps": self.rsteps, "outbound": self.outbound,
               "send_at": self.send_at, "wsteps": self.wsteps, "fsteps": self.fsteps, "vectored": self.vectored,
               "drop_handle": self.drop_handle})
    }
    /// "direct-writev" | "direct-plain" | "tokio-vec" | "tokio-plain"
    fn flavour(&self) -> &'static str {
        match (self.sock, self.vectored) {
            (Sock::Direct, true) => "direct-writev",
            (Sock::Direct, false) => "direct-plain",
            (Sock::Tokio, true) => "tokio-vec",
            (Sock::Tokio, false) => "tokio-plain",
        }
    }
    fn from_json(v: &Value) -> Case {
        let us = |k: &str| -> Vec<usize> { v[k].as_array().map(|a| a.iter().filter_map(|x| x.as_u64()).map(|x| x as usize).collect()).unwrap_or_default() };
        let is = |k: &str| -> Vec<i64> { v[k].as_array().map(|a| a.iter().filter_map(|x| x.as_i64()).collect()).unwrap_or_default() };
        Case {
            sock: Sock::from_name(v["sock"].as_str().unwrap_or("direct")),
            wrap: Wrap::from_name(v["wrap"].as_str().unwrap_or("raw")),
            inbound: us("inbound"),
            close: v["close"].as_u64().map(|x| x as usize),
            rsteps: is("rsteps"),
            outbound: us("outbound"),
            send_at: us("send_at"),
            wsteps: is("wsteps"),
            fsteps: is("fsteps"),
            vectored: v["vectored"].as_bool().unwrap_or(true),
            drop_handle: v["drop_handle"].as_bool().unwrap_or(false),
        }
    }
}

fn steps_of(v: &[i64]) -> Vec<Step> {
    v.iter()
        .map(|&x| match x {
            0 => Step::Pend { deferred: false },
            x if x < 0 => Step::Pend { deferred: true },
            x => Step::Upto(x as usize),
        })
        .collect()
}

/// deterministic body of message `i` in direction `dir`
fn body(dir: u8, i: usize, len: usize) -> Vec<u8> {
    let mut v = Vec::with_capacity(len);
    let base = (dir as u32).wrapping_mul(131).wrapping_add(i as u32 * 89).wrapping_add(len as u32 * 7);
    for j in 0..len as u32 {
        v.push((base.wrapping_add(j.wrapping_mul(31)) ^ (j >> 8).wrapping_mul(13)) as u8);
    }
    v
}

struct Layout {
    wire: Vec<u8>,
    bodies: Vec<Vec<u8>>,
    /// (start, end) of each frame in `wire`
    frames: Vec<(usize, usize)>,
}

fn layout(dir: u8, lens: &[usize]) -> Layout {
    let mut wire = Vec::new();
    let mut bodies = Vec::new();
    let mut frames = Vec::new();
    for (i, &l) in lens.iter().enumerate() {
        let b = body(dir, i, l);
        let s = wire.len();
        wire.extend_from_slice(&(l as u16).to_be_bytes());
        wire.extend_from_slice(&b);
        frames.push((s, wire.len()));
        bodies.push(b);
    }
    Layout { wire, bodies, frames }
}

fn frame_bounds(lens: &[usize]) -> Vec<(usize, usize)> {
    let mut v = Vec::new();
    let mut s = 0;
    for &l in lens {
        v.push((s, s + 2 + l));
        s += 2 + l;
    }
    v
}

/// boundary class of a stream offset
fn class_of(off: usize, frames: &[(usize, usize)]) -> &'static str {
    for &(s, e) in frames {
        if off == s || off == e {
            return "frame";
        }
        if off > s && off < e {
            return match off - s {
                1 => "in-prefix",
                2 => "prefix-body",
                _ => "in-body",
            };
        }
    }
    "beyond"
}

// ---------------------------------------------------------------------------------------------
// execution

#[derive(Clone, Debug, PartialEq)]
enum Terminal {
    End,
    Err(String),
    Quiescent,
    Stall,
    Livelock,
    Panic(String, String),
}

impl Terminal {
    fn kind(&self) -> &'static str {
        match self {
            Terminal::End => "end",
            Terminal::Err(_) => "err",
            Terminal::Quiescent => "pending",
            Terminal::Stall => "stall",
            Terminal::Livelock => "livelock",
            Terminal::Panic(..) => "panic",
        }
    }
}

struct Obs {
    items: Vec<(Vec<u8>, std::net::SocketAddr)>,
    terminal: Terminal,
    polls: usize,
    state: Arc<Mutex<TcpState>>,
}

fn run_case(c: &Case) -> Obs {
    let inl = layout(1, &c.inbound);
    let total = inl.wire.len();
    let (rbytes, rend) = match c.close {
        Some(k) => (inl.wire[..k.min(total)].to_vec(), ReadEnd::Eof),
        None => (inl.wire.clone(), ReadEnd::Open),
    };
    let outl = layout(2, &c.outbound);
    let state = Arc::new(Mutex::new(TcpState::new(rbytes, steps_of(&c.rsteps), rend, steps_of(&c.wsteps), steps_of(&c.fsteps), c.vectored)));
    let limit = 8 * (total + outl.wire.len()) + 4 * (c.rsteps.len() + c.wsteps.len() + c.fsteps.len()) + 256;
    {
        let mut st = state.lock().unwrap();
        // every socket call moves ≥ 1 byte, consumes a script step, or is one of the few final
        // EOF / parked reads
        st.max_calls = 2 * (total + outl.wire.len()) + 4 * (c.rsteps.len() + c.wsteps.len() + c.fsteps.len()) + 8 * c.outbound.len() + 64;
        st.max_written = outl.wire.len() + 8;
    }
    match (c.sock, c.vectored) {
        (Sock::Direct, _) => drive(c, SimTcp(state.clone()), state, &outl, limit),
        (Sock::Tokio, true) => drive(c, AsyncIoTokioAsStd(SimTokioVec(state.clone())), state, &outl, limit),
        (Sock::Tokio, false) => drive(c, AsyncIoTokioAsStd(SimTokioPlain(state.clone())), state, &outl, limit),
    }
}

fn drive<S: DnsTcpStream>(c: &Case, sock: S, state: Arc<Mutex<TcpState>>, outl: &Layout, limit: usize) -> Obs {
    let (stream, handle) = TcpStream::from_stream(sock, peer());
    match c.wrap {
        Wrap::Raw => poll_loop(c, stream, handle, state, outl, limit, |e: &std::io::Error| format!("{:?}: {e}", e.kind())),
        // the same TcpStream, the same handle; only the polled object differs
        Wrap::Client => poll_loop(c, TcpClientStream::from_stream(stream), handle, state, outl, limit, |e: &hickory_net::NetError| format!("NetError: {e}")),
    }
}

/// the hand-rolled executor: identical for both wrappers (the item's error type is the only
/// difference, and it is only rendered into the witness, never judged)
fn poll_loop<St, E>(c: &Case, mut stream: St, handle: BufDnsStreamHandle, state: Arc<Mutex<TcpState>>, outl: &Layout, limit: usize, describe: impl Fn(&E) -> String) -> Obs
where
    St: Stream<Item = Result<SerialMessage, E>> + Unpin,
{
    let mut handle = Some(handle);
    let (flag, waker) = FlagWaker::new();
    let mut cx = Context::from_waker(&waker);
    let mut items = Vec::new();
    let mut polls = 0usize;
    let mut next_out = 0usize;
    let terminal = loop {
        while next_out < c.outbound.len() && c.send_at.get(next_out).copied().unwrap_or(0) <= polls {
            if let Some(h) = handle.as_mut() {
                let _ = h.send(SerialMessage::new(outl.bodies[next_out].clone(), peer()));
            }
            next_out += 1;
        }
        if next_out >= c.outbound.len() && c.drop_handle {
            handle = None;
        }
        if polls > limit {
            break Terminal::Livelock;
        }
        flag.take();
        let r = mon::catch(|| stream.poll_next_unpin(&mut cx));
        polls += 1;
        match r {
            Err(p) => break Terminal::Panic(p.message.clone(), p.site()),
            Ok(Poll::Ready(Some(Ok(m)))) => {
                let (b, a) = m.into_parts();
                items.push((b, a));
            }
            Ok(Poll::Ready(Some(Err(e)))) => break Terminal::Err(describe(&e)),
            Ok(Poll::Ready(None)) => break Terminal::End,
            Ok(Poll::Pending) => {
                if flag.take() {
                    continue;
                }
                if state.lock().unwrap().fire_deferred() > 0 {
                    continue;
                }
                if next_out < c.outbound.len() {
                    // idle: time passes until the next outbound message is due
                    polls = polls.max(c.send_at.get(next_out).copied().unwrap_or(0));
                    continue;
                }
                if state.lock().unwrap().parked_forever {
                    break Terminal::Quiescent;
                }
                break Terminal::Stall;
            }
        }
    };
    drop(stream);
    Obs { items, terminal, polls, state }
}

struct Verdict {
    rule: &'static str,
    sig: String,
    expected: Value,
    observed: Value,
}

fn short(b: &[u8]) -> String {
    let n = b.len().min(12);
    format!("len={} {}{}", b.len(), mon::hex(&b[..n]), if b.len() > n { ".." } else { "" })
}

/// classes of the script boundaries strictly inside frame `f`
fn classes_inside(c: &Case, f: usize, frames: &[(usize, usize)]) -> String {
    let Some(&(s, e)) = frames.get(f) else { return "none".into() };
    let mut set: Vec<&str> = Vec::new();
    let lim = c.close.unwrap_or(usize::MAX);
    for &x in &c.rsteps {
        if x > 0 && (x as usize) > s && (x as usize) < e && (x as usize) < lim {
            let k = class_of(x as usize, frames);
            if !set.contains(&k) {
                set.push(k);
            }
        }
    }
    if set.is_empty() {
        return "none".into();
    }
    set.sort();
    set.join("+")
}

fn judge(c: &Case, o: &Obs) -> Vec<Verdict> {
    let mut out = Vec::new();
    let inl = layout(1, &c.inbound);
    let total = inl.wire.len();
    let cut = c.close.map(|k| k.min(total)).unwrap_or(total);
    let complete: Vec<usize> = (0..inl.frames.len()).filter(|&i| inl.frames[i].1 <= cut).collect();
    let close_class = c.close.map(|k| class_of(k.min(total), &inl.frames));

    match &o.terminal {
        Terminal::Panic(msg, site) => {
            out.push(Verdict { rule: "panic", sig: site.clone(), expected: json!("no panic"), observed: json!(msg) });
            return out;
        }
        Terminal::Livelock => {
            out.push(Verdict { rule: "livelock", sig: "poll-bound".into(), expected: json!("termination within the poll bound"), observed: json!({"polls": o.polls}) });
            return out;
        }
        _ => {}
    }

    let (overrun, calls) = {
        let st = o.state.lock().unwrap();
        (st.overrun, st.calls)
    };
    if let Some(what) = overrun {
        out.push(Verdict { rule: "livelock", sig: format!("socket-call-bound|{what}"), expected: json!("a bounded number of socket calls"), observed: json!({"calls": calls, "terminal": format!("{:?}", o.terminal)}) });
        return out;
    }

    // ---- items
    let mut first_bad: Option<usize> = None;
    for (i, &f) in complete.iter().enumerate() {
        match o.items.get(i) {
            Some((b, a)) if *b == inl.bodies[f] && *a == peer() => {}
            _ => {
                first_bad = Some(i);
                break;
            }
        }
    }
    if first_bad.is_none() && o.items.len() > complete.len() {
        first_bad = Some(complete.len());
    }
    if let Some(i) = first_bad {
        let what = match o.items.get(i) {
            None => "missing",
            Some(_) if i >= complete.len() => "extra",
            Some((b, _)) if inl.bodies.get(i).map(|x| x.len()) != Some(b.len()) => "wrong-length",
            Some((_, a)) if *a != peer() => "wrong-addr",
            Some(_) => "wrong-bytes",
        };
        // a missing last item is reported by the terminal rule when the stream ended early on a stall
        let sig = format!("read|{}|{}", classes_inside(c, i.min(inl.frames.len().saturating_sub(1)), &inl.frames), what);
        out.push(Verdict {
            rule: "items",
            sig,
            expected: json!({"items": complete.iter().map(|&f| short(&inl.bodies[f])).collect::<Vec<_>>()}),
            observed: json!({"items": o.items.iter().map(|(b, _)| short(b)).collect::<Vec<_>>(), "first_bad": i, "terminal": o.terminal.kind()}),
        });
    }

    // ---- terminal
    let want = match close_class {
        None => "pending",
        Some("frame") => "end",
        Some(_) => "err",
    };
    if o.terminal.kind() != want {
        let rule = if o.terminal == Terminal::Stall { "stall" } else { "terminal" };
        let sig = format!("close|{}|{}->{}", close_class.unwrap_or("open"), want, o.terminal.kind());
        out.push(Verdict { rule, sig, expected: json!(want), observed: json!(format!("{:?}", o.terminal)) });
    }

    // ---- wire bytes
    let outl = layout(2, &c.outbound);
    let st = o.state.lock().unwrap();
    let w = &st.written;
    let is_prefix = w.len() <= outl.wire.len() && outl.wire[..w.len()] == w[..];
    let must_be_complete = o.terminal == Terminal::Quiescent;
    if !is_prefix || (must_be_complete && w.len() != outl.wire.len()) {
        let d = w.iter().zip(outl.wire.iter()).position(|(a, b)| a != b).unwrap_or(w.len().min(outl.wire.len()));
        // which kind of write call produced the byte at d (or would have)
        let call = st.wcalls.iter().rev().find(|k| k.at <= d);
        let how = match call {
            Some(k) if k.vectored && k.accepted > k.offered[0] => "vectored-cross",
            Some(k) if k.vectored => "vectored",
            Some(_) => "plain",
            None => "none",
        };
        let sig = format!("write|{}|{}|{}", class_of(d, &outl.frames), how, if is_prefix { "short" } else { "diverges" });
        out.push(Verdict {
            rule: "wire-bytes",
            sig,
            expected: json!({"len": outl.wire.len(), "around": short(&outl.wire[d.saturating_sub(2).min(outl.wire.len())..])}),
            observed: json!({"len": w.len(), "first_diff": d, "around": short(&w[d.saturating_sub(2).min(w.len())..]),
                             "calls": st.wcalls.iter().take(12).map(|k| json!([k.vectored, k.offered, k.accepted])).collect::<Vec<_>>()}),
        });
    }
    if st.empty_buf_reads > 0 {
        // only possible for a zero-length frame, which is never generated
        out.push(Verdict { rule: "items", sig: "read|empty-buffer-read".into(), expected: json!("no read with an empty buffer (no zero-length frame was sent)"), observed: json!(st.empty_buf_reads) });
    }
    out
}

// ---------------------------------------------------------------------------------------------
// bookkeeping of what was observed

fn observe(rep: &mut Reporter, c: &Case, o: &Obs) {
    let inf = frame_bounds(&c.inbound);
    let outf = frame_bounds(&c.outbound);
    let total_in = inf.last().map(|f| f.1).unwrap_or(0);
    let cut = c.close.map(|k| k.min(total_in)).unwrap_or(total_in);
    let st = o.state.lock().unwrap();
    // read side: script boundaries that were real splits, and short reads actually returned
    let mut per_frame = vec![0usize; inf.len()];
    for &x in &c.rsteps {
        if x > 0 && (x as usize) < cut {
            let k = class_of(x as usize, &inf);
            rep.count(&format!("read_boundary/{k}"));
            for (i, &(s, e)) in inf.iter().enumerate() {
                if (x as usize) > s && (x as usize) < e {
                    per_frame[i] += 1;
                }
            }
        }
    }
    for &(d, n, bl) in &st.reads {
        if n < bl {
            rep.count(&format!("read_short/{}", class_of(d + n, &inf)));
        }
    }
    rep.add("read_pending", st.read_pendings as u64);
    rep.add("read_calls", st.reads.len() as u64);
    // write side
    let total_out = outf.last().map(|f| f.1).unwrap_or(0);
    for &x in &c.wsteps {
        if x > 0 && (x as usize) < total_out && class_of(x as usize, &outf) == "frame" {
            rep.count("write_boundary/frame");
        }
    }
    for k in &st.wcalls {
        let off: usize = k.offered.iter().sum();
        if k.accepted < off {
            rep.count(&format!("write_partial/{}", class_of(k.at + k.accepted, &outf)));
        }
        if k.vectored {
            rep.count("write_vectored_calls");
            if k.accepted > k.offered[0] && k.accepted < off {
                rep.count("write_vectored_cross_partial");
            }
            if k.offered[0] == 1 && k.accepted > 1 {
                rep.count("write_vectored_second_len_byte_plus_body");
            }
            if k.offered[0] == 1 && k.accepted == 1 {
                rep.count("write_vectored_second_len_byte_only");
            }
            if k.offered[0] == 2 && k.accepted == 1 {
                rep.count("write_vectored_first_len_byte_only");
            }
        }
    }
    // socket flavour
    rep.count(&format!("sock/{}", c.flavour()));
    if c.sock == Sock::Tokio {
        rep.add("tokio_read_calls", st.reads.len() as u64);
        rep.add("tokio_read_short", st.reads.iter().filter(|&&(_, n, bl)| n < bl).count() as u64);
        rep.add("tokio_eof_reads", st.eof_reads as u64);
        rep.add("tokio_read_pending", st.read_pendings as u64);
        rep.add("tokio_write_pending", st.write_pendings as u64);
        rep.add("tokio_flush_pending", st.flush_pendings as u64);
        if st.written.len() == total_out && total_out > 0 {
            rep.count(&format!("outbound_complete/{}", c.flavour()));
        }
        if c.vectored {
            for k in &st.wcalls {
                let off: usize = k.offered.iter().sum();
                if k.vectored && k.accepted > k.offered[0] && k.accepted < off {
                    rep.count("tokio_vec_cross_partial");
                }
                if k.vectored && k.accepted > 0 && k.accepted < k.offered[0] {
                    rep.count("tokio_vec_prefix_partial");
                }
            }
        } else {
            // plain poll_write only: the length prefix and the body are separate socket calls
            for k in &st.wcalls {
                if let Some(&(s0, _)) = outf.iter().find(|f| k.at >= f.0 && k.at < f.0 + 2) {
                    if k.at + k.accepted < s0 + 2 {
                        rep.count("tokio_plain_prefix_partial");
                    } else {
                        rep.count("tokio_plain_prefix_completed_by_one_call");
                    }
                }
            }
            // would-block exactly between the (completely accepted) length prefix and the body
            let n = st.wpend_at.iter().filter(|&&p| outf.iter().any(|f| f.0 + 2 == p)).count();
            if n > 0 {
                rep.count("tokio_plain_pending_between_prefix_and_body_cases");
                rep.add("tokio_plain_pending_between_prefix_and_body", n as u64);
            }
            if st.wpend_at.iter().any(|&p| outf.iter().any(|f| f.0 + 1 == p)) {
                rep.count("tokio_plain_pending_inside_prefix_cases");
            }
        }
    }
    rep.add("write_pending", st.write_pendings as u64);
    rep.add("flush_pending", st.flush_pendings as u64);
    rep.add("flushes", st.flushes as u64);
    rep.add("bytes_written", st.written.len() as u64);
    rep.add("bytes_read", st.delivered as u64);
    if st.written.len() == total_out && total_out > 0 {
        rep.count("outbound_complete");
    }
    // close
    if let Some(k) = c.close {
        let k = k.min(total_in);
        rep.count(&format!("close/{}", if k == 0 { "frame" } else { class_of(k, &inf) }));
        if k == 0 {
            rep.count("close_at_start");
        }
    } else {
        rep.count("close/open");
    }
    rep.count(&format!("terminal/{}", o.terminal.kind()));
    rep.add("items_ok", o.items.len() as u64);
    // polled wrapper
    let w = c.wrap.name();
    rep.count(&format!("wrap/{w}"));
    rep.count(&format!("wrap_sock/{w}/{}", c.flavour()));
    rep.count(&format!("wrap_terminal/{w}/{}", o.terminal.kind()));
    match c.close {
        Some(k) => rep.count(&format!("wrap_close/{w}/{}", if k.min(total_in) == 0 { "frame" } else { class_of(k.min(total_in), &inf) })),
        None => rep.count(&format!("wrap_close/{w}/open")),
    }
    rep.add(&format!("wrap_items_ok/{w}"), o.items.len() as u64);
    if st.written.len() == total_out && total_out > 0 {
        rep.count(&format!("wrap_outbound_complete/{w}"));
    }
    rep.add("polls", o.polls as u64);
    if per_frame.iter().any(|&n| n >= 2) {
        rep.nontrivial(fnv64(c.to_json().to_string().as_bytes()));
        rep.count("nontrivial_cases");
        rep.count(&format!("wrap_nontrivial_cases/{w}"));
    }
}

fn check(rep: &mut Reporter, c: &Case) {
    let o = run_case(c);
    rep.eval();
    observe(rep, c, &o);
    let vs = judge(c, &o);
    for v in vs {
        // same clause, same structural situation, but the bytes went through the tokio adapter
        let sig = if c.sock == Sock::Tokio { format!("{}|via-tokio-adapter", v.sig) } else { v.sig };
        // same clause, but the polled object was the client wrapper around the TcpStream
        let sig = if c.wrap == Wrap::Client { format!("client:{sig}") } else { sig };
        rep.violation(v.rule, &sig, c.to_json(), v.expected, v.observed);
    }
    rep.sample(|| json!({"case": c.to_json(), "terminal": o.terminal.kind(), "items": o.items.len(), "polls": o.polls}));
}

/// `check` + per-family / per-flavour bookkeeping
fn check_in(rep: &mut Reporter, family: &str, c: &Case) {
    check(rep, c);
    rep.count(&format!("{family}_cases"));
    rep.count(&format!("{family}_cases/{}", c.sock.name()));
    if c.wrap == Wrap::Client {
        rep.count(&format!("{family}_cases/client"));
        rep.count(&format!("{family}_cases/client/{}", c.sock.name()));
    }
}

/// socket flavour of the i-th repetition of an enumerated composition: alternate, so that every
/// composition runs through both
fn sock_of_rep(i: u64) -> Sock {
    if i % 2 == 1 {
        Sock::Tokio
    } else {
        Sock::Direct
    }
}

/// repetitions of an enumerated composition that are added under the client wrapper (≥ 2, so that
/// the alternation of `sock_of_rep` puts both socket flavours under it)
fn client_reps(reps: u64) -> u64 {
    ((reps + 1) / 2).max(2)
}

/// polled wrapper of a randomly generated case: 1 in 3 through `TcpClientStream`
fn random_wrap(r: &mut Rng, c: &mut Case) {
    if r.below(3) == 0 {
        c.wrap = Wrap::Client;
    }
}

/// socket flavour of a randomly generated case
fn random_sock(r: &mut Rng, c: &mut Case) {
    if r.bool() {
        c.sock = Sock::Tokio;
        // plain-`poll_write`-only and gathering tokio sockets in equal shares
        c.vectored = r.bool();
    }
}

// ---------------------------------------------------------------------------------------------
// generators

/// composition of `n` (≥ 1) from a bit mask over its n-1 inner split points → cumulative bounds
fn bounds_from_mask(n: usize, mask: u64) -> Vec<usize> {
    let mut v = Vec::new();
    for i in 1..n {
        if mask >> (i - 1) & 1 == 1 {
            v.push(i);
        }
    }
    v.push(n);
    v
}

/// insert Pending steps (immediate / deferred) before boundaries and at the end
fn with_pends(r: &mut Rng, bounds: &[usize], p8: u64) -> Vec<i64> {
    let mut v = Vec::with_capacity(bounds.len() * 2 + 1);
    for &b in bounds {
        let mut k = 0;
        while k < 3 && p8 > 0 && r.chance(p8, 8) {
            v.push(if r.bool() { 0 } else { -1 });
            k += 1;
        }
        v.push(b as i64);
    }
    if p8 > 0 && r.chance(p8, 8) {
        v.push(if r.bool() { 0 } else { -1 });
    }
    v
}

fn pend_level(r: &mut Rng) -> u64 {
    *r.pick(&[0u64, 1, 2, 4, 8])
}

fn flush_script(r: &mut Rng, msgs: usize) -> Vec<i64> {
    let mut v = Vec::new();
    if r.chance(1, 2) {
        for _ in 0..msgs {
            while r.chance(1, 3) && v.len() < 8 {
                v.push(if r.bool() { 0 } else { -1 });
            }
            v.push(1);
        }
    }
    v
}

fn interesting(frames: &[(usize, usize)], r: &mut Rng, extra: usize) -> Vec<usize> {
    let total = frames.last().map(|f| f.1).unwrap_or(0);
    let mut v = Vec::new();
    for &(s, e) in frames {
        for o in [s, s + 1, s + 2, s + 3, e.saturating_sub(1), e.saturating_sub(2)] {
            if o >= 1 && o < total && o >= s && o <= e {
                v.push(o);
            }
        }
        for _ in 0..extra {
            if e - s > 6 {
                v.push(r.urange(s + 3, e - 1));
            }
        }
    }
    v.sort_unstable();
    v.dedup();
    v
}

/// random composition of n into cumulative bounds, several chunking styles
fn random_bounds(r: &mut Rng, n: usize, frames: &[(usize, usize)]) -> Vec<usize> {
    if n == 0 {
        return vec![];
    }
    let mut v = Vec::new();
    match r.below(6) {
        0 if n <= 700 => {
            // one byte at a time
            v.extend(1..=n);
        }
        1 => {
            // fixed segment size
            let seg = *r.pick(&[2usize, 3, 7, 64, 255, 256, 536, 1460, 16384]);
            let mut p = seg;
            while p < n {
                v.push(p);
                p += seg;
            }
            v.push(n);
        }
        2 => {
            // splits only near frame edges
            let ints = interesting(frames, r, 0);
            for o in ints {
                if o < n && r.chance(1, 2) {
                    v.push(o);
                }
            }
            v.push(n);
        }
        3 => {
            // byte-by-byte around the frame edges, big chunks elsewhere
            for &(s, e) in frames {
                for o in [s + 1, s + 2, s + 3, e.saturating_sub(1), e] {
                    if o >= 1 && o < n {
                        v.push(o);
                    }
                }
            }
            v.push(n);
            v.sort_unstable();
            v.dedup();
        }
        _ => {
            // geometric chunk sizes
            let mean = *r.pick(&[1usize, 2, 4, 16, 200, 3000]);
            let mut p = 0;
            loop {
                p += 1 + r.usize_below(2 * mean);
                if p >= n || v.len() > 4000 {
                    break;
                }
                v.push(p);
            }
            v.push(n);
        }
    }
    v
}

fn pick_lens(r: &mut Rng, max_msgs: usize, allow_huge: bool) -> Vec<usize> {
    let k = r.urange(1, max_msgs);
    (0..k)
        .map(|_| {
            let w: [u32; 10] = [3, 3, 3, 2, 3, 3, 2, 2, 1, if allow_huge { 1 } else { 0 }];
            LENS[r.weighted(&w)]
        })
        .collect()
}

fn small_seqs(max_total: usize) -> Vec<Vec<usize>> {
    let mut v = Vec::new();
    for k in 1..=3usize {
        let n = 3usize.pow(k as u32);
        for code in 0..n {
            let mut c = code;
            let mut s = Vec::new();
            for _ in 0..k {
                s.push(1 + c % 3);
                c /= 3;
            }
            if s.iter().map(|l| l + 2).sum::<usize>() <= max_total {
                v.push(s);
            }
        }
    }
    v
}

/// random write side for a case that is about reading
fn random_outbound(r: &mut Rng, c: &mut Case, small_only: bool) {
    let k = r.weighted(&[3, 4, 2, 1]);
    c.outbound = (0..k).map(|_| if small_only || r.chance(3, 4) { *r.pick(&[1usize, 2, 3, 5]) } else { *r.pick(&[254usize, 255, 256, 257, 300]) }).collect();
    c.send_at = (0..k).map(|_| if r.chance(2, 3) { 0 } else { r.usize_below(6) }).collect();
    c.send_at.sort_unstable();
    let frames = frame_bounds(&c.outbound);
    let total = frames.last().map(|f| f.1).unwrap_or(0);
    if total > 0 && r.chance(3, 4) {
        let b = random_bounds(r, total, &frames);
        let p = pend_level(r);
        c.wsteps = with_pends(r, &b, p);
    }
    c.fsteps = flush_script(r, k);
    c.vectored = r.chance(3, 4);
    c.drop_handle = r.chance(1, 4);
}

/// random read side for a case that is about writing
fn random_inbound(r: &mut Rng, c: &mut Case) {
    let k = r.weighted(&[2, 3, 1]);
    c.inbound = (0..k).map(|_| *r.pick(&[1usize, 2, 3, 40, 255, 256])).collect();
    let frames = frame_bounds(&c.inbound);
    let total = frames.last().map(|f| f.1).unwrap_or(0);
    c.close = None;
    if total > 0 {
        let b = random_bounds(r, total, &frames);
        let p = pend_level(r);
        c.rsteps = with_pends(r, &b, p);
    }
}

// ---------------------------------------------------------------------------------------------

fn main() {
    let ctx = Ctx::from_args("C17");
    mon::install_panic_monitor();
    let mut rep = Reporter::new(&ctx);

    if let Some(w) = ctx.replay_case() {
        // discriminator: "kind" ("framing" when absent: witnesses written before part T existed)
        if w["case"]["kind"].as_str() == Some("timeout") {
            let c = idle::TCase::from_json(&w["case"]);
            let mut runner = idle::TRunner::new();
            idle::check_t(&mut rep, &mut runner, &c);
        } else {
            let c = Case::from_json(&w["case"]);
            check(&mut rep, &c);
        }
        rep.replay_finish();
    }

    for k in ["in-prefix", "prefix-body", "in-body", "frame"] {
        rep.must(&format!("read_boundary/{k}"), 1000);
        rep.must(&format!("close/{k}"), 1000);
    }
    for k in ["in-prefix", "prefix-body", "in-body"] {
        rep.must(&format!("write_partial/{k}"), 1000);
    }
    // (a read that ends on the prefix/body boundary is never "short": the prefix read asks for
    //  exactly the bytes up to it; that class is covered by read_boundary/prefix-body)
    for k in ["in-prefix", "in-body"] {
        rep.must(&format!("read_short/{k}"), 1000);
    }
    rep.must("write_boundary/frame", 1000);
    rep.must("write_vectored_cross_partial", 500);
    rep.must("write_vectored_second_len_byte_plus_body", 500);
    rep.must("write_vectored_first_len_byte_only", 500);
    rep.must("read_pending", 10_000);
    rep.must("write_pending", 5_000);
    rep.must("flush_pending", 1_000);
    rep.must("terminal/end", 5_000);
    rep.must("terminal/err", 5_000);
    rep.must("terminal/pending", 5_000);
    rep.must("outbound_complete", 5_000);
    rep.must("nontrivial_cases", 20_000);
    // socket flavours: every schedule family through the tokio adapter as well
    for (k, min) in [("direct-writev", 200_000), ("direct-plain", 200_000), ("tokio-plain", 200_000), ("tokio-vec", 200_000)] {
        rep.must(&format!("sock/{k}"), min);
    }
    for (k, min) in [("w1", 300_000), ("w2a", 5_000), ("w2b", 150_000), ("w3a", 70_000), ("w3b", 100_000)] {
        rep.must(&format!("{k}_cases/tokio"), min);
        rep.must(&format!("{k}_cases/direct"), min);
    }
    rep.must("tokio_plain_pending_between_prefix_and_body_cases", 50_000);
    rep.must("tokio_plain_pending_inside_prefix_cases", 50_000);
    rep.must("tokio_plain_prefix_partial", 150_000);
    rep.must("tokio_plain_prefix_completed_by_one_call", 400_000);
    rep.must("tokio_vec_cross_partial", 80_000);
    rep.must("tokio_vec_prefix_partial", 150_000);
    rep.must("tokio_read_short", 10_000_000);
    rep.must("tokio_read_pending", 10_000_000);
    rep.must("tokio_write_pending", 10_000_000);
    rep.must("tokio_flush_pending", 200_000);
    rep.must("tokio_eof_reads", 300_000);
    rep.must("outbound_complete/tokio-plain", 200_000);
    rep.must("outbound_complete/tokio-vec", 200_000);
    // polled wrapper: a run that never (or hardly) polled through TcpClientStream is inconclusive
    rep.must("wrap/raw", 1_900_000);
    rep.must("wrap/client", 1_000_000);
    for (k, min) in [("end", 200_000), ("err", 250_000), ("pending", 500_000)] {
        rep.must(&format!("wrap_terminal/client/{k}"), min);
    }
    for (k, min) in [("frame", 200_000), ("in-prefix", 35_000), ("prefix-body", 55_000), ("in-body", 150_000)] {
        rep.must(&format!("wrap_close/client/{k}"), min);
    }
    for (k, min) in [("direct-writev", 350_000), ("direct-plain", 140_000), ("tokio-plain", 250_000), ("tokio-vec", 250_000)] {
        rep.must(&format!("wrap_sock/client/{k}"), min);
    }
    for (k, min) in [("w1", 290_000), ("w2a", 9_000), ("w2b", 80_000), ("w3a", 60_000), ("w3b", 55_000)] {
        rep.must(&format!("{k}_cases/client/tokio"), min);
        rep.must(&format!("{k}_cases/client/direct"), min);
    }
    rep.must("wrap_items_ok/client", 1_900_000);
    rep.must("wrap_outbound_complete/client", 750_000);
    rep.must("wrap_nontrivial_cases/client", 700_000);
    // part T
    rep.must("t_cases", 50_000);
    rep.must("t_sock/tokio", 30_000);
    rep.must("t_sock/direct", 10_000);
    rep.must("t_item_after_cumulative_gap_over_timeout", 20_000);
    rep.must("t_timeout_expected_and_seen", 30_000);
    for k in 0..3 {
        rep.must(&format!("t_timeout_expected_and_seen/after-{k}-items"), 5_000);
    }
    for (k, min) in [("frame", 20_000), ("in-prefix", 1_500), ("prefix-body", 1_500), ("in-body", 6_000)] {
        rep.must(&format!("t_timeout_stalled/{k}"), min);
    }
    rep.must("t_clean_end", 6_000);
    rep.must("t_close_inside_frame_err", 2_500);
    rep.must("t_open_no_timer_pending", 1_000);
    rep.must("t_timer_disabled", 2_500);

    let reps = if ctx.is_thorough() { ((48.0 * ctx.scale) as u64).max(1) } else { ((3.0 * ctx.scale) as u64).max(1) };
    let creps = client_reps(reps);

    // ---- W1: every composition of the inbound stream × every close offset, totals ≤ 14 bytes
    {
        let mut r = ctx.rng("w1");
        let mut idx = 0u64;
        for seq in small_seqs(14) {
            let frames = frame_bounds(&seq);
            let n = frames.last().unwrap().1;
            let closes: Vec<Option<usize>> = std::iter::once(None).chain((0..=n).map(Some)).collect();
            for close in closes {
                let cut = close.unwrap_or(n);
                let nmasks: u64 = if cut == 0 { 1 } else { 1 << (cut - 1) };
                for mask in 0..nmasks {
                    idx += 1;
                    if !ctx.mine(idx) {
                        continue;
                    }
                    // the last `creps` repetitions are polled through TcpClientStream
                    for i in 0..reps + creps {
                        let mut c = Case { inbound: seq.clone(), close, ..Default::default() };
                        if i >= reps {
                            c.wrap = Wrap::Client;
                        }
                        let b = if cut == 0 { vec![] } else { bounds_from_mask(cut, mask) };
                        let p = pend_level(&mut r);
                        c.rsteps = with_pends(&mut r, &b, p);
                        random_outbound(&mut r, &mut c, false);
                        c.sock = sock_of_rep(idx + i);
                        if c.sock == Sock::Tokio {
                            c.vectored = r.bool();
                        }
                        check_in(&mut rep, "w1", &c);
                    }
                }
            }
        }
    }

    // ---- W2a: large totals, all single and double split points (all offsets for totals ≤ 700,
    //      frame-edge offsets + sampled interior otherwise), close at each of those offsets
    {
        let mut shared = Rng::from_parts(ctx.seed, "C17/w2a-shared", 0);
        let mut r = ctx.rng("w2a");
        let mut seqs: Vec<Vec<usize>> = Vec::new();
        for &a in &LENS {
            seqs.push(vec![a]);
        }
        for &a in &LENS {
            for &b in &LENS {
                if (a == 65535 || b == 65535) && !(a <= 3 || b <= 3 || a == 256 || b == 256) {
                    continue;
                }
                seqs.push(vec![a, b]);
            }
        }
        for _ in 0..if ctx.is_thorough() { 200 } else { 40 } {
            let mut s = pick_lens(&mut shared, 3, true);
            while s.len() < 3 {
                s.push(*shared.pick(&LENS[..8]));
            }
            seqs.push(s);
        }
        let mut idx = 0u64;
        for seq in seqs {
            let frames = frame_bounds(&seq);
            let n = frames.last().unwrap().1;
            let ints = interesting(&frames, &mut shared, 3);
            let singles: Vec<usize> = if n <= 700 { (1..n).collect() } else { ints.clone() };
            let mut plans: Vec<(Vec<usize>, Option<usize>)> = Vec::new();
            for &a in &singles {
                plans.push((vec![a, n], None));
            }
            for (i, &a) in ints.iter().enumerate() {
                for &b in &ints[i + 1..] {
                    plans.push((vec![a, b, n], None));
                }
            }
            for &k in ints.iter().chain([0usize, n].iter()) {
                // close at k, with one random split before it
                let mut b = vec![];
                if k > 1 {
                    b.push(shared.urange(1, k - 1));
                }
                if k > 0 {
                    b.push(k);
                }
                plans.push((b, Some(k)));
            }
            for (b, close) in plans {
                idx += 1;
                if !ctx.mine(idx) {
                    continue;
                }
                // every plan once as it is and once more through TcpClientStream
                for wrap in [Wrap::Raw, Wrap::Client] {
                    let mut c = Case { inbound: seq.clone(), close, wrap, ..Default::default() };
                    let p = pend_level(&mut r);
                    c.rsteps = with_pends(&mut r, &b, p);
                    random_outbound(&mut r, &mut c, true);
                    random_sock(&mut r, &mut c);
                    check_in(&mut rep, "w2a", &c);
                }
            }
        }
    }

    // ---- W2b: random compositions of random sequences, random close
    {
        let mut r = ctx.rng("w2b");
        for _ in 0..ctx.budget(300_000, 8_000_000) {
            let huge = r.chance(1, 6);
            let seq = pick_lens(&mut r, 3, huge);
            let frames = frame_bounds(&seq);
            let n = frames.last().unwrap().1;
            let close = match r.below(4) {
                0 | 1 => None,
                2 => Some(r.urange(0, n)),
                _ => {
                    let ints = interesting(&frames, &mut r, 1);
                    Some(if ints.is_empty() { 0 } else { *r.pick(&ints) })
                }
            };
            let cut = close.unwrap_or(n);
            let mut c = Case { inbound: seq.clone(), close, ..Default::default() };
            let b = random_bounds(&mut r, cut, &frames);
            let p = pend_level(&mut r);
            c.rsteps = with_pends(&mut r, &b, p);
            random_outbound(&mut r, &mut c, false);
            random_sock(&mut r, &mut c);
            random_wrap(&mut r, &mut c);
            check_in(&mut rep, "w2b", &c);
        }
    }

    // ---- W3a: every composition of the outbound stream (acceptance boundaries), totals ≤ 12,
    //      with and without vectored-write support
    {
        let mut r = ctx.rng("w3a");
        let mut idx = 0u64;
        for seq in small_seqs(12) {
            let frames = frame_bounds(&seq);
            let n = frames.last().unwrap().1;
            for mask in 0..(1u64 << (n - 1)) {
                for vectored in [true, false] {
                    idx += 1;
                    if !ctx.mine(idx) {
                        continue;
                    }
                    // the last `creps` repetitions are polled through TcpClientStream
                    for i in 0..reps + creps {
                        let wrap = if i >= reps { Wrap::Client } else { Wrap::Raw };
                        let mut c = Case { outbound: seq.clone(), vectored, sock: sock_of_rep(idx / 2 + i), wrap, ..Default::default() };
                        c.send_at = (0..seq.len()).map(|_| if r.chance(3, 4) { 0 } else { r.usize_below(5) }).collect();
                        c.send_at.sort_unstable();
                        let b = bounds_from_mask(n, mask);
                        let p = pend_level(&mut r);
                        c.wsteps = with_pends(&mut r, &b, p);
                        c.fsteps = flush_script(&mut r, seq.len());
                        c.drop_handle = r.chance(1, 4);
                        random_inbound(&mut r, &mut c);
                        check_in(&mut rep, "w3a", &c);
                    }
                }
            }
        }
    }

    // ---- W3b: large outbound messages: single / double acceptance boundaries at frame edges,
    //      random compositions
    {
        let mut r = ctx.rng("w3b");
        for _ in 0..ctx.budget(200_000, 6_000_000) {
            let huge = r.chance(1, 6);
            let seq = pick_lens(&mut r, 3, huge);
            let frames = frame_bounds(&seq);
            let n = frames.last().unwrap().1;
            let mut c = Case { outbound: seq.clone(), vectored: r.chance(3, 4), ..Default::default() };
            c.send_at = (0..seq.len()).map(|_| if r.chance(3, 4) { 0 } else { r.usize_below(5) }).collect();
            c.send_at.sort_unstable();
            let b = match r.below(3) {
                0 => {
                    let ints = interesting(&frames, &mut r, 1);
                    let mut b: Vec<usize> = (0..r.urange(1, 2)).filter_map(|_| if ints.is_empty() { None } else { Some(*r.pick(&ints)) }).collect();
                    b.push(n);
                    b.sort_unstable();
                    b.dedup();
                    b
                }
                _ => random_bounds(&mut r, n, &frames),
            };
            let p = pend_level(&mut r);
            c.wsteps = with_pends(&mut r, &b, p);
            c.fsteps = flush_script(&mut r, seq.len());
            c.drop_handle = r.chance(1, 4);
            random_inbound(&mut r, &mut c);
            random_sock(&mut r, &mut c);
            random_wrap(&mut r, &mut c);
            check_in(&mut rep, "w3b", &c);
        }
    }

    // ---- T: the server's read stack TimeoutStream<TcpStream<..>> with scripted arrival instants
    {
        let mut r = ctx.rng("t");
        let mut runner = idle::TRunner::new();
        for _ in 0..ctx.budget(40_000, 1_500_000) {
            let c = idle::gen_tcase(&mut r);
            idle::check_t(&mut rep, &mut runner, &c);
        }
    }

    std::process::exit(rep.finish().min(0));
}
