#!/bin/sh
# MANIFEST.setup_cmd: offline build of the harness binaries of every registered check against /repo (hooks on).
set -e
cd /verif/harness
[ -f Cargo.lock ] || cp /repo/Cargo.lock Cargo.lock
BINS="--bin vmerge"
for id in $(cat /verif/lib/ready.txt); do
  b=$(python3 -c "import json,sys;print(json.load(open('/verif/lib/props/%s.json'%sys.argv[1]))['bin'])" "$id")
  BINS="$BINS --bin $b"
done
CARGO_NET_OFFLINE=true CARGO_TARGET_DIR=/verif/target cargo build --offline $BINS 2>&1 | tail -5
echo "setup done"
