//! Shared pieces of C12 / C13 / C14 that touch hickory: virtual server clock, response capture,
//! handler set-up on a temp dir, zone snapshots projected to plain types, raw UPDATE message
//! construction, the small name/RDATA universe and the state-aware history generator.
#![allow(dead_code)]

use std::path::{Path, PathBuf};
use std::sync::atomic::{AtomicU64, Ordering};
use std::sync::{Arc, Mutex};
use std::time::Duration;

use hickory_net::runtime::{Time, TokioRuntimeProvider};
use hickory_net::xfer::Protocol;
use hickory_net::NetError;
use hickory_proto::rr::rdata::tsig::TsigAlgorithm;
use hickory_proto::rr::{LowerName, Name, RData, Record};
use hickory_proto::serialize::binary::{BinEncodable, BinEncoder};
use hickory_server::server::{Request, RequestHandler, ResponseHandler, ResponseInfo};
use hickory_server::store::sqlite::{SqliteConfig, SqliteZoneHandler, TsigKeyConfig};
use hickory_server::zone_handler::{AxfrPolicy, Catalog, MessageResponse, ZoneHandler, ZoneType};
use serde_json::{json, Value};

use vh::mon::{self, hex, unhex, PanicRecord};
use vh::prng::Rng;
use vh::refwire::{self, Labels, WHeader};

use super::reftsig::{self, Alg, Key};
use super::refupdate::*;

// ---------------------------------------------------------------------------------------------
// virtual server clock (the `T: Time` parameter of Catalog::handle_request)

pub static CLOCK: AtomicU64 = AtomicU64::new(1_700_000_000);

pub fn set_clock(t: u64) {
    CLOCK.store(t, Ordering::SeqCst);
}
pub fn clock() -> u64 {
    CLOCK.load(Ordering::SeqCst)
}

#[derive(Clone, Copy)]
pub struct VTime;

#[async_trait::async_trait]
impl Time for VTime {
    async fn delay_for(d: Duration) {
        tokio::time::sleep(d).await
    }
    async fn timeout<F: 'static + std::future::Future + Send>(d: Duration, f: F) -> Result<F::Output, std::io::Error> {
        tokio::time::timeout(d, f).await.map_err(|_| std::io::Error::new(std::io::ErrorKind::TimedOut, "t"))
    }
    fn current_time() -> u64 {
        clock()
    }
}

// ---------------------------------------------------------------------------------------------
// response capture

#[derive(Clone, Default)]
pub struct Rec(pub Arc<Mutex<Vec<Vec<u8>>>>);

#[async_trait::async_trait]
impl ResponseHandler for Rec {
    async fn send_response<'a>(
        &mut self,
        response: MessageResponse<'_, 'a, impl Iterator<Item = &'a Record> + Send + 'a, impl Iterator<Item = &'a Record> + Send + 'a, impl Iterator<Item = &'a Record> + Send + 'a, impl Iterator<Item = &'a Record> + Send + 'a>,
    ) -> Result<ResponseInfo, NetError> {
        let mut buf = Vec::new();
        let mut enc = BinEncoder::new(&mut buf);
        let info = response.destructive_emit(&mut enc)?;
        self.0.lock().unwrap().push(buf);
        Ok(info)
    }
}

// ---------------------------------------------------------------------------------------------
// names and presentation

pub fn lbl(s: &str) -> Labels {
    refwire::labels_of(s)
}

pub fn show(l: &Labels) -> String {
    refwire::show(l)
}

pub fn to_name(l: &Labels) -> Name {
    let mut n = Name::from_labels(l.iter().map(|x| x.as_slice())).expect("name");
    n.set_fqdn(true);
    n
}

pub fn labels_of_name(n: &Name) -> Labels {
    n.iter().map(|l| l.to_vec()).collect()
}

fn name_wire(l: &Labels) -> Vec<u8> {
    let mut v = Vec::new();
    refwire::put_name(&mut v, l);
    v
}

fn read_wire_name(b: &[u8], p: &mut usize) -> Labels {
    let mut out = Vec::new();
    loop {
        let l = *b.get(*p).unwrap_or(&0) as usize;
        *p += 1;
        if l == 0 || l & 0xC0 != 0 {
            break;
        }
        out.push(b.get(*p..*p + l).unwrap_or(&[]).to_vec());
        *p += l;
    }
    out
}

pub fn rd_a(x: u8) -> Vec<u8> {
    vec![192, 0, 2, x]
}
pub fn rd_name(n: &str) -> Vec<u8> {
    name_wire(&lbl(n))
}
pub fn rd_mx(p: u16, n: &str) -> Vec<u8> {
    let mut v = p.to_be_bytes().to_vec();
    v.extend(name_wire(&lbl(n)));
    v
}
pub fn rd_txt(parts: &[&str]) -> Vec<u8> {
    let mut v = Vec::new();
    for p in parts {
        v.push(p.len() as u8);
        v.extend_from_slice(p.as_bytes());
    }
    v
}
pub fn rd_soa(mname: &str, rname: &str, serial: u32, refresh: u32, retry: u32, expire: u32, minimum: u32) -> Vec<u8> {
    let mut v = name_wire(&lbl(mname));
    v.extend(name_wire(&lbl(rname)));
    for x in [serial, refresh, retry, expire, minimum] {
        v.extend_from_slice(&x.to_be_bytes());
    }
    v
}

/// presentation form of RDATA of the universe's types (for zone files and witnesses)
pub fn rdata_text(rtype: u16, rd: &[u8]) -> String {
    let mut p = 0usize;
    match rtype {
        T_A if rd.len() == 4 => format!("{}.{}.{}.{}", rd[0], rd[1], rd[2], rd[3]),
        T_NS | T_CNAME => show(&read_wire_name(rd, &mut p)),
        T_MX if rd.len() > 2 => {
            p = 2;
            format!("{} {}", u16::from_be_bytes([rd[0], rd[1]]), show(&read_wire_name(rd, &mut p)))
        }
        T_TXT => {
            let mut parts = Vec::new();
            while p < rd.len() {
                let l = rd[p] as usize;
                let s = String::from_utf8_lossy(rd.get(p + 1..p + 1 + l).unwrap_or(&[])).to_string();
                parts.push(format!("\"{s}\""));
                p += 1 + l;
            }
            parts.join(" ")
        }
        T_SOA => {
            let m = read_wire_name(rd, &mut p);
            let r = read_wire_name(rd, &mut p);
            let mut nums = Vec::new();
            for _ in 0..5 {
                let b = rd.get(p..p + 4).unwrap_or(&[0, 0, 0, 0]);
                nums.push(u32::from_be_bytes([b[0], b[1], b[2], b[3]]).to_string());
                p += 4;
            }
            format!("{} {} {}", show(&m), show(&r), nums.join(" "))
        }
        _ => format!("\\# {} {}", rd.len(), hex(rd)),
    }
}

pub fn rr_text(rr: &Rr) -> String {
    format!("{} {} {} {} {}", show(&rr.owner), rr.ttl, class_name(rr.class), type_name(rr.rtype), if rr.rdata.is_empty() { "(empty)".to_string() } else { rdata_text(rr.rtype, &rr.rdata) })
}

pub fn zone_text(z: &Zone) -> String {
    let mut s = String::new();
    // SOA first (the parser does not need it, but it is the conventional layout)
    let mut keys: Vec<&RrKey> = z.sets.keys().collect();
    keys.sort_by_key(|(n, t)| (!(n == &z.apex && *t == T_SOA), n.clone(), *t));
    for k in keys {
        for (rd, ttl) in &z.sets[k] {
            s.push_str(&format!("{} {} IN {} {}\n", show(&k.0), ttl, type_name(k.1), rdata_text(k.1, rd)));
        }
    }
    s
}

pub fn zone_lines(z: &Zone) -> Vec<String> {
    zone_text(z).lines().map(|l| l.to_string()).collect()
}

// ---------------------------------------------------------------------------------------------
// JSON (replay) encoding of RRs, messages, zones

pub fn rr_json(rr: &Rr) -> Value {
    json!({"o": show(&rr.owner), "t": rr.rtype, "c": rr.class, "ttl": rr.ttl, "rd": hex(&rr.rdata), "text": rr_text(rr)})
}
pub fn rr_from_json(v: &Value) -> Rr {
    Rr {
        owner: lbl(v["o"].as_str().unwrap_or(".")),
        rtype: v["t"].as_u64().unwrap_or(0) as u16,
        class: v["c"].as_u64().unwrap_or(0) as u16,
        ttl: v["ttl"].as_u64().unwrap_or(0) as u32,
        rdata: unhex(v["rd"].as_str().unwrap_or("")),
    }
}

#[derive(Clone, Debug, PartialEq, Eq)]
pub struct UpdMsg {
    pub pre: Vec<Rr>,
    pub upd: Vec<Rr>,
}

pub fn msg_json(m: &UpdMsg) -> Value {
    json!({"pre": m.pre.iter().map(rr_json).collect::<Vec<_>>(), "upd": m.upd.iter().map(rr_json).collect::<Vec<_>>()})
}
pub fn msg_from_json(v: &Value) -> UpdMsg {
    UpdMsg {
        pre: v["pre"].as_array().map(|a| a.iter().map(rr_from_json).collect()).unwrap_or_default(),
        upd: v["upd"].as_array().map(|a| a.iter().map(rr_from_json).collect()).unwrap_or_default(),
    }
}

pub fn zone_json(z: &Zone) -> Value {
    let mut rrs = Vec::new();
    for ((n, t), set) in &z.sets {
        for (rd, ttl) in set {
            rrs.push(rr_json(&Rr { owner: n.clone(), rtype: *t, class: C_IN, ttl: *ttl, rdata: rd.clone() }));
        }
    }
    json!({"apex": show(&z.apex), "rrs": rrs})
}
pub fn zone_from_json(v: &Value) -> Zone {
    let mut z = Zone::new(lbl(v["apex"].as_str().unwrap_or("z.")));
    if let Some(a) = v["rrs"].as_array() {
        for r in a {
            let rr = rr_from_json(r);
            z.insert(&rr.owner, rr.rtype, rr.rdata, rr.ttl);
        }
    }
    z
}

// ---------------------------------------------------------------------------------------------
// raw UPDATE / query messages

pub const APEX: &str = "z.";

pub fn apex() -> Labels {
    lbl(APEX)
}

/// unsigned UPDATE message for zone `z.` (ZTYPE SOA, ZCLASS IN)
pub fn update_wire(id: u16, m: &UpdMsg) -> Vec<u8> {
    let mut b = Vec::new();
    refwire::put_header(&mut b, &WHeader { id, flags: 5 << 11, qd: 1, an: m.pre.len() as u16, ns: m.upd.len() as u16, ar: 0 });
    refwire::put_question(&mut b, &apex(), T_SOA, C_IN);
    for rr in m.pre.iter().chain(m.upd.iter()) {
        refwire::put_record(&mut b, &rr.owner, rr.rtype, rr.class, rr.ttl, &rr.rdata);
    }
    b
}

pub fn query_wire(id: u16, name: &Labels, qtype: u16) -> Vec<u8> {
    let mut b = Vec::new();
    refwire::put_header(&mut b, &WHeader { id, flags: 0, qd: 1, an: 0, ns: 0, ar: 0 });
    refwire::put_question(&mut b, name, qtype, C_IN);
    b
}

pub fn signed_update(id: u16, m: &UpdMsg, key: &Key, now: u64) -> Vec<u8> {
    reftsig::sign_request(&update_wire(id, m), key, now, 300)
}

// ---------------------------------------------------------------------------------------------
// handler set-up

pub const DEFAULT_SECRET: &[u8] = b"0123456789abcdef0123456789abcdef";

pub fn default_key() -> Key {
    Key { name: lbl("k."), alg: Alg::Sha256, secret: DEFAULT_SECRET.to_vec() }
}

pub fn hk_alg(a: Alg) -> TsigAlgorithm {
    match a {
        Alg::Sha256 => TsigAlgorithm::HmacSha256,
        Alg::Sha384 => TsigAlgorithm::HmacSha384,
        Alg::Sha512 => TsigAlgorithm::HmacSha512,
    }
}

pub type Handler = SqliteZoneHandler<TokioRuntimeProvider>;

/// A scratch directory with zone file `z.zone`, key files, and (optionally) a journal `z.jrnl`.
pub struct Env {
    pub dir: PathBuf,
    pub keys: Vec<Key>,
    pub fudge: u16,
    /// `allow_update` of the store configuration (true unless a check sets it otherwise)
    pub allow_update: std::cell::Cell<bool>,
}

pub fn scratch_root(prop: &str) -> PathBuf {
    let shm = Path::new("/dev/shm");
    let base = if shm.is_dir() { shm.to_path_buf() } else { PathBuf::from("/verif/run") };
    base.join(format!("vh-{}-{}", prop, std::process::id()))
}

impl Env {
    pub fn new(dir: PathBuf, keys: Vec<Key>) -> Env {
        let _ = std::fs::remove_dir_all(&dir);
        std::fs::create_dir_all(&dir).expect("scratch dir");
        let e = Env { dir, keys, fudge: 300, allow_update: std::cell::Cell::new(true) };
        e.write_keys();
        e
    }

    pub fn write_keys(&self) {
        for (i, k) in self.keys.iter().enumerate() {
            std::fs::write(self.dir.join(format!("k{i}.key")), &k.secret).expect("key file");
        }
    }

    pub fn write_zone(&self, text: &str) {
        std::fs::write(self.dir.join("z.zone"), text).expect("zone file");
    }

    pub fn config(&self, journal: &str) -> SqliteConfig {
        SqliteConfig {
            zone_path: "z.zone".into(),
            journal_path: journal.into(),
            allow_update: self.allow_update.get(),
            tsig_keys: self
                .keys
                .iter()
                .enumerate()
                .map(|(i, k)| TsigKeyConfig { name: show(&k.name), key_file: format!("k{i}.key").into(), algorithm: hk_alg(k.alg), fudge: self.fudge })
                .collect(),
        }
    }

    /// `journal`: file name relative to the dir, or ":memory:"
    pub async fn open(&self, journal: &str, policy: AxfrPolicy) -> Result<Handler, String> {
        Handler::try_from_config(to_name(&apex()), ZoneType::Primary, policy, false, Some(&self.dir), &self.config(journal), None).await
    }

    pub fn cleanup(&self) {
        let _ = std::fs::remove_dir_all(&self.dir);
    }
}

pub fn catalog_for(h: &Arc<Handler>) -> Catalog {
    let mut c = Catalog::new();
    let origin: LowerName = LowerName::from(to_name(&apex()));
    c.upsert(origin, vec![h.clone() as Arc<dyn ZoneHandler>]);
    c
}

pub fn src() -> std::net::SocketAddr {
    "192.0.2.9:5353".parse().unwrap()
}

#[derive(Debug)]
pub enum SendErr {
    Parse(String),
    Panic(PanicRecord),
}

/// Drive one raw request through `Catalog::handle_request::<_, VTime>`; returns the response
/// messages handed to the response handler.
pub fn send(rt: &tokio::runtime::Runtime, cat: &Catalog, bytes: &[u8]) -> Result<Vec<Vec<u8>>, SendErr> {
    let req = match mon::catch(|| Request::from_bytes(bytes.to_vec(), src(), Protocol::Tcp)) {
        Ok(Ok(r)) => r,
        Ok(Err(e)) => return Err(SendErr::Parse(e.to_string())),
        Err(p) => return Err(SendErr::Panic(p)),
    };
    let rec = Rec::default();
    let r2 = rec.clone();
    match mon::catch(|| rt.block_on(async { cat.handle_request::<_, VTime>(&req, r2).await })) {
        Ok(()) => {}
        Err(p) => return Err(SendErr::Panic(p)),
    }
    let v = rec.0.lock().unwrap().clone();
    Ok(v)
}

pub fn rcode_of(resp: &[u8]) -> Option<u8> {
    refwire::read_header(resp).ok().map(|h| h.rcode_low())
}

// ---------------------------------------------------------------------------------------------
// snapshots

pub fn rdata_wire(d: &RData) -> Vec<u8> {
    match d {
        RData::A(a) => a.0.octets().to_vec(),
        RData::NS(n) => name_wire(&fold(&labels_of_name(&n.0))),
        RData::CNAME(n) => name_wire(&fold(&labels_of_name(&n.0))),
        RData::MX(m) => {
            let mut v = m.preference.to_be_bytes().to_vec();
            v.extend(name_wire(&fold(&labels_of_name(&m.exchange))));
            v
        }
        RData::TXT(t) => {
            let mut v = Vec::new();
            for s in t.txt_data.iter() {
                v.push(s.len() as u8);
                v.extend_from_slice(s);
            }
            v
        }
        RData::SOA(s) => {
            let mut v = name_wire(&fold(&labels_of_name(&s.mname)));
            v.extend(name_wire(&fold(&labels_of_name(&s.rname))));
            v.extend_from_slice(&s.serial.to_be_bytes());
            v.extend_from_slice(&(s.refresh as u32).to_be_bytes());
            v.extend_from_slice(&(s.retry as u32).to_be_bytes());
            v.extend_from_slice(&(s.expire as u32).to_be_bytes());
            v.extend_from_slice(&s.minimum.to_be_bytes());
            v
        }
        RData::Update0(_) => Vec::new(),
        other => {
            // types outside the universe (only reachable through malformed forms): hickory's encoder
            let mut buf = Vec::new();
            let mut enc = BinEncoder::new(&mut buf);
            let _ = other.emit(&mut enc);
            buf
        }
    }
}

/// Zone contents as observed through `records()`
#[derive(Clone, Debug, PartialEq, Eq)]
pub struct Snap {
    /// (owner folded, type, class, ttl, rdata) sorted; duplicates preserved
    pub rrs: Vec<(Labels, u16, u16, u32, Vec<u8>)>,
    /// RRsets present in the map with zero records (hidden state; used only to explain divergences)
    pub empties: Vec<RrKey>,
    pub serial: u32,
}

impl Snap {
    pub fn to_zone(&self) -> Zone {
        let mut z = Zone::new(apex());
        for (n, t, _, ttl, rd) in &self.rrs {
            z.insert(n, *t, rd.clone(), *ttl);
        }
        z
    }
    pub fn has_duplicates_or_foreign_class(&self) -> bool {
        let mut seen = std::collections::BTreeSet::new();
        for (n, t, c, _, rd) in &self.rrs {
            if *c != C_IN || !seen.insert((n, t, rd)) {
                return true;
            }
        }
        false
    }
    pub fn lines(&self) -> Vec<String> {
        self.rrs.iter().map(|(n, t, c, ttl, rd)| rr_text(&Rr { owner: n.clone(), rtype: *t, class: *c, ttl: *ttl, rdata: rd.clone() })).collect()
    }
    /// same projection as `Zone::projection_without_serial`
    pub fn projection_without_serial(&self) -> Vec<(Labels, u16, Vec<u8>, u32)> {
        let mut v: Vec<_> = self.rrs.iter().map(|(n, t, _, ttl, rd)| (n.clone(), *t, if *t == T_SOA { soa_without_serial(rd) } else { rd.clone() }, *ttl)).collect();
        v.sort();
        v
    }
}

pub fn snapshot(rt: &tokio::runtime::Runtime, h: &Handler) -> Snap {
    rt.block_on(async {
        let mut rrs = Vec::new();
        let mut empties = Vec::new();
        let recs = h.records().await;
        for (k, set) in recs.iter() {
            let mut n = 0;
            for r in set.records_without_rrsigs() {
                n += 1;
                rrs.push((fold(&labels_of_name(&r.name)), u16::from(r.record_type()), u16::from(r.dns_class), r.ttl, rdata_wire(&r.data)));
            }
            if n == 0 {
                empties.push((fold(&labels_of_name(&Name::from(k.name.clone()))), u16::from(k.record_type)));
            }
        }
        drop(recs);
        rrs.sort();
        let serial = h.serial().await;
        Snap { rrs, empties, serial }
    })
}

// ---------------------------------------------------------------------------------------------
// universe + generators

pub const NAMES: [&str; 5] = ["z.", "a.z.", "b.z.", "a.a.z.", "*.z."];
pub const TYPES: [u16; 6] = [T_A, T_TXT, T_MX, T_CNAME, T_NS, T_SOA];
pub const TTLS: [u32; 2] = [300, 60];

pub fn rdata_values(t: u16, serial: u32) -> Vec<Vec<u8>> {
    match t {
        T_A => vec![rd_a(1), rd_a(2), rd_a(3)],
        T_TXT => vec![rd_txt(&["t1"]), rd_txt(&["t2"]), rd_txt(&["t3", "x"])],
        T_MX => vec![rd_mx(10, "m1.z."), rd_mx(20, "m2.z."), rd_mx(10, "a.z.")],
        T_CNAME => vec![rd_name("a.z."), rd_name("b.z."), rd_name("t.y.")],
        T_NS => vec![rd_name("ns1.z."), rd_name("ns2.z."), rd_name("ns3.z.")],
        T_SOA => soa_values(serial),
        // DNSSEC-related data in an unsigned zone is ordinary data to RFC 2136 (a delegation's DS RRset is
        // maintained by UPDATE in practice): key tag, algorithm 13, digest type 2, 32-octet digest
        T_DS => (0u8..3).map(|i| [&[0x12, 0x68 + i, 13, 2][..], &[0xA0 + i; 32][..]].concat()).collect(),
        _ => vec![vec![1, 2, 3]],
    }
}

/// SOA update candidates relative to the current serial: lower, equal, +1, +7, and a value that is
/// numerically larger but *lower* in RFC 1982 arithmetic (current + 2^31 + 5).
pub fn soa_values(cur: u32) -> Vec<Vec<u8>> {
    let mut v = Vec::new();
    for (i, s) in [cur.wrapping_sub(1), cur, cur.wrapping_add(1), cur.wrapping_add(7), cur.wrapping_add(0x8000_0005)].into_iter().enumerate() {
        if i % 2 == 0 {
            v.push(rd_soa("ns1.z.", "h.z.", s, 3600, 600, 86400, 300));
        } else {
            v.push(rd_soa("ns2.z.", "h.z.", s, 7200, 600, 86400, 60));
        }
    }
    v
}

/// well-formed random initial zone over the universe
pub fn gen_zone(rng: &mut Rng) -> Zone {
    let mut z = Zone::new(apex());
    let serial = match rng.below(16) {
        0 => 0xFFFF_FFFD,
        1 => 0x7FFF_FFF0,
        _ => rng.range(1, 1000) as u32,
    };
    z.insert(&apex(), T_SOA, rd_soa("ns1.z.", "h.z.", serial, 3600, 600, 86400, 300), 300);
    let nsv = rdata_values(T_NS, 0);
    let n_ns = rng.urange(1, 2);
    for i in 0..n_ns {
        z.insert(&apex(), T_NS, nsv[i].clone(), 300);
    }
    for name in NAMES {
        let owner = lbl(name);
        let is_apex = name == "z.";
        // number of RRsets at this name
        let k = if is_apex { rng.urange(0, 2) } else { [0, 0, 1, 1, 2, 3][rng.usize_below(6)] };
        if !is_apex && k > 0 && rng.chance(1, 5) {
            let cv = rdata_values(T_CNAME, 0);
            z.insert(&owner, T_CNAME, rng.pick(&cv).clone(), *rng.pick(&TTLS));
            continue;
        }
        for _ in 0..k {
            let t = *rng.pick(&[T_A, T_A, T_TXT, T_MX, T_NS]);
            if is_apex && t == T_NS {
                continue;
            }
            let vals = rdata_values(t, 0);
            let ttl = *rng.pick(&TTLS);
            let n = rng.urange(1, 2);
            for _ in 0..n {
                z.insert(&owner, t, rng.pick(&vals).clone(), ttl);
            }
            // one TTL per RRset in the initial zone
            if let Some(s) = z.sets.get_mut(&(fold(&owner), t)) {
                for v in s.values_mut() {
                    *v = ttl;
                }
            }
        }
    }
    z
}

fn pick_name(rng: &mut Rng) -> Labels {
    let n = lbl(NAMES[rng.usize_below(NAMES.len())]);
    if rng.chance(1, 12) {
        // owner names compare case-insensitively
        n.iter().map(|l| l.to_ascii_uppercase()).collect()
    } else {
        n
    }
}

fn pick_type(rng: &mut Rng) -> u16 {
    [T_A, T_A, T_TXT, T_MX, T_CNAME, T_NS, T_NS, T_SOA, T_A, T_DS][rng.usize_below(10)]
}

fn existing_keys(z: &Zone) -> Vec<RrKey> {
    z.sets.iter().filter(|(_, s)| !s.is_empty()).map(|(k, _)| k.clone()).collect()
}

pub fn pre_form(rr: &Rr) -> &'static str {
    match (rr.class, rr.rtype, rr.rdata.is_empty(), rr.ttl) {
        (C_ANY, T_ANY, true, 0) => "name-in-use",
        (C_ANY, _, true, 0) => "rrset-exists",
        (C_NONE, T_ANY, true, 0) => "name-not-in-use",
        (C_NONE, _, true, 0) => "rrset-not-exists",
        (C_IN, t, false, 0) if t != T_ANY => "rrset-equals",
        _ => "malformed",
    }
}

pub fn upd_form(rr: &Rr) -> &'static str {
    match (rr.class, rr.rtype, rr.rdata.is_empty(), rr.ttl) {
        (C_ANY, T_ANY, true, 0) => "delete-name",
        (C_ANY, t, true, 0) if !matches!(t, T_AXFR | T_IXFR | T_MAILA | T_MAILB) => "delete-rrset",
        (C_NONE, t, false, 0) if !matches!(t, T_ANY | T_AXFR | T_IXFR | T_MAILA | T_MAILB) => "delete-rr",
        (C_IN, t, false, _) if !matches!(t, T_ANY | T_AXFR | T_IXFR | T_MAILA | T_MAILB) => "add",
        _ => "malformed",
    }
}

fn gen_prereq(rng: &mut Rng, z: &Zone) -> Vec<Rr> {
    let serial = z.serial().unwrap_or(1);
    let keys = existing_keys(z);
    let aware = rng.bool();
    let form = rng.weighted(&[18, 18, 18, 18, 18, 10]);
    let mut owner = pick_name(rng);
    let mut rtype = pick_type(rng);
    let mk = |owner: &Labels, rtype: u16, class: u16, ttl: u32, rdata: Vec<u8>| Rr { owner: owner.clone(), rtype, class, ttl, rdata };
    match form {
        0 => {
            if aware && !keys.is_empty() {
                owner = rng.pick(&keys).0.clone();
            }
            vec![mk(&owner, T_ANY, C_ANY, 0, vec![])]
        }
        1 => {
            if aware && !keys.is_empty() {
                let k = rng.pick(&keys);
                owner = k.0.clone();
                rtype = k.1;
            }
            vec![mk(&owner, rtype, C_ANY, 0, vec![])]
        }
        2 => {
            if aware {
                for _ in 0..4 {
                    if !z.name_in_use(&owner) {
                        break;
                    }
                    owner = pick_name(rng);
                }
            }
            vec![mk(&owner, T_ANY, C_NONE, 0, vec![])]
        }
        3 => {
            if aware {
                for _ in 0..4 {
                    if z.rrset(&owner, rtype).is_none() {
                        break;
                    }
                    owner = pick_name(rng);
                    rtype = pick_type(rng);
                }
            }
            vec![mk(&owner, rtype, C_NONE, 0, vec![])]
        }
        4 => {
            // value dependent: exact / subset / superset / other value
            if !keys.is_empty() && rng.chance(4, 5) {
                let k = rng.pick(&keys).clone();
                let set: Vec<Vec<u8>> = z.sets[&k].keys().cloned().collect();
                let mut want = set.clone();
                match rng.below(6) {
                    0 | 1 | 2 => {}
                    3 => {
                        if want.len() > 1 {
                            let i = rng.usize_below(want.len());
                            want.remove(i);
                        } else {
                            want = vec![rng.pick(&rdata_values(k.1, serial)).clone()];
                        }
                    }
                    4 => {
                        let extra = rng.pick(&rdata_values(k.1, serial)).clone();
                        if !want.contains(&extra) {
                            want.push(extra);
                        }
                    }
                    _ => want = vec![rng.pick(&rdata_values(k.1, serial)).clone()],
                }
                rng.shuffle(&mut want);
                want.into_iter().map(|rd| mk(&k.0, k.1, C_IN, 0, rd)).collect()
            } else {
                let rd = rng.pick(&rdata_values(rtype, serial)).clone();
                vec![mk(&owner, rtype, C_IN, 0, rd)]
            }
        }
        _ => {
            let rd = rng.pick(&rdata_values(rtype, serial)).clone();
            match rng.below(6) {
                0 => vec![mk(&owner, rtype, C_ANY, 5, vec![])],
                1 => vec![mk(&owner, rtype, C_CH, 0, rd)],
                2 => vec![mk(&owner, rtype, C_ANY, 0, rd)],
                3 => vec![mk(&owner, rtype, C_NONE, 0, rd)],
                4 => vec![mk(&lbl(*rng.pick(&["y.", "a.y.", "zz."])), T_ANY, C_ANY, 0, vec![])],
                _ => vec![mk(&owner, rtype, C_IN, 7, rd)],
            }
        }
    }
}

fn gen_update_rr(rng: &mut Rng, z: &Zone, malformed_weight: u32) -> Rr {
    let serial = z.serial().unwrap_or(1);
    let keys = existing_keys(z);
    let aware = rng.chance(3, 5);
    let mut owner = pick_name(rng);
    let mut rtype = pick_type(rng);
    let mk = |owner: &Labels, rtype: u16, class: u16, ttl: u32, rdata: Vec<u8>| Rr { owner: owner.clone(), rtype, class, ttl, rdata };
    match rng.weighted(&[45, 17, 14, 9, malformed_weight]) {
        0 => {
            if rtype == T_SOA && rng.chance(4, 5) {
                owner = apex();
            }
            let mut rd = rng.pick(&rdata_values(rtype, serial)).clone();
            let ttl = *rng.pick(&TTLS);
            if aware && rng.chance(1, 4) && !keys.is_empty() {
                // existing RDATA (possibly with another TTL)
                let k = rng.pick(&keys).clone();
                if k.1 != T_SOA {
                    owner = k.0.clone();
                    rtype = k.1;
                    let set: Vec<&Vec<u8>> = z.sets[&k].keys().collect();
                    rd = (*rng.pick(&set)).clone();
                }
            }
            mk(&owner, rtype, C_IN, ttl, rd)
        }
        1 => {
            let mut rd = rng.pick(&rdata_values(rtype, serial)).clone();
            if aware && !keys.is_empty() {
                let k = rng.pick(&keys).clone();
                owner = k.0.clone();
                rtype = k.1;
                let set: Vec<&Vec<u8>> = z.sets[&k].keys().collect();
                rd = (*rng.pick(&set)).clone();
            }
            mk(&owner, rtype, C_NONE, 0, rd)
        }
        2 => {
            if aware && !keys.is_empty() {
                let k = rng.pick(&keys);
                owner = k.0.clone();
                rtype = k.1;
            }
            mk(&owner, rtype, C_ANY, 0, vec![])
        }
        3 => {
            if aware && !keys.is_empty() {
                owner = rng.pick(&keys).0.clone();
            }
            mk(&owner, T_ANY, C_ANY, 0, vec![])
        }
        _ => {
            let rd = rng.pick(&rdata_values(rtype, serial)).clone();
            match rng.below(10) {
                0 => mk(&owner, rtype, C_ANY, 9, vec![]),
                1 => mk(&owner, rtype, C_NONE, 9, rd),
                2 => mk(&owner, rtype, C_CH, 300, rd),
                3 => mk(&owner, *rng.pick(&[T_ANY, T_AXFR, T_IXFR]), C_IN, 300, vec![1, 2, 3, 4]),
                4 => mk(&owner, *rng.pick(&[T_MAILB, T_MAILA]), C_IN, 300, vec![1, 2, 3, 4]),
                5 => mk(&owner, *rng.pick(&[T_ANY, T_AXFR]), C_NONE, 0, vec![1, 2, 3, 4]),
                6 => mk(&owner, *rng.pick(&[T_AXFR, T_IXFR]), C_ANY, 0, vec![]),
                7 => mk(&lbl(*rng.pick(&["y.", "a.y.", "zz."])), rtype, C_IN, 300, rd),
                8 => mk(&owner, rtype, C_ANY, 0, rd),
                _ => mk(&owner, T_ANY, C_ANY, 0, vec![0]),
            }
        }
    }
}

pub fn gen_message(rng: &mut Rng, z: &Zone) -> UpdMsg {
    let mut pre = Vec::new();
    for _ in 0..rng.weighted(&[40, 35, 20, 5]) {
        pre.extend(gen_prereq(rng, z));
    }
    let n_upd = rng.weighted(&[4, 44, 26, 16, 10]);
    // about one message in seven carries a malformed update RR
    let mw = if rng.chance(1, 7) { 40 } else { 0 };
    let mut upd = Vec::new();
    for _ in 0..n_upd {
        upd.push(gen_update_rr(rng, z, mw));
    }
    UpdMsg { pre, upd }
}
