//! Limit schedule: the recursion limits judged exactly.
//!
//! Dedicated, honest delegation graphs (one server per zone, no filters, no injections) are run
//! under `recursion_limit` / `ns_recursion_limit` drawn from {1, 2, 3, 8, 24, 255}:
//!
//!  * acyclic graphs (`alias-chain`: k alias hops alternating between two zones, every hop its
//!    own upstream query; `glueless-chain`: n zones whose only name-server name lives in the next
//!    zone, glue only at the end) of exactly kmax-1, kmax, kmax+1 elements and "endless" ones,
//!    where kmax is the longest chain the configured limits let through. How deep resolution got
//!    is visible on the network (which chain links were asked for upstream), so the depth is
//!    judged EXACTLY against a plain-typed model (`Sim`) - rule `depth-exact`, signature
//!    `depth|<graph kind>|limit=<binding limit>|over` (went deeper than the limit allows /
//!    resolved although it must not) or `...|under`.
//!  * cyclic graphs (CNAME loop, CNAME self loop, NS loop between two glueless zones, glueless
//!    3-cycle, self-referential delegation, in-zone glueless NS) are run as a *family* over the
//!    whole limit schedule: every member must end (Ok or Err, no panic, no virtual-time hang), the
//!    number of upstream datagrams must be a non-decreasing function of the limit and stay below
//!    c*limit + d with (c, d) measured on small limits - rule `depth-growth`, signature
//!    `depth|<graph kind>|limit=<n>|over`, or `...|non-monotonic`.
//!
//! Reading of "limit" (see `Sim`): the documentation says "Maximum recursion depth ... Setting to
//! 0 will fail all requests requiring recursion" and leaves open what one unit of depth is and
//! whether the outermost request counts. Calibrated on the unchanged tree: depth is ONE counter
//! per top-level request; it is advanced by every name-server-pool level that is not in the
//! name-server cache (compared with `ns_recursion_limit`) and by every response that needs alias
//! chasing (compared with `recursion_limit`); a step is refused when the advanced counter reaches
//! the limit, i.e. limit L admits counter values 1..L-1 (the outermost request is level 0 and
//! counts). `MAX_CNAME_LOOKUPS` = 64 alias lookups per top-level request is the second, fixed cap.

use std::collections::{BTreeMap, BTreeSet};

use hickory_proto::op::ResponseCode;
use serde_json::{json, Value};

use vh::mon::{Ctx, Reporter};
use vh::prng::{fnv64, Rng};

use crate::gen::LIMIT_VALUES;
use crate::net::{genuine, Resp};
use crate::world::{is_sub, labels, Opts, Rec, Server, World, Zone};
use crate::{Outcome, WorldRun};

pub const EXACT_KINDS: &[&str] = &["alias-chain", "glueless-chain"];
pub const CYCLE_KINDS: &[&str] = &["cname-loop", "cname-self", "ns-loop", "glueless-cycle3", "self-referral", "glueless-self"];
pub const RELS: &[&str] = &["limit-1", "limit", "limit+1", "endless"];
const MAX_CNAME_LOOKUPS: u32 = 64;

// ---------------------------------------------------------------------------------------------
// the model

#[derive(Clone, Debug, PartialEq)]
enum Fail {
    Limit,
    CnameCap,
    NxDomain,
    Other,
}

/// Plain-typed model of the recursor's depth accounting on an honest world (see module docs).
/// It shares the simulated authoritative servers (`net::genuine`, harness code) with the run, not
/// a line of hickory.
struct Sim<'a> {
    w: &'a World,
    rec: u32,
    ns: u32,
    relaxed: bool,
    /// name-server cache: zone -> server addresses (possibly none)
    pools: BTreeMap<String, Vec<String>>,
    /// response cache: (name, type) -> Some(response) | None (an error was cached)
    cache: BTreeMap<(String, String), Option<(bool, Vec<Rec>)>>,
    cname_count: u32,
    /// upstream queries of the current top-level request
    sent: Vec<(String, String)>,
}

fn positive(r: &Resp, qname: &str, qtype: &str) -> bool {
    // DnsError::from_response: NoError / NXDomain without anything that answers the question is
    // the error form
    match r.rcode {
        ResponseCode::NoError | ResponseCode::NXDomain => !r.ans.is_empty() || r.auth.iter().chain(r.add.iter()).any(|x| x.rtype == qtype && x.owner == qname),
        _ => false,
    }
}

impl<'a> Sim<'a> {
    fn new(w: &'a World, rec: u8, ns: u8) -> Sim<'a> {
        Sim { w, rec: rec as u32, ns: ns as u32, relaxed: w.opts.relaxed_qmin, pools: BTreeMap::new(), cache: BTreeMap::new(), cname_count: 0, sent: vec![] }
    }

    /// one upstream query to the first server of `ips`; None = no usable server / lame
    fn ask(&mut self, ips: &[String], qname: &str, qtype: &str) -> Option<Resp> {
        let ip = ips.first()?;
        let s: &Server = self.w.server(ip)?;
        self.sent.push((qname.to_string(), qtype.to_string()));
        genuine(self.w, s, qname, qtype)
    }

    /// `RecursorDnsHandle::lookup`: upstream query + response cache; Err(fail) for the error form
    fn lookup(&mut self, ips: &[String], qname: &str, qtype: &str) -> Result<(bool, Vec<Rec>), Fail> {
        let key = (qname.to_string(), qtype.to_string());
        match self.ask(ips, qname, qtype) {
            None => Err(Fail::Other), // nothing is cached for transport level failures
            Some(r) if positive(&r, qname, qtype) => {
                let all: Vec<Rec> = r.ans.iter().chain(r.auth.iter()).chain(r.add.iter()).cloned().collect();
                self.cache.insert(key, Some((r.aa, all.clone())));
                Ok((r.aa, all))
            }
            Some(r) => {
                let nx = r.rcode == ResponseCode::NXDomain;
                let dns_error = matches!(r.rcode, ResponseCode::NoError | ResponseCode::NXDomain);
                if dns_error {
                    self.cache.insert(key, None);
                }
                Err(if nx { Fail::NxDomain } else { Fail::Other })
            }
        }
    }

    fn ns_pool(&mut self, name: &str, mut d: u32) -> Result<(u32, Vec<String>), Fail> {
        let labs = labels(name);
        let mut cur: Vec<String> = self.w.roots.clone();
        for i in 1..=labs.len() {
            let zone = format!("{}.", labs[labs.len() - i..].join("."));
            if let Some(ips) = self.pools.get(&zone) {
                cur = ips.clone();
                continue;
            }
            d += 1;
            if d >= self.ns {
                return Err(Fail::Limit);
            }
            let key = (zone.clone(), "NS".to_string());
            let res = match self.cache.get(&key) {
                Some(Some(r)) => Ok(r.clone()),
                Some(None) => Err(Fail::Other),
                None => self.lookup(&cur.clone(), &zone, "NS"),
            };
            let recs = match res {
                Ok((_, recs)) => recs,
                Err(Fail::NxDomain) if !self.relaxed => return Err(Fail::NxDomain),
                Err(_) => continue,
            };
            if !recs.iter().any(|r| r.rtype == "NS" && r.owner == zone) {
                continue;
            }
            let mut ips: Vec<String> = vec![];
            let mut need: Vec<String> = vec![];
            for nsr in recs.iter().filter(|r| r.rtype == "NS") {
                let mut glue: Vec<String> = recs.iter().filter(|g| (g.rtype == "A" || g.rtype == "AAAA") && g.owner == nsr.data).map(|g| g.data.clone()).collect();
                for t in ["A", "AAAA"] {
                    if let Some(Some((_, c))) = self.cache.get(&(nsr.data.clone(), t.to_string())) {
                        glue.extend(c.iter().filter(|g| (g.rtype == "A" || g.rtype == "AAAA") && g.owner == nsr.data).map(|g| g.data.clone()));
                    }
                }
                if glue.is_empty() {
                    need.push(nsr.data.clone());
                } else {
                    for g in glue {
                        if !ips.contains(&g) {
                            ips.push(g);
                        }
                    }
                }
            }
            if ips.is_empty() && !need.is_empty() {
                let mut pools: Vec<(Vec<String>, String)> = vec![];
                for n in &need {
                    let pool = if !is_sub(n, &zone) {
                        match self.ns_pool(n, d) {
                            Ok((_, p)) => p,
                            Err(_) => continue,
                        }
                    } else {
                        cur.clone()
                    };
                    pools.push((pool, n.clone()));
                }
                for (pool, n) in pools {
                    for t in ["A", "AAAA"] {
                        if let Some(r) = self.ask(&pool, &n, t) {
                            if positive(&r, &n, t) {
                                ips.extend(r.ans.iter().filter(|x| x.rtype == "A" || x.rtype == "AAAA").map(|x| x.data.clone()));
                            }
                        }
                    }
                }
            }
            self.pools.insert(zone.clone(), ips.clone());
            cur = ips;
        }
        Ok((d, cur))
    }

    fn resolve(&mut self, name: &str, qtype: &str, d: u32) -> Result<(), Fail> {
        let key = (name.to_string(), qtype.to_string());
        match self.cache.get(&key).cloned() {
            Some(None) => return Err(Fail::Other),
            Some(Some((true, recs))) => return self.cnames(&recs, qtype, d),
            _ => {}
        }
        let (d, ips) = self.ns_pool(name, d)?;
        let recs = match self.cache.get(&key).cloned() {
            Some(None) => return Err(Fail::Other),
            Some(Some((true, recs))) => recs,
            _ => self.lookup(&ips, name, qtype)?.1,
        };
        self.cnames(&recs, qtype, d)
    }

    fn cnames(&mut self, recs: &[Rec], qtype: &str, mut d: u32) -> Result<(), Fail> {
        if qtype == "CNAME" || !recs.iter().any(|r| r.rtype == "CNAME") {
            return Ok(());
        }
        d += 1;
        if d >= self.rec {
            return Err(Fail::Limit);
        }
        for c in recs.iter().filter(|r| r.rtype == "CNAME") {
            if recs.iter().any(|r| r.owner == c.data) {
                // the response already carries data for the canonical name (only answer-section
                // records count in hickory; the honest servers put nothing else anywhere)
                continue;
            }
            self.cname_count += 1;
            if self.cname_count > MAX_CNAME_LOOKUPS {
                return Err(Fail::CnameCap);
            }
            self.resolve(&c.data, qtype, d)?;
        }
        Ok(())
    }

    /// run all queries of the world in order; returns (ok, upstream queries) of the last one
    fn run(mut self) -> (bool, Vec<(String, String)>) {
        let mut last = (false, vec![]);
        for (n, t) in &self.w.queries {
            self.sent.clear();
            self.cname_count = 0;
            let ok = self.resolve(n, t, 0).is_ok();
            last = (ok, self.sent.clone());
        }
        last
    }
}

// ---------------------------------------------------------------------------------------------
// graphs

#[derive(Clone)]
pub struct Case {
    pub kind: String,
    /// limit-1 | limit | limit+1 | endless | cycle
    pub rel: String,
    /// chain length (exact kinds) / name-server names per zone (cycle kinds)
    pub k: usize,
    /// (recursion_limit, ns_recursion_limit) of every member of the family
    pub runs: Vec<(u8, u8)>,
    /// queries = warm-up queries followed by the judged target (last)
    pub world: World,
}

impl Case {
    fn json(&self) -> Value {
        json!({"depth": {"kind": self.kind, "rel": self.rel, "k": self.k, "runs": self.runs.iter().map(|(a, b)| json!([a, b])).collect::<Vec<_>>(), "world": self.world.to_json()}})
    }
    fn from(v: &Value) -> Option<Case> {
        let d = &v["depth"];
        Some(Case {
            kind: d["kind"].as_str()?.to_string(),
            rel: d["rel"].as_str().unwrap_or("").to_string(),
            k: d["k"].as_u64().unwrap_or(0) as usize,
            runs: d["runs"].as_array()?.iter().filter_map(|p| Some((p[0].as_u64()? as u8, p[1].as_u64()? as u8))).collect(),
            world: World::from_json(&d["world"])?,
        })
    }
}

pub(crate) struct B {
    pub(crate) w: World,
    next: u32,
}

impl B {
    pub(crate) fn new(rng: &mut Rng) -> B {
        let w = World {
            roots: vec![],
            zones: vec![Zone { apex: ".".into(), recs: vec![] }],
            servers: vec![],
            opts: Opts {
                recursion_limit: 24,
                ns_recursion_limit: 24,
                deny_server: vec![],
                allow_server: vec![],
                deny_answers: vec![],
                allow_answers: vec![],
                case_randomization: rng.chance(1, 4),
                relaxed_qmin: rng.chance(1, 3),
            },
            queries: vec![],
            tags: vec!["depth".into()],
            fan: None,
        };
        let mut b = B { w, next: 0 };
        let ip = b.ip();
        b.serve(&ip, ".");
        b.w.roots.push(ip);
        b
    }
    fn ip(&mut self) -> String {
        self.next += 1;
        format!("10.53.{}.{}", self.next / 250, self.next % 250 + 1)
    }
    fn serve(&mut self, ip: &str, zone: &str) {
        let s = self.w.server_mut(ip);
        s.zones = vec![zone.to_string()];
        s.lame = "refused".into();
    }
    pub(crate) fn add(&mut self, zone: &str, owner: &str, rtype: &str, data: &str) {
        let r = Rec::new(owner, rtype, data);
        let z = self.w.zone_mut(zone);
        if !z.recs.contains(&r) {
            z.recs.push(r);
        }
    }
    /// ordinary delegation with in-zone glue; returns the server address
    pub(crate) fn solid(&mut self, parent: &str, child: &str) -> String {
        let ip = self.ip();
        let nsn = format!("ns1.{child}");
        self.add(parent, child, "NS", &nsn);
        self.add(parent, &nsn, "A", &ip);
        self.add(child, child, "NS", &nsn);
        self.add(child, &nsn, "A", &ip);
        self.add(child, &format!("www.{child}"), "A", "198.51.100.7");
        self.serve(&ip, child);
        ip
    }
    fn warm(&mut self, name: &str) {
        // three times: with ns_recursion_limit 2 and 3 every attempt gets one level further
        for _ in 0..3 {
            self.w.queries.push((name.to_string(), "A".to_string()));
        }
    }
}

pub(crate) fn tlds(rng: &mut Rng, b: &mut B) -> Vec<String> {
    let mut tl = vec!["com.", "org.", "net."];
    rng.shuffle(&mut tl);
    let n = rng.urange(1, 2);
    let v: Vec<String> = tl[..n].iter().map(|s| s.to_string()).collect();
    for t in &v {
        b.solid(".", t);
    }
    v
}

/// alias chain of k hops c0 -> c1 -> ... -> www.<z0>, links alternating between two zones
fn alias_chain(rng: &mut Rng, k: usize) -> World {
    let mut b = B::new(rng);
    let t = tlds(rng, &mut b);
    let z = [format!("alfa.{}", t[0]), format!("bravo.{}", t[t.len() - 1])];
    b.solid(&parent(&z[0]), &z[0]);
    b.solid(&parent(&z[1]), &z[1]);
    for i in 0..k {
        let here = format!("c{i}.{}", z[i % 2]);
        let next = if i + 1 == k { format!("www.{}", z[0]) } else { format!("c{}.{}", i + 1, z[(i + 1) % 2]) };
        b.add(&z[i % 2].clone(), &here, "CNAME", &next);
    }
    if rng.bool() {
        b.warm(&format!("www.{}", z[0]));
        b.warm(&format!("www.{}", z[1]));
    }
    b.w.queries.push((format!("c0.{}", z[0]), "A".into()));
    b.w
}

/// glueless chain: g0 NS n0.g1 (no glue), g1 NS n1.g2 (no glue), ..., g<n> NS n<n>.g<n> with
/// glue; the address of n<j>.g<j+1> (data of zone g<j+1>) is the server of zone g<j>
fn glueless_chain(rng: &mut Rng, n: usize) -> World {
    let mut b = B::new(rng);
    let t = tlds(rng, &mut b);
    let zone = |j: usize| format!("g{j}.{}", t[j % t.len()]);
    for j in 0..=n {
        let z = zone(j);
        let p = parent(&z);
        let ip = b.ip();
        let host = if j == n { z.clone() } else { zone(j + 1) };
        let nsn = format!("n{j}.{host}");
        b.add(&p, &z, "NS", &nsn);
        b.add(&z, &z, "NS", &nsn);
        if j == n {
            b.add(&p, &nsn, "A", &ip);
        }
        b.add(&host, &nsn, "A", &ip);
        b.add(&z, &format!("www.{z}"), "A", "198.51.100.8");
        b.serve(&ip, &z);
    }
    if rng.bool() {
        for tt in &t {
            b.add(tt, &format!("www.{tt}"), "A", "198.51.100.9");
            b.warm(&format!("www.{tt}"));
        }
    }
    b.w.queries.push((format!("www.{}", zone(0)), "A".into()));
    b.w
}

fn parent(z: &str) -> String {
    crate::world::parent_of(z)
}

fn cycle(rng: &mut Rng, kind: &str, fan: usize) -> World {
    let mut b = B::new(rng);
    let t = tlds(rng, &mut b);
    let t0 = t[0].clone();
    let t1 = t[t.len() - 1].clone();
    let target;
    match kind {
        "cname-loop" => {
            let (z1, z2) = (format!("alfa.{t0}"), format!("bravo.{t1}"));
            b.solid(&t0, &z1);
            b.solid(&t1, &z2);
            b.add(&z1, &format!("loop1.{z1}"), "CNAME", &format!("loop2.{z2}"));
            b.add(&z2, &format!("loop2.{z2}"), "CNAME", &format!("loop1.{z1}"));
            target = format!("loop1.{z1}");
        }
        "cname-self" => {
            let z1 = format!("alfa.{t0}");
            b.solid(&t0, &z1);
            b.add(&z1, &format!("self.{z1}"), "CNAME", &format!("self.{z1}"));
            target = format!("self.{z1}");
        }
        "ns-loop" | "glueless-cycle3" => {
            let n = if kind == "ns-loop" { 2 } else { 3 };
            let zs: Vec<String> = (0..n).map(|j| format!("{}.{}", ["papa", "quebec", "romeo"][j], if j % 2 == 0 { &t0 } else { &t1 })).collect();
            for j in 0..n {
                let z = zs[j].clone();
                let nx = zs[(j + 1) % n].clone();
                let ip = b.ip();
                for f in 0..fan {
                    let nsn = format!("ns{f}.{nx}");
                    b.add(&parent(&z), &z, "NS", &nsn);
                    b.add(&z, &z, "NS", &nsn);
                    // the address exists, but only inside a zone of the cycle
                    b.add(&nx, &nsn, "A", &ip);
                }
                b.add(&z, &format!("www.{z}"), "A", "198.51.100.10");
                b.serve(&ip, &z);
            }
            target = format!("www.{}", zs[0]);
        }
        "self-referral" => {
            let p = format!("alfa.{t0}");
            let ip = b.solid(&t0, &p);
            let c = format!("selfref.{p}");
            for f in 0..fan {
                b.add(&p, &c, "NS", &format!("ns{f}.{c}"));
                b.add(&p, &format!("ns{f}.{c}"), "A", &ip);
            }
            target = format!("www.{c}");
        }
        _ => {
            // in-zone name-server names without glue
            let z = format!("golf.{t0}");
            let ip = b.ip();
            for f in 0..fan {
                b.add(&t0, &z, "NS", &format!("ns{f}.{z}"));
                b.add(&z, &z, "NS", &format!("ns{f}.{z}"));
                b.add(&z, &format!("ns{f}.{z}"), "A", &ip);
            }
            b.add(&z, &format!("www.{z}"), "A", "198.51.100.11");
            b.serve(&ip, &z);
            target = format!("www.{z}");
        }
    }
    // cycles: the first (cold) request is the one whose traffic is compared over the family;
    // the repeats run on warm caches (termination, budget)
    b.w.queries.push((target.clone(), "A".into()));
    for _ in 0..rng.urange(0, 2) {
        b.w.queries.push((target.clone(), "A".into()));
    }
    b.w
}

/// longest chain of `kind` that resolves under (rec, ns) according to the model; `build(k)` must
/// be deterministic in everything but k
fn kmax(build: &dyn Fn(usize) -> World, rec: u8, ns: u8, upto: usize) -> usize {
    // the model is monotone in the chain length: binary search for the last length that resolves
    let ok = |k: usize| Sim::new(&build(k), rec, ns).run().0;
    if !ok(1) {
        return 0;
    }
    let (mut lo, mut hi) = (1, upto);
    if ok(hi) {
        return hi;
    }
    while hi - lo > 1 {
        let mid = (lo + hi) / 2;
        if ok(mid) {
            lo = mid;
        } else {
            hi = mid;
        }
    }
    lo
}

pub fn gen_case(rng: &mut Rng, idx: u64) -> Case {
    let nl = LIMIT_VALUES.len();
    let slot = (idx % 16) as usize;
    if slot < 12 {
        // exact kinds: 2 kinds x 36 limit pairs x 4 relative lengths
        let e = idx / 16 * 12 + slot as u64;
        let kind = EXACT_KINDS[(e % 2) as usize];
        let rel = RELS[(e / 2 % 4) as usize];
        let p = (e / 8) as usize % (nl * nl);
        // the binding limit walks the schedule fastest
        let (rec, ns) = if kind == "alias-chain" { (LIMIT_VALUES[p % nl], LIMIT_VALUES[p / nl]) } else { (LIMIT_VALUES[p / nl], LIMIT_VALUES[p % nl]) };
        let seed = rng.next_u64();
        let build = |k: usize| -> World {
            let mut r = Rng::new(seed);
            if kind == "alias-chain" {
                alias_chain(&mut r, k)
            } else {
                glueless_chain(&mut r, k)
            }
        };
        let km = kmax(&build, rec, ns, 300);
        let k = match rel {
            "limit-1" => km.saturating_sub(1).max(1),
            "limit" => km.max(1),
            "limit+1" => km + 1,
            _ => km + 3 + rng.usize_below(12),
        };
        Case { kind: kind.to_string(), rel: rel.to_string(), k, runs: vec![(rec, ns)], world: build(k) }
    } else {
        let c = idx / 16 * 4 + (slot as u64 - 12);
        let kind = CYCLE_KINDS[(c % CYCLE_KINDS.len() as u64) as usize];
        let fan = 1 + (c / CYCLE_KINDS.len() as u64 % 2) as usize;
        let mut runs: Vec<(u8, u8)> = LIMIT_VALUES.iter().map(|l| (*l, *l)).collect();
        // mixed pairs: one limit at u8::MAX / default, the other anywhere
        let a = *rng.pick(LIMIT_VALUES);
        runs.push((255, a));
        runs.push((a, 255));
        runs.push((24, *rng.pick(LIMIT_VALUES)));
        Case { kind: kind.to_string(), rel: "cycle".into(), k: fan, runs, world: cycle(rng, kind, fan) }
    }
}

// ---------------------------------------------------------------------------------------------
// judgement

/// chain elements visible upstream: alias links `c<i>.*` asked with the target type, or
/// glueless-chain zones `g<j>.*` asked for NS
fn elements(kind: &str, sent: &[(String, String)]) -> BTreeSet<String> {
    let num = |l: &str, p: char| l.strip_prefix(p).map(|d| !d.is_empty() && d.bytes().all(|b| b.is_ascii_digit())).unwrap_or(false);
    sent.iter()
        .filter(|(n, t)| {
            let l = labels(n);
            match kind {
                "alias-chain" => t == "A" && l.first().map(|x| num(x, 'c')).unwrap_or(false),
                _ => t == "NS" && l.len() == 2 && num(l[0], 'g'),
            }
        })
        .map(|(n, _)| n.clone())
        .collect()
}

/// upper bound c*L + d on the upstream datagrams of one cold top-level request into a cycle,
/// L = max(recursion_limit, ns_recursion_limit); (c, d) measured on the unchanged tree at limits
/// 1..24 (the traffic saturates once the cycle is closed: everything else comes from the caches)
fn growth_bound(kind: &str, fan: usize) -> (u64, u64) {
    // measured maxima at seeds 1..5 (all limits, 1-2 TLDs): cname-loop 8, cname-self 4, ns-loop 4,
    // glueless-cycle3 5, self-referral 5, glueless-self 4 (one name) / 6 (two names); + 2 slack.
    // The slope is 0: once the cycle is closed everything comes from the caches.
    match kind {
        "cname-loop" => (0, 10),
        "cname-self" => (0, 6),
        "ns-loop" => (0, 6),
        "glueless-cycle3" => (0, 7),
        "self-referral" => (0, 7),
        _ => (0, 4 + 2 * fan as u64),
    }
}

fn outcome_tag(o: &Outcome) -> &'static str {
    match o {
        Outcome::Ok(_) => "ok",
        Outcome::Err(_) => "err",
        Outcome::VirtualTimeout => "virtual-timeout",
    }
}

pub fn do_case(c: &Case, rep: &mut Reporter, cidx: u64) {
    let exact = EXACT_KINDS.contains(&c.kind.as_str());
    let target_top = if exact { c.world.queries.len().saturating_sub(1) } else { 0 };
    let mut family: Vec<(u8, u8, u64, &'static str)> = vec![];
    let mut complete = true;
    for (rec, ns) in &c.runs {
        let mut w = c.world.clone();
        w.opts.recursion_limit = *rec;
        w.opts.ns_recursion_limit = *ns;
        // generic clauses (panic, virtual time, datagram budget, filters) on the very same run
        let Some(run): Option<WorldRun> = crate::do_world(&w, rep, cidx) else {
            complete = false;
            continue;
        };
        let Some(tr) = run.tops.get(target_top) else {
            complete = false;
            continue;
        };
        rep.count(&format!("depth_runs/{}/rec={rec}", c.kind));
        rep.count(&format!("depth_runs/{}/ns={ns}", c.kind));
        rep.count(&format!("depth_outcome/{}/{}", c.kind, outcome_tag(&tr.outcome)));
        family.push((*rec, *ns, tr.sent, outcome_tag(&tr.outcome)));
        if !exact {
            continue;
        }
        // ---- exact depth
        rep.eval();
        let (exp_ok, exp_sent) = Sim::new(&w, *rec, *ns).run();
        let st = run.net.st.lock().unwrap();
        let obs_sent: Vec<(String, String)> = st.log.iter().filter(|x| x.top == target_top && !x.tcp).map(|x| (x.qname.clone(), x.qtype.clone())).collect();
        drop(st);
        let exp_el = elements(&c.kind, &exp_sent);
        let obs_el = elements(&c.kind, &obs_sent);
        let obs_ok = matches!(tr.outcome, Outcome::Ok(_));
        // which limit binds: the one whose increase lets the model get further
        let differs = |r: u8, n: u8| {
            let (ok, s) = Sim::new(&w, r, n).run();
            ok != exp_ok || elements(&c.kind, &s).len() != exp_el.len()
        };
        let (r_up, n_up) = (differs(rec.saturating_add(1), *ns), differs(*rec, ns.saturating_add(1)));
        let binding = match (r_up, n_up) {
            (true, false) => *rec,
            (false, true) => *ns,
            _ if c.kind == "alias-chain" => *rec,
            _ => *ns,
        };
        rep.count(&format!("depth_exact/{}/limit={binding}/{}", c.kind, c.rel));
        rep.count(&format!("depth_exact_expect/{}/{}", c.kind, if exp_ok { "resolves" } else { "fails" }));
        rep.max("depth_max_chain_elements_reached", obs_el.len() as f64);
        let exp_set: BTreeSet<&(String, String)> = exp_sent.iter().collect();
        let obs_set: BTreeSet<&(String, String)> = obs_sent.iter().collect();
        if exp_set == obs_set {
            rep.count("depth_exact_full_query_set_match");
        } else {
            rep.count("depth_exact_full_query_set_differs");
        }
        let dir = if obs_el.len() > exp_el.len() || (obs_ok && !exp_ok) {
            Some("over")
        } else if obs_el.len() < exp_el.len() || (!obs_ok && exp_ok) {
            Some("under")
        } else {
            None
        };
        if let Some(dir) = dir {
            let mut one = c.clone();
            one.runs = vec![(*rec, *ns)];
            rep.violation(
                "depth-exact",
                &format!("depth|{}|limit={binding}|{dir}", c.kind),
                one.json(),
                json!({"resolves": exp_ok, "chain_elements_reached": exp_el.len(), "reading": "a recursion step is refused when the advanced depth counter reaches the limit (limit L admits depths 1..L-1); alias lookups <= 64"}),
                json!({"resolves": obs_ok, "outcome": outcome_tag(&tr.outcome), "chain_elements_reached": obs_el.len(), "deepest": obs_el.iter().next_back(), "datagrams": tr.sent, "recursion_limit": rec, "ns_recursion_limit": ns, "chain_length": c.k}),
            );
        }
    }
    if exact {
        rep.nontrivial(fnv64(c.json().to_string().as_bytes()));
        return;
    }
    // ---- growth over the family (first, cold request of every member)
    rep.eval();
    rep.nontrivial(fnv64(c.json().to_string().as_bytes()));
    let (cc, dd) = growth_bound(&c.kind, c.k);
    let fam_json = |family: &[(u8, u8, u64, &'static str)]| json!(family.iter().map(|f| json!({"rec": f.0, "ns": f.1, "datagrams": f.2, "outcome": f.3})).collect::<Vec<_>>());
    for (rec, ns, sent, _) in &family {
        let l = (*rec).max(*ns) as u64;
        rep.count(&format!("depth_cycle/{}/limit={}", c.kind, l));
        rep.max(&format!("depth_cycle_max_datagrams/{}/fan={}", c.kind, c.k), *sent as f64);
        if *sent > cc * l + dd {
            let mut one = c.clone();
            one.runs = vec![(*rec, *ns)];
            rep.violation(
                "depth-growth",
                &format!("depth|{}|limit={l}|over", c.kind),
                one.json(),
                json!(format!("<= {cc} x limit + {dd} = {} upstream datagrams", cc * l + dd)),
                json!({"datagrams": sent, "recursion_limit": rec, "ns_recursion_limit": ns}),
            );
        }
    }
    if complete {
        let diag: Vec<&(u8, u8, u64, &str)> = family.iter().filter(|f| f.0 == f.1).collect();
        for p in diag.windows(2) {
            if p[1].2 < p[0].2 {
                rep.violation(
                    "depth-growth",
                    &format!("depth|{}|limit={}|non-monotonic", c.kind, p[1].0),
                    c.json(),
                    json!("upstream datagrams of the cold request are a non-decreasing function of the limit"),
                    json!({"family": fam_json(&family)}),
                );
                break;
            }
        }
        // constants measured inside the family at the small limits, checked at 255: the line
        // through (8, n8) and (24, n24), never falling, continued to 255
        let at = |l: u8| diag.iter().find(|f| f.0 == l).map(|f| f.2);
        if let (Some(n8), Some(n24), Some(n255)) = (at(8), at(24), at(255)) {
            let slope = (n24.saturating_sub(n8) + 15) / 16;
            let allowed = n24 + slope * (255 - 24);
            rep.max("depth_cycle_max_ratio_255_over_24_x100", if n24 > 0 { n255 as f64 * 100.0 / n24 as f64 } else { 100.0 });
            if n255 > allowed {
                rep.violation(
                    "depth-growth",
                    &format!("depth|{}|limit=255|over-extrapolated", c.kind),
                    c.json(),
                    json!(format!("datagrams at limit 255 <= n(24) + ceil((n(24) - n(8)) / 16) x 231 = {allowed}")),
                    json!({"family": fam_json(&family)}),
                );
            }
        }
        rep.count("depth_cycle_families_complete");
    }
    if std::env::var_os("C19_DEPTH_TRACE").is_some() {
        eprintln!("DEPTH {} fan={} {:?}", c.kind, c.k, family);
    }
}

pub fn run(ctx: &Ctx, rep: &mut Reporter) {
    let n = ctx.budget(640, 160_000);
    let mut rng = ctx.rng("depth");
    for k in 0..n {
        // contiguous blocks per shard: together the shards walk the enumeration
        // (kind x limit pair x relative length) several times
        let idx = ctx.shard * n + k;
        let mut r = rng.fork();
        let c = gen_case(&mut r, idx);
        do_case(&c, rep, idx);
    }
}

pub fn replay(v: &Value, rep: &mut Reporter) {
    if let Some(c) = Case::from(v) {
        do_case(&c, rep, 0);
    }
}

pub fn musts(rep: &mut Reporter) {
    // thresholds >= 3x below what quick observes at seeds 1..5
    for k in EXACT_KINDS {
        for l in LIMIT_VALUES {
            for r in RELS {
                rep.must(&format!("depth_exact/{k}/limit={l}/{r}"), 5);
            }
        }
        rep.must(&format!("depth_exact_expect/{k}/resolves"), 50);
        rep.must(&format!("depth_exact_expect/{k}/fails"), 200);
    }
    for k in CYCLE_KINDS {
        for l in LIMIT_VALUES {
            rep.must(&format!("depth_cycle/{k}/limit={l}"), 30);
        }
    }
    rep.must("depth_cycle_families_complete", 200);
    rep.must("depth_exact_full_query_set_match", 500);
}
