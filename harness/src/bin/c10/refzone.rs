//! refzone — independent reference model of one authoritative zone (DESIGN §5.1, Appendix A.1–A.4).
//!
//! Plain types only: a name is `Vec<Vec<u8>>` (labels, leftmost first, root excluded, stored
//! lower-cased), a record type is its `u16` code, RDATA is its uncompressed wire form with embedded
//! names lower-cased. Nothing in here calls into hickory: ordering, existence, closest encloser,
//! wildcard matching and the RFC 1034 §4.3.2 answer algorithm ("RefAuth") are written out by hand
//! so that a deviation in the code under test cannot cancel out.
//!
//! Reuse from another check binary:
//! ```ignore
//! #[path = "../c10/refzone.rs"]
//! mod refzone;
//! use refzone::{Zone, Kind, ref_auth, gen_zone, GenCfg, query_names};
//! ```
//! Contents: names + RFC 4034 §6.1 order · `Zone` and the A.1 predicates · `ref_auth` (A.2) ·
//! RDATA builders/printers · JSON/text (de)serialisation for witnesses · small-universe zone
//! generator and query enumeration · `selftest()` against the RFC 4034 §6.1 and RFC 4592 §2.2.1
//! examples. NSEC/NSEC3 chain builders are deliberately not in this file.
#![allow(dead_code)]

use std::cmp::Ordering;
use std::collections::BTreeMap;

use serde_json::{json, Value};
use vh::prng::Rng;

// ---------------------------------------------------------------------------------------------
// types

pub type Name = Vec<Vec<u8>>;
pub type Rdata = Vec<u8>;
/// (owner, type, rdata)
pub type Rr = (Name, u16, Rdata);
pub type RrSets = BTreeMap<u16, Vec<Rdata>>;

pub mod ty {
    pub const A: u16 = 1;
    pub const NS: u16 = 2;
    pub const CNAME: u16 = 5;
    pub const SOA: u16 = 6;
    pub const PTR: u16 = 12;
    pub const MX: u16 = 15;
    pub const TXT: u16 = 16;
    pub const AAAA: u16 = 28;
    pub const SRV: u16 = 33;
    pub const OPT: u16 = 41;
    pub const DS: u16 = 43;
    pub const RRSIG: u16 = 46;
    pub const NSEC: u16 = 47;
    pub const DNSKEY: u16 = 48;
    pub const NSEC3: u16 = 50;
    pub const NSEC3PARAM: u16 = 51;
    pub const ANY: u16 = 255;
}

pub fn type_name(t: u16) -> String {
    match t {
        ty::A => "A".into(),
        ty::NS => "NS".into(),
        ty::CNAME => "CNAME".into(),
        ty::SOA => "SOA".into(),
        ty::PTR => "PTR".into(),
        ty::MX => "MX".into(),
        ty::TXT => "TXT".into(),
        ty::AAAA => "AAAA".into(),
        ty::SRV => "SRV".into(),
        ty::OPT => "OPT".into(),
        ty::DS => "DS".into(),
        ty::RRSIG => "RRSIG".into(),
        ty::NSEC => "NSEC".into(),
        ty::DNSKEY => "DNSKEY".into(),
        ty::NSEC3 => "NSEC3".into(),
        ty::NSEC3PARAM => "NSEC3PARAM".into(),
        ty::ANY => "ANY".into(),
        other => format!("TYPE{other}"),
    }
}

pub fn type_code(s: &str) -> Option<u16> {
    Some(match s {
        "A" => ty::A,
        "NS" => ty::NS,
        "CNAME" => ty::CNAME,
        "SOA" => ty::SOA,
        "PTR" => ty::PTR,
        "MX" => ty::MX,
        "TXT" => ty::TXT,
        "AAAA" => ty::AAAA,
        "SRV" => ty::SRV,
        "DS" => ty::DS,
        "RRSIG" => ty::RRSIG,
        "NSEC" => ty::NSEC,
        "DNSKEY" => ty::DNSKEY,
        "NSEC3" => ty::NSEC3,
        "NSEC3PARAM" => ty::NSEC3PARAM,
        "ANY" => ty::ANY,
        other => other.strip_prefix("TYPE")?.parse().ok()?,
    })
}

// ---------------------------------------------------------------------------------------------
// names

pub fn fold_label(l: &[u8]) -> Vec<u8> {
    l.iter().map(|c| c.to_ascii_lowercase()).collect()
}

pub fn fold(n: &[Vec<u8>]) -> Name {
    n.iter().map(|l| fold_label(l)).collect()
}

/// Parse a host-style presentation name without escapes ("a.b.z.", "." = root); result is folded.
pub fn name(s: &str) -> Name {
    s.split('.').filter(|l| !l.is_empty()).map(|l| fold_label(l.as_bytes())).collect()
}

pub fn show(n: &[Vec<u8>]) -> String {
    if n.is_empty() {
        return ".".into();
    }
    let mut s = String::new();
    for l in n {
        for &c in l {
            if c == b'.' || c == b'\\' {
                s.push('\\');
                s.push(c as char);
            } else if c.is_ascii_graphic() {
                s.push(c as char);
            } else {
                s.push_str(&format!("\\{c:03}"));
            }
        }
        s.push('.');
    }
    s
}

/// RFC 4034 §6.1 canonical ordering: compare label by label starting from the rightmost; labels
/// as unsigned lower-cased octet strings, a label that is a proper prefix sorts first; a name
/// that runs out of labels first sorts first.
pub fn canonical_cmp(a: &[Vec<u8>], b: &[Vec<u8>]) -> Ordering {
    let mut ia = a.iter().rev();
    let mut ib = b.iter().rev();
    loop {
        match (ia.next(), ib.next()) {
            (None, None) => return Ordering::Equal,
            (None, Some(_)) => return Ordering::Less,
            (Some(_), None) => return Ordering::Greater,
            (Some(x), Some(y)) => {
                let n = x.len().min(y.len());
                for i in 0..n {
                    let cx = x[i].to_ascii_lowercase();
                    let cy = y[i].to_ascii_lowercase();
                    if cx != cy {
                        return cx.cmp(&cy);
                    }
                }
                if x.len() != y.len() {
                    return x.len().cmp(&y.len());
                }
            }
        }
    }
}

/// A name ordered canonically (map key).
#[derive(Clone, Debug, PartialEq, Eq, Hash)]
pub struct CName(pub Name);

impl PartialOrd for CName {
    fn partial_cmp(&self, other: &Self) -> Option<Ordering> {
        Some(self.cmp(other))
    }
}
impl Ord for CName {
    fn cmp(&self, other: &Self) -> Ordering {
        canonical_cmp(&self.0, &other.0)
    }
}

/// `n` is `anc` or a descendant of it (case-insensitive).
pub fn is_subdomain(n: &[Vec<u8>], anc: &[Vec<u8>]) -> bool {
    if n.len() < anc.len() {
        return false;
    }
    let off = n.len() - anc.len();
    n[off..].iter().zip(anc.iter()).all(|(x, y)| x.eq_ignore_ascii_case(y))
}

pub fn is_strict_subdomain(n: &[Vec<u8>], anc: &[Vec<u8>]) -> bool {
    n.len() > anc.len() && is_subdomain(n, anc)
}

pub fn parent(n: &[Vec<u8>]) -> Option<Name> {
    if n.is_empty() {
        None
    } else {
        Some(n[1..].to_vec())
    }
}

/// rightmost `k` labels of `n`
pub fn suffix(n: &[Vec<u8>], k: usize) -> Name {
    n[n.len() - k.min(n.len())..].to_vec()
}

pub fn child(label: &[u8], n: &[Vec<u8>]) -> Name {
    let mut v = Vec::with_capacity(n.len() + 1);
    v.push(fold_label(label));
    v.extend(n.iter().cloned());
    v
}

/// leftmost label is exactly "*"
pub fn is_wildcard(n: &[Vec<u8>]) -> bool {
    n.first().is_some_and(|l| l.as_slice() == b"*")
}

pub fn wildcard_of(n: &[Vec<u8>]) -> Name {
    child(b"*", n)
}

pub fn has_asterisk_label(n: &[Vec<u8>]) -> bool {
    n.iter().any(|l| l.as_slice() == b"*")
}

// ---------------------------------------------------------------------------------------------
// RDATA builders / readers (uncompressed wire form)

pub fn wire_name(n: &[Vec<u8>]) -> Vec<u8> {
    let mut out = Vec::new();
    for l in n {
        out.push(l.len() as u8);
        out.extend_from_slice(&fold_label(l));
    }
    out.push(0);
    out
}

/// read an uncompressed name at `off`; returns (name, next offset)
pub fn read_wire_name(b: &[u8], mut off: usize) -> Option<(Name, usize)> {
    let mut n = Vec::new();
    loop {
        let l = *b.get(off)? as usize;
        if l == 0 {
            return Some((n, off + 1));
        }
        if l > 63 {
            return None;
        }
        n.push(fold_label(b.get(off + 1..off + 1 + l)?));
        off += 1 + l;
    }
}

pub fn rd_a(k: u8) -> Rdata {
    vec![192, 0, 2, k]
}
pub fn rd_aaaa(k: u8) -> Rdata {
    let mut v = vec![0x20, 0x01, 0x0d, 0xb8];
    v.extend_from_slice(&[0; 11]);
    v.push(k);
    v
}
pub fn rd_name(target: &[Vec<u8>]) -> Rdata {
    wire_name(target)
}
pub fn rd_mx(pref: u16, exchange: &[Vec<u8>]) -> Rdata {
    let mut v = pref.to_be_bytes().to_vec();
    v.extend(wire_name(exchange));
    v
}
pub fn rd_txt(s: &str) -> Rdata {
    let mut v = vec![s.len().min(255) as u8];
    v.extend_from_slice(&s.as_bytes()[..s.len().min(255)]);
    v
}
pub fn rd_soa(mname: &[Vec<u8>], rname: &[Vec<u8>], serial: u32, refresh: u32, retry: u32, expire: u32, minimum: u32) -> Rdata {
    let mut v = wire_name(mname);
    v.extend(wire_name(rname));
    for x in [serial, refresh, retry, expire, minimum] {
        v.extend_from_slice(&x.to_be_bytes());
    }
    v
}
/// DS with key tag `k`, algorithm 15, digest type 2 (SHA-256), 32 digest octets derived from k
pub fn rd_ds(k: u16) -> Rdata {
    let mut v = k.to_be_bytes().to_vec();
    v.push(15);
    v.push(2);
    for i in 0..32u16 {
        v.push((k.wrapping_mul(31).wrapping_add(i * 7) & 0xff) as u8);
    }
    v
}
pub fn rd_srv(prio: u16, weight: u16, port: u16, target: &[Vec<u8>]) -> Rdata {
    let mut v = Vec::new();
    for x in [prio, weight, port] {
        v.extend_from_slice(&x.to_be_bytes());
    }
    v.extend(wire_name(target));
    v
}

/// domain names embedded in the RDATA of the types this model knows
pub fn rdata_names(t: u16, rd: &[u8]) -> Vec<Name> {
    match t {
        ty::NS | ty::CNAME | ty::PTR => read_wire_name(rd, 0).map(|(n, _)| vec![n]).unwrap_or_default(),
        ty::MX => read_wire_name(rd, 2).map(|(n, _)| vec![n]).unwrap_or_default(),
        ty::SRV => read_wire_name(rd, 6).map(|(n, _)| vec![n]).unwrap_or_default(),
        ty::SOA => {
            let mut v = Vec::new();
            if let Some((m, o)) = read_wire_name(rd, 0) {
                v.push(m);
                if let Some((r, _)) = read_wire_name(rd, o) {
                    v.push(r);
                }
            }
            v
        }
        _ => Vec::new(),
    }
}

pub fn cname_target(rd: &[u8]) -> Name {
    read_wire_name(rd, 0).map(|(n, _)| n).unwrap_or_default()
}

/// SOA serial inside SOA RDATA (offset after the two names)
pub fn soa_serial_offset(rd: &[u8]) -> Option<usize> {
    let (_, o) = read_wire_name(rd, 0)?;
    let (_, o) = read_wire_name(rd, o)?;
    if o + 20 <= rd.len() {
        Some(o)
    } else {
        None
    }
}

fn hexs(b: &[u8]) -> String {
    let mut s = String::with_capacity(b.len() * 2);
    for x in b {
        s.push_str(&format!("{x:02x}"));
    }
    s
}

fn unhexs(s: &str) -> Vec<u8> {
    let d = |c: u8| match c {
        b'0'..=b'9' => c - b'0',
        b'a'..=b'f' => c - b'a' + 10,
        b'A'..=b'F' => c - b'A' + 10,
        _ => 0,
    };
    let b = s.as_bytes();
    (0..b.len() / 2).map(|i| d(b[2 * i]) << 4 | d(b[2 * i + 1])).collect()
}

/// presentation form of RDATA (for witnesses; informational only)
pub fn show_rdata(t: u16, rd: &[u8]) -> String {
    match t {
        ty::A if rd.len() == 4 => format!("{}.{}.{}.{}", rd[0], rd[1], rd[2], rd[3]),
        ty::AAAA if rd.len() == 16 => {
            let g: Vec<String> = (0..8).map(|i| format!("{:x}", u16::from_be_bytes([rd[2 * i], rd[2 * i + 1]]))).collect();
            g.join(":")
        }
        ty::NS | ty::CNAME | ty::PTR => show(&cname_target(rd)),
        ty::MX if rd.len() >= 3 => format!("{} {}", u16::from_be_bytes([rd[0], rd[1]]), show(&rdata_names(t, rd).pop().unwrap_or_default())),
        ty::TXT => {
            let mut out = Vec::new();
            let mut i = 0;
            while i < rd.len() {
                let l = rd[i] as usize;
                let s = rd.get(i + 1..i + 1 + l).unwrap_or(&[]);
                out.push(format!("\"{}\"", String::from_utf8_lossy(s)));
                i += 1 + l;
            }
            out.join(" ")
        }
        ty::SOA => {
            let names = rdata_names(t, rd);
            if let (Some(o), 2) = (soa_serial_offset(rd), names.len()) {
                let f: Vec<String> = (0..5).map(|i| u32::from_be_bytes([rd[o + 4 * i], rd[o + 4 * i + 1], rd[o + 4 * i + 2], rd[o + 4 * i + 3]]).to_string()).collect();
                format!("{} {} {}", show(&names[0]), show(&names[1]), f.join(" "))
            } else {
                format!("\\# {} {}", rd.len(), hexs(rd))
            }
        }
        ty::DS if rd.len() >= 4 => format!("{} {} {} {}", u16::from_be_bytes([rd[0], rd[1]]), rd[2], rd[3], hexs(&rd[4..])),
        _ => format!("\\# {} {}", rd.len(), hexs(rd)),
    }
}

pub fn show_rr(rr: &Rr) -> String {
    format!("{} {} {}", show(&rr.0), type_name(rr.1), show_rdata(rr.1, &rr.2))
}

// ---------------------------------------------------------------------------------------------
// zone + Appendix A.1 predicates

#[derive(Clone, Debug, PartialEq, Eq)]
pub struct Zone {
    pub apex: Name,
    /// owner (RFC 4034 §6.1 order) -> type -> RDATA set (sorted bytewise, no duplicates)
    pub nodes: BTreeMap<CName, RrSets>,
}

impl Zone {
    pub fn new(apex: &[Vec<u8>]) -> Self {
        Self { apex: fold(apex), nodes: BTreeMap::new() }
    }

    /// Would adding (owner, t) keep the zone well-formed? (CNAME is alone at its owner, RFC 1034
    /// §3.6.2 / RFC 2181 §10.1; nothing outside the zone; no CNAME at the apex.)
    pub fn can_add(&self, owner: &[Vec<u8>], t: u16) -> bool {
        if !self.in_zone(owner) {
            return false;
        }
        let owner = fold(owner);
        if t == ty::CNAME && owner == self.apex {
            return false;
        }
        match self.nodes.get(&CName(owner)) {
            None => true,
            Some(sets) => {
                let has_cname = sets.contains_key(&ty::CNAME);
                if t == ty::CNAME {
                    sets.keys().all(|k| *k == ty::CNAME)
                } else {
                    !has_cname
                }
            }
        }
    }

    /// Add one record (no well-formedness check). Returns false if it was already present.
    pub fn add(&mut self, owner: &[Vec<u8>], t: u16, rdata: Rdata) -> bool {
        let set = self.nodes.entry(CName(fold(owner))).or_default().entry(t).or_default();
        match set.binary_search(&rdata) {
            Ok(_) => false,
            Err(i) => {
                set.insert(i, rdata);
                true
            }
        }
    }

    /// `add` guarded by `can_add`
    pub fn try_add(&mut self, owner: &[Vec<u8>], t: u16, rdata: Rdata) -> bool {
        self.can_add(owner, t) && self.add(owner, t, rdata)
    }

    pub fn remove_rrset(&mut self, owner: &[Vec<u8>], t: u16) -> bool {
        let key = CName(fold(owner));
        let mut removed = false;
        if let Some(sets) = self.nodes.get_mut(&key) {
            removed = sets.remove(&t).is_some();
            if sets.is_empty() {
                self.nodes.remove(&key);
            }
        }
        removed
    }

    pub fn remove_name(&mut self, owner: &[Vec<u8>]) -> bool {
        self.nodes.remove(&CName(fold(owner))).is_some()
    }

    pub fn node(&self, owner: &[Vec<u8>]) -> Option<&RrSets> {
        self.nodes.get(&CName(fold(owner))).filter(|s| !s.is_empty())
    }

    pub fn rrset(&self, owner: &[Vec<u8>], t: u16) -> Option<&Vec<Rdata>> {
        self.node(owner).and_then(|s| s.get(&t)).filter(|v| !v.is_empty())
    }

    pub fn has(&self, owner: &[Vec<u8>], t: u16, rdata: &[u8]) -> bool {
        self.rrset(owner, t).is_some_and(|v| v.iter().any(|r| r.as_slice() == rdata))
    }

    /// owners with data, canonical order (includes occluded owners)
    pub fn owners(&self) -> impl Iterator<Item = &Name> {
        self.nodes.iter().filter(|(_, s)| !s.is_empty()).map(|(k, _)| &k.0)
    }

    /// every record, canonical owner order, then type, then RDATA
    pub fn records(&self) -> Vec<Rr> {
        let mut v = Vec::new();
        for (o, sets) in &self.nodes {
            for (t, rds) in sets {
                for rd in rds {
                    v.push((o.0.clone(), *t, rd.clone()));
                }
            }
        }
        v
    }

    pub fn rrs(&self, owner: &[Vec<u8>], t: u16) -> Vec<Rr> {
        let o = fold(owner);
        self.rrset(&o, t).map(|v| v.iter().map(|rd| (o.clone(), t, rd.clone())).collect()).unwrap_or_default()
    }

    pub fn in_zone(&self, n: &[Vec<u8>]) -> bool {
        is_subdomain(n, &self.apex)
    }

    /// A.1 "cut": non-apex owner holding NS (whether or not it is itself occluded).
    pub fn is_cut(&self, n: &[Vec<u8>]) -> bool {
        self.in_zone(n) && n.len() > self.apex.len() && self.rrset(n, ty::NS).is_some()
    }

    /// The first cut met walking from the apex towards `n` that is an ancestor-or-self of `n`
    /// (RFC 1034 §4.3.2 step 3b: matching down, label by label, stops at the first delegation).
    pub fn covering_cut(&self, n: &[Vec<u8>]) -> Option<Name> {
        if !self.in_zone(n) {
            return None;
        }
        for k in self.apex.len() + 1..=n.len() {
            let cand = suffix(n, k);
            if self.rrset(&cand, ty::NS).is_some() {
                return Some(fold(&cand));
            }
        }
        None
    }

    /// a cut of this zone that is not itself below another cut
    pub fn is_delegation(&self, n: &[Vec<u8>]) -> bool {
        self.covering_cut(n).is_some_and(|c| c == fold(n))
    }

    /// strictly below a cut: content unconstrained by this zone
    pub fn occluded(&self, n: &[Vec<u8>]) -> bool {
        self.covering_cut(n).is_some_and(|c| c.len() < n.len())
    }

    /// owns at least one RRset and is not occluded (a delegation point counts)
    pub fn owns_visible_data(&self, n: &[Vec<u8>]) -> bool {
        self.in_zone(n) && self.node(n).is_some() && !self.occluded(n)
    }

    /// A.1: exists = owns a non-occluded RRset, or is a cut, or is an empty non-terminal
    pub fn exists(&self, n: &[Vec<u8>]) -> bool {
        if !self.in_zone(n) || self.occluded(n) {
            return false;
        }
        if self.node(n).is_some() {
            return true;
        }
        self.has_visible_descendant(n)
    }

    fn has_visible_descendant(&self, n: &[Vec<u8>]) -> bool {
        self.owners().any(|d| is_strict_subdomain(d, n) && !self.occluded(d))
    }

    /// empty non-terminal: no RRsets of its own, but a non-occluded descendant owns data
    pub fn is_ent(&self, n: &[Vec<u8>]) -> bool {
        self.in_zone(n) && !self.occluded(n) && self.node(n).is_none() && self.has_visible_descendant(n)
    }

    /// longest existing ancestor-or-self of `q` (the apex always exists)
    pub fn closest_encloser(&self, q: &[Vec<u8>]) -> Name {
        let mut k = q.len();
        while k > self.apex.len() {
            let cand = suffix(q, k);
            if self.exists(&cand) {
                return fold(&cand);
            }
            k -= 1;
        }
        self.apex.clone()
    }

    pub fn source_of_synthesis(&self, q: &[Vec<u8>]) -> Name {
        wildcard_of(&self.closest_encloser(q))
    }

    /// all existing names (data owners that are not occluded, cuts, ENTs), canonical order
    pub fn existing_names(&self) -> Vec<Name> {
        let mut set: BTreeMap<CName, ()> = BTreeMap::new();
        set.insert(CName(self.apex.clone()), ());
        for o in self.owners() {
            if self.occluded(o) || !self.in_zone(o) {
                continue;
            }
            let mut k = o.len();
            while k > self.apex.len() {
                set.insert(CName(suffix(o, k)), ());
                k -= 1;
            }
        }
        set.into_keys().map(|c| c.0).collect()
    }

    /// types the zone is authoritative for at `n` (at a delegation: DS only, NS is non-authoritative)
    pub fn authoritative_types(&self, n: &[Vec<u8>]) -> Vec<u16> {
        if self.occluded(n) {
            return Vec::new();
        }
        let Some(node) = self.node(n) else { return Vec::new() };
        if self.is_delegation(n) {
            node.keys().copied().filter(|t| *t == ty::DS).collect()
        } else {
            node.keys().copied().collect()
        }
    }

    // ---- (de)serialisation for witnesses -----------------------------------------------------

    pub fn to_json(&self) -> Value {
        let recs: Vec<Value> = self.records().iter().map(|(o, t, rd)| json!([show(o), type_name(*t), hexs(rd)])).collect();
        json!({"apex": show(&self.apex), "records": recs})
    }

    pub fn from_json(v: &Value) -> Result<Zone, String> {
        let apex = name(v["apex"].as_str().ok_or("zone.apex missing")?);
        let mut z = Zone::new(&apex);
        for r in v["records"].as_array().ok_or("zone.records missing")? {
            let o = name(r[0].as_str().ok_or("record owner")?);
            let t = match &r[1] {
                Value::String(s) => type_code(s).ok_or_else(|| format!("unknown type {s}"))?,
                Value::Number(n) => n.as_u64().ok_or("record type")? as u16,
                _ => return Err("record type".into()),
            };
            let rd = unhexs(r[2].as_str().ok_or("record rdata")?);
            z.add(&o, t, rd);
        }
        Ok(z)
    }

    pub fn to_text(&self) -> String {
        let mut s = format!("$ORIGIN {}\n", show(&self.apex));
        for rr in self.records() {
            s.push_str(&show_rr(&rr));
            s.push('\n');
        }
        s
    }

    /// canonical byte encoding (hashing / distinct-case counting)
    pub fn canonical_bytes(&self) -> Vec<u8> {
        let mut v = wire_name(&self.apex);
        for (o, t, rd) in self.records() {
            v.extend(wire_name(&o));
            v.extend_from_slice(&t.to_be_bytes());
            v.extend_from_slice(&(rd.len() as u16).to_be_bytes());
            v.extend_from_slice(&rd);
        }
        v
    }
}

// ---------------------------------------------------------------------------------------------
// RefAuth (Appendix A.2)

#[derive(Clone, Copy, Debug, PartialEq, Eq, Hash, PartialOrd, Ord)]
pub enum Kind {
    /// exact-match data of the queried type
    Answer,
    /// CNAME at the (existing) query name, chased inside the zone
    CnameChain,
    /// the query name is at or below a zone cut
    Referral,
    /// synthesised from the source of synthesis
    WildcardAnswer,
    /// the source of synthesis holds a CNAME
    WildcardCname,
    /// name owns data, but neither the type nor a CNAME
    Nodata,
    /// name absent, source of synthesis exists without the type (incl. ENT wildcard, RFC 4592 §4.9)
    WildcardNodata,
    /// empty non-terminal
    EntNodata,
    Nxdomain,
    /// query name outside the zone
    Refused,
}

impl Kind {
    pub const ALL: [Kind; 10] = [
        Kind::Answer,
        Kind::CnameChain,
        Kind::Referral,
        Kind::WildcardAnswer,
        Kind::WildcardCname,
        Kind::Nodata,
        Kind::WildcardNodata,
        Kind::EntNodata,
        Kind::Nxdomain,
        Kind::Refused,
    ];
    pub fn as_str(&self) -> &'static str {
        match self {
            Kind::Answer => "answer",
            Kind::CnameChain => "cname-chain",
            Kind::Referral => "referral",
            Kind::WildcardAnswer => "wildcard-answer",
            Kind::WildcardCname => "wildcard-cname",
            Kind::Nodata => "nodata",
            Kind::WildcardNodata => "wildcard-nodata",
            Kind::EntNodata => "ent-nodata",
            Kind::Nxdomain => "nxdomain",
            Kind::Refused => "refused",
        }
    }
    pub fn is_negative(&self) -> bool {
        matches!(self, Kind::Nodata | Kind::WildcardNodata | Kind::EntNodata | Kind::Nxdomain)
    }
    pub fn is_wildcard(&self) -> bool {
        matches!(self, Kind::WildcardAnswer | Kind::WildcardCname | Kind::WildcardNodata)
    }
}

/// How a CNAME chase ended.
#[derive(Clone, Copy, Debug, PartialEq, Eq, Hash, PartialOrd, Ord)]
pub enum ChainEnd {
    Answer,
    WildcardAnswer,
    Nodata,
    WildcardNodata,
    EntNodata,
    Nxdomain,
    /// the target is at or below a zone cut
    Referral,
    /// the target is outside the zone
    OutOfZone,
    /// the target was already visited
    Loop,
}

impl ChainEnd {
    pub fn as_str(&self) -> &'static str {
        match self {
            ChainEnd::Answer => "answer",
            ChainEnd::WildcardAnswer => "wildcard-answer",
            ChainEnd::Nodata => "nodata",
            ChainEnd::WildcardNodata => "wildcard-nodata",
            ChainEnd::EntNodata => "ent-nodata",
            ChainEnd::Nxdomain => "nxdomain",
            ChainEnd::Referral => "referral",
            ChainEnd::OutOfZone => "out-of-zone",
            ChainEnd::Loop => "loop",
        }
    }
    pub fn has_answer(&self) -> bool {
        matches!(self, ChainEnd::Answer | ChainEnd::WildcardAnswer)
    }
}

/// One pass of the §4.3.2 algorithm for one name (the query name, then each CNAME target).
#[derive(Clone, Debug, PartialEq, Eq)]
pub struct Step {
    pub qname: Name,
    pub kind: Kind,
    /// records this step contributes (owner already rewritten for wildcard matches); for
    /// `Referral` the cut's NS set; for CNAME kinds the single CNAME link
    pub rrs: Vec<Rr>,
    /// set when the name does not exist (wildcard kinds and NXDOMAIN)
    pub closest_encloser: Option<Name>,
    /// `*.closest_encloser` when the name does not exist
    pub source: Option<Name>,
    /// node whose RRsets were consulted (the name itself, or the source of synthesis)
    pub matched: Option<Name>,
    pub cut: Option<Name>,
}

#[derive(Clone, Debug, PartialEq, Eq)]
pub struct Outcome {
    pub qname: Name,
    pub qtype: u16,
    /// classification of the first step (what the query name itself is)
    pub kind: Kind,
    /// for `CnameChain` / `WildcardCname`: how the chase ended
    pub chain_end: Option<ChainEnd>,
    /// 0 NOERROR, 3 NXDOMAIN, 5 REFUSED
    pub rcode: u8,
    /// a second acceptable rcode: a chain ending at a non-existent in-zone name is NOERROR by
    /// RFC 1034 §4.3.2 step 3c ("if the name is original ... otherwise just exit") and NXDOMAIN
    /// by RFC 6604 §3
    pub alt_rcode: Option<u8>,
    pub aa: bool,
    /// CNAME links in chase order (owner of the first one is the query name)
    pub chain: Vec<Rr>,
    /// the final answer RRset (QTYPE=ANY: every RRset of the matched node, `any` = true)
    pub answers: Vec<Rr>,
    pub any: bool,
    /// negative answer for the query name itself: SOA belongs in the authority section
    pub soa: bool,
    /// referral (direct, or reached at the end of a chain): the cut and its parent-side data
    pub cut: Option<Name>,
    pub ns: Vec<Rr>,
    pub ds: Vec<Rr>,
    /// address records of in-zone NS targets at or below the cut
    pub glue: Vec<Rr>,
    pub steps: Vec<Step>,
}

impl Outcome {
    pub fn last_step(&self) -> &Step {
        self.steps.last().expect("outcome has at least one step")
    }
    pub fn first_step(&self) -> &Step {
        self.steps.first().expect("outcome has at least one step")
    }
    /// answer-section content in full: chain links followed by the final RRset
    pub fn answer_section(&self) -> Vec<Rr> {
        let mut v = self.chain.clone();
        v.extend(self.answers.iter().cloned());
        v
    }
    /// number of RRsets a complete answer section holds (links + terminal RRset)
    pub fn answer_rrsets(&self) -> usize {
        self.chain.len() + usize::from(!self.answers.is_empty())
    }
    pub fn to_json(&self) -> Value {
        json!({
            "kind": self.kind.as_str(),
            "chain_end": self.chain_end.map(|c| c.as_str()),
            "rcode": self.rcode,
            "alt_rcode": self.alt_rcode,
            "aa": self.aa,
            "chain": self.chain.iter().map(show_rr).collect::<Vec<_>>(),
            "answers": self.answers.iter().map(show_rr).collect::<Vec<_>>(),
            "any_subset_ok": self.any,
            "soa_in_authority": self.soa,
            "cut": self.cut.as_ref().map(|c| show(c)),
            "ns": self.ns.iter().map(show_rr).collect::<Vec<_>>(),
            "ds": self.ds.iter().map(show_rr).collect::<Vec<_>>(),
            "steps": self.steps.iter().map(|s| json!({
                "qname": show(&s.qname), "kind": s.kind.as_str(),
                "closest_encloser": s.closest_encloser.as_ref().map(|c| show(c)),
                "source_of_synthesis": s.source.as_ref().map(|c| show(c)),
                "matched": s.matched.as_ref().map(|c| show(c)),
            })).collect::<Vec<_>>(),
        })
    }
}

impl Zone {
    /// One pass of RFC 1034 §4.3.2 steps 2–3 (with RFC 4592 §3.3 for part c) for `n` ∈ zone.
    pub fn resolve_step(&self, n: &[Vec<u8>], t: u16) -> Step {
        let n = fold(n);
        let mut st = Step { qname: n.clone(), kind: Kind::Nxdomain, rrs: Vec::new(), closest_encloser: None, source: None, matched: None, cut: None };
        // step 3b: a delegation on the way down ends the search – except for DS at the
        // delegation point itself, which is parent-side data (RFC 4035 §3.1.4.1)
        if let Some(cut) = self.covering_cut(&n) {
            if !(cut == n && t == ty::DS) {
                st.kind = Kind::Referral;
                st.rrs = self.rrs(&cut, ty::NS);
                st.cut = Some(cut);
                return st;
            }
            // parent side of the delegation point: only DS is authoritative here
            st.matched = Some(n.clone());
            st.cut = Some(cut);
            st.rrs = self.rrs(&n, ty::DS);
            st.kind = if st.rrs.is_empty() { Kind::Nodata } else { Kind::Answer };
            return st;
        }
        // step 3a (whole of QNAME matched) or step 3c (no match)
        let (node_name, wild) = if self.node(&n).is_some() {
            (n.clone(), false)
        } else if self.exists(&n) {
            st.kind = Kind::EntNodata;
            st.matched = Some(n.clone());
            return st;
        } else {
            let ce = self.closest_encloser(&n);
            let sos = wildcard_of(&ce);
            st.closest_encloser = Some(ce);
            st.source = Some(sos.clone());
            if !self.exists(&sos) {
                st.kind = Kind::Nxdomain;
                return st;
            }
            if self.node(&sos).is_none() {
                // RFC 4592 §4.9: an empty non-terminal source of synthesis gives no error, no data
                st.kind = Kind::WildcardNodata;
                st.matched = Some(sos);
                return st;
            }
            (sos, true)
        };
        st.matched = Some(node_name.clone());
        let sets = self.node(&node_name).expect("matched node has data");
        let rewrite = |t: u16, rds: &Vec<Rdata>| -> Vec<Rr> { rds.iter().map(|rd| (n.clone(), t, rd.clone())).collect() };
        if t != ty::CNAME && t != ty::ANY {
            if let Some(c) = sets.get(&ty::CNAME) {
                st.kind = if wild { Kind::WildcardCname } else { Kind::CnameChain };
                st.rrs = rewrite(ty::CNAME, c);
                return st;
            }
        }
        if t == ty::ANY {
            for (tt, rds) in sets {
                st.rrs.extend(rewrite(*tt, rds));
            }
        } else if let Some(rds) = sets.get(&t) {
            st.rrs = rewrite(t, rds);
        }
        st.kind = match (st.rrs.is_empty(), wild) {
            (false, false) => Kind::Answer,
            (false, true) => Kind::WildcardAnswer,
            (true, false) => Kind::Nodata,
            (true, true) => Kind::WildcardNodata,
        };
        st
    }
}

/// RefAuth(q, t): the answer RFC 1034 §4.3.2 + RFC 4592 + RFC 2308 prescribe for a server that is
/// authoritative for exactly this zone.
pub fn ref_auth(z: &Zone, q: &[Vec<u8>], t: u16) -> Outcome {
    let q = fold(q);
    let mut out = Outcome {
        qname: q.clone(),
        qtype: t,
        kind: Kind::Refused,
        chain_end: None,
        rcode: 5,
        alt_rcode: None,
        aa: false,
        chain: Vec::new(),
        answers: Vec::new(),
        any: t == ty::ANY,
        soa: false,
        cut: None,
        ns: Vec::new(),
        ds: Vec::new(),
        glue: Vec::new(),
        steps: Vec::new(),
    };
    if !z.in_zone(&q) {
        out.steps.push(Step { qname: q, kind: Kind::Refused, rrs: Vec::new(), closest_encloser: None, source: None, matched: None, cut: None });
        return out;
    }
    out.rcode = 0;
    out.aa = true;
    let mut visited: Vec<Name> = vec![q.clone()];
    let mut cur = q;
    loop {
        let st = z.resolve_step(&cur, t);
        let first = out.steps.is_empty();
        out.steps.push(st.clone());
        match st.kind {
            Kind::CnameChain | Kind::WildcardCname => {
                if first {
                    out.kind = st.kind;
                }
                let target = cname_target(&st.rrs[0].2);
                out.chain.extend(st.rrs.iter().cloned());
                if !z.in_zone(&target) {
                    out.chain_end = Some(ChainEnd::OutOfZone);
                    break;
                }
                if visited.contains(&target) {
                    out.chain_end = Some(ChainEnd::Loop);
                    break;
                }
                visited.push(target.clone());
                cur = target;
            }
            k => {
                if matches!(k, Kind::Answer | Kind::WildcardAnswer) {
                    out.answers = st.rrs.clone();
                }
                if k == Kind::Referral {
                    let cut = st.cut.clone().expect("referral has a cut");
                    out.ns = st.rrs.clone();
                    out.ds = z.rrs(&cut, ty::DS);
                    for (_, _, rd) in &out.ns {
                        let target = cname_target(rd);
                        if is_subdomain(&target, &cut) {
                            out.glue.extend(z.rrs(&target, ty::A));
                            out.glue.extend(z.rrs(&target, ty::AAAA));
                        }
                    }
                    out.cut = Some(cut);
                }
                if first {
                    out.kind = k;
                    match k {
                        Kind::Referral => out.aa = false,
                        Kind::Nxdomain => {
                            out.rcode = 3;
                            out.soa = true;
                        }
                        Kind::Nodata | Kind::WildcardNodata | Kind::EntNodata => out.soa = true,
                        _ => {}
                    }
                } else {
                    out.chain_end = Some(match k {
                        Kind::Answer => ChainEnd::Answer,
                        Kind::WildcardAnswer => ChainEnd::WildcardAnswer,
                        Kind::Nodata => ChainEnd::Nodata,
                        Kind::WildcardNodata => ChainEnd::WildcardNodata,
                        Kind::EntNodata => ChainEnd::EntNodata,
                        Kind::Nxdomain => ChainEnd::Nxdomain,
                        Kind::Referral => ChainEnd::Referral,
                        Kind::CnameChain | Kind::WildcardCname | Kind::Refused => unreachable!(),
                    });
                    if k == Kind::Nxdomain {
                        out.alt_rcode = Some(3);
                    }
                }
                break;
            }
        }
    }
    out
}

// ---------------------------------------------------------------------------------------------
// small-universe generator (DESIGN §5.3, §7 C08/C10)

pub const UNI_LABELS: [&[u8]; 3] = [b"a", b"b", b"*"];
pub const FRESH_LABEL: &[u8] = b"q";
pub const QTYPES: [u16; 9] = [ty::A, ty::AAAA, ty::MX, ty::NS, ty::CNAME, ty::SOA, ty::DS, ty::TXT, ty::ANY];

pub fn default_apex() -> Name {
    name("z.")
}

/// every name of 1..=depth labels over `UNI_LABELS` under `apex` (39 for depth 3), canonical order
pub fn universe(apex: &[Vec<u8>], depth: usize) -> Vec<Name> {
    let mut level: Vec<Name> = vec![fold(apex)];
    let mut all: Vec<CName> = Vec::new();
    for _ in 0..depth {
        let mut next = Vec::new();
        for n in &level {
            for l in UNI_LABELS {
                let c = child(l, n);
                all.push(CName(c.clone()));
                next.push(c);
            }
        }
        level = next;
    }
    all.sort();
    all.into_iter().map(|c| c.0).collect()
}

/// "every universe name ± one fresh label": the apex, every universe name, and `fresh.<n>` for
/// each of those (a fresh label *below* n is at the same time *beside* n's children).
pub fn query_names(apex: &[Vec<u8>], depth: usize, fresh: &[u8]) -> Vec<Name> {
    let mut base = vec![fold(apex)];
    base.extend(universe(apex, depth));
    let mut v = base.clone();
    for n in &base {
        v.push(child(fresh, n));
    }
    v
}

/// names no zone under `z.` is authoritative for
pub fn out_of_zone_names() -> Vec<Name> {
    vec![name("."), name("y."), name("a.y."), name("z.y."), name("zz.")]
}

#[derive(Clone, Debug)]
pub struct GenCfg {
    pub depth: usize,
    /// number of owner picks besides the apex (each pick may add glue / occluded names too)
    pub max_owners: usize,
    /// percent of zones that get a CNAME chain of 9–11 links
    pub long_chain_pct: u64,
    /// percent of cuts that get an (occluded) NS set below them
    pub nested_cut_pct: u64,
    /// allow CNAME owners at all (C08 may want zones without aliases)
    pub cnames: bool,
    pub cuts: bool,
}

impl Default for GenCfg {
    fn default() -> Self {
        Self { depth: 3, max_owners: 10, long_chain_pct: 4, nested_cut_pct: 12, cnames: true, cuts: true }
    }
}

fn gen_host_rdata(rng: &mut Rng, apex: &Name, uni: &[Name], t: u16) -> Rdata {
    match t {
        ty::A => rd_a(rng.range(1, 6) as u8),
        ty::AAAA => rd_aaaa(rng.range(1, 6) as u8),
        ty::TXT => rd_txt(["t1", "t2", "hello world"][rng.usize_below(3)]),
        ty::MX => {
            let ex = match rng.below(4) {
                0 => name("mx.y."),
                1 => child(b"a", apex),
                _ => rng.pick(uni).clone(),
            };
            rd_mx([10u16, 20][rng.usize_below(2)], &ex)
        }
        _ => rng.bytes(4),
    }
}

fn add_host(z: &mut Zone, rng: &mut Rng, uni: &[Name], owner: &Name) {
    let apex = z.apex.clone();
    let types = [ty::A, ty::AAAA, ty::MX, ty::TXT];
    let n_types = [1, 1, 1, 2, 2, 3][rng.usize_below(6)];
    for _ in 0..n_types {
        let t = *rng.pick(&types);
        let k = if rng.chance(1, 4) { 2 } else { 1 };
        for _ in 0..k {
            let rd = gen_host_rdata(rng, &apex, uni, t);
            z.try_add(owner, t, rd);
        }
    }
}

fn add_cname(z: &mut Zone, rng: &mut Rng, uni: &[Name], owner: &Name) {
    let existing: Vec<Name> = z.owners().cloned().collect();
    let target = match rng.below(20) {
        0..=9 => rng.pick(uni).clone(),
        10..=13 => rng.pick(&existing).clone(),
        14..=15 => name("x.y."),
        16..=17 => child(FRESH_LABEL, &parent(owner).unwrap_or_default()),
        18 => owner.clone(),
        _ => child(FRESH_LABEL, &z.apex),
    };
    z.try_add(owner, ty::CNAME, rd_name(&target));
}

fn add_cut(z: &mut Zone, rng: &mut Rng, cfg: &GenCfg, owner: &Name) {
    if is_wildcard(owner) || *owner == z.apex || z.node(owner).is_some() {
        return;
    }
    let apex = z.apex.clone();
    let n_ns = if rng.chance(1, 3) { 2 } else { 1 };
    for _ in 0..n_ns {
        let target = match rng.below(8) {
            0..=3 => child(*rng.pick(&[b"a" as &[u8], b"b"]), owner), // in-bailiwick: needs glue
            4 => owner.clone(),                                        // the cut name itself
            5 => child(b"a", &apex),                                   // elsewhere in the parent zone
            _ => name("ns.y."),                                        // out of zone
        };
        z.add(owner, ty::NS, rd_name(&target));
        if is_subdomain(&target, owner) && rng.chance(2, 3) {
            z.try_add(&target, ty::A, rd_a(rng.range(50, 53) as u8));
            if rng.chance(1, 3) {
                z.try_add(&target, ty::AAAA, rd_aaaa(rng.range(50, 53) as u8));
            }
        }
    }
    if rng.chance(1, 2) {
        z.add(owner, ty::DS, rd_ds(rng.range(1, 3) as u16));
    }
    // occluded extras below the cut (legal in a zone file, invisible to lookups)
    if rng.chance(1, 3) {
        let below = child(*rng.pick(&UNI_LABELS), owner);
        match rng.below(3) {
            0 => {
                z.try_add(&below, ty::TXT, rd_txt("occluded"));
            }
            1 => {
                z.try_add(&below, ty::A, rd_a(99));
            }
            _ => {
                if cfg.cnames {
                    z.try_add(&below, ty::CNAME, rd_name(&child(b"a", &apex)));
                }
            }
        }
    }
    if rng.chance(cfg.nested_cut_pct, 100) {
        let below = child(*rng.pick(&[b"a" as &[u8], b"b"]), owner);
        if z.can_add(&below, ty::NS) {
            z.add(&below, ty::NS, rd_name(&name("ns2.y.")));
        }
    }
}

/// A random well-formed zone over the small universe: SOA/NS (+ optional A/AAAA/MX/TXT) at the
/// apex `z.`, hosts, empty non-terminals (implicitly), wildcard owners anywhere (`*.z.`, `*.a.z.`,
/// `a.*.z.`, `*.*.z.`, …) holding data or a CNAME, CNAME chains / loops / targets outside the zone
/// or non-existent, delegations with or without glue / DS / occluded data / nested NS.
pub fn gen_zone(rng: &mut Rng, cfg: &GenCfg) -> Zone {
    let apex = default_apex();
    let mut z = Zone::new(&apex);
    let uni = universe(&apex, cfg.depth);
    z.add(&apex, ty::SOA, rd_soa(&name("ns.y."), &name("h.z."), 10, 3600, 600, 86400, 300));
    match rng.below(3) {
        0 => {
            z.add(&apex, ty::NS, rd_name(&name("ns.y.")));
        }
        1 => {
            z.add(&apex, ty::NS, rd_name(&child(b"a", &apex)));
        }
        _ => {
            z.add(&apex, ty::NS, rd_name(&name("ns.y.")));
            z.add(&apex, ty::NS, rd_name(&child(b"b", &child(b"a", &apex))));
        }
    }
    for t in [ty::A, ty::AAAA, ty::MX, ty::TXT] {
        if rng.chance(1, 4) {
            let rd = gen_host_rdata(rng, &apex, &uni, t);
            z.add(&apex, t, rd);
        }
    }

    let wild: Vec<Name> = uni.iter().filter(|n| is_wildcard(n)).cloned().collect();
    let picks = rng.urange(1, cfg.max_owners.max(1));
    for _ in 0..picks {
        // owner: uniform / a wildcard owner / something related to what is already there
        let owner = match rng.below(10) {
            0..=4 => rng.pick(&uni).clone(),
            5..=6 => rng.pick(&wild).clone(),
            _ => {
                let existing: Vec<Name> = z.owners().filter(|o| **o != apex).cloned().collect();
                if existing.is_empty() {
                    rng.pick(&uni).clone()
                } else {
                    let o = rng.pick(&existing).clone();
                    let depth = o.len() - apex.len();
                    match rng.below(4) {
                        0 if depth < cfg.depth => child(*rng.pick(&UNI_LABELS), &o),
                        1 if depth > 1 => parent(&o).unwrap(),
                        2 => wildcard_of(&parent(&o).unwrap()),
                        _ => child(*rng.pick(&UNI_LABELS), &parent(&o).unwrap()),
                    }
                }
            }
        };
        if owner == apex || z.node(&owner).is_some() {
            continue;
        }
        let role = rng.weighted(&[50, if cfg.cnames { 22 } else { 0 }, if cfg.cuts { 20 } else { 0 }]);
        match role {
            0 => add_host(&mut z, rng, &uni, &owner),
            1 => add_cname(&mut z, rng, &uni, &owner),
            _ => {
                if is_wildcard(&owner) {
                    add_host(&mut z, rng, &uni, &owner)
                } else {
                    add_cut(&mut z, rng, cfg, &owner)
                }
            }
        }
    }

    if cfg.cnames && rng.chance(cfg.long_chain_pct, 100) {
        // a chain longer than typical implementation bounds (8): 9–11 links over free names
        let mut free: Vec<Name> = uni.iter().filter(|n| z.node(n).is_none()).cloned().collect();
        rng.shuffle(&mut free);
        let len = rng.urange(9, 11).min(free.len().saturating_sub(1));
        if len >= 2 {
            for i in 0..len {
                let target = if i + 1 < len {
                    free[i + 1].clone()
                } else {
                    match rng.below(3) {
                        0 => free[0].clone(), // loop
                        1 => child(FRESH_LABEL, &apex),
                        _ => free[len].clone(),
                    }
                };
                z.try_add(&free[i], ty::CNAME, rd_name(&target));
            }
            if rng.bool() {
                z.try_add(&free[len], ty::A, rd_a(77));
            }
        }
    }
    z
}

// ---------------------------------------------------------------------------------------------
// self test against the RFCs' own examples (DESIGN §8.3)

/// Panics with a description if the model disagrees with RFC 4034 §6.1 or RFC 4592 §2.2.1/§3.3.2.
pub fn selftest() {
    // RFC 4034 §6.1 example order
    let esc = |labels: &[&[u8]]| -> Name { labels.iter().map(|l| l.to_vec()).collect() };
    let order: Vec<Name> = vec![
        esc(&[b"example"]),
        esc(&[b"a", b"example"]),
        esc(&[b"yljkjljk", b"a", b"example"]),
        esc(&[b"Z", b"a", b"example"]),
        esc(&[b"zABC", b"a", b"EXAMPLE"]),
        esc(&[b"z", b"example"]),
        esc(&[&[1u8], b"z", b"example"]),
        esc(&[b"*", b"z", b"example"]),
        esc(&[&[200u8], b"z", b"example"]),
    ];
    for i in 0..order.len() {
        for j in 0..order.len() {
            assert_eq!(canonical_cmp(&order[i], &order[j]), i.cmp(&j), "RFC 4034 §6.1 order: {} vs {}", show(&order[i]), show(&order[j]));
        }
    }

    // RFC 4592 §2.2.1 example zone
    let apex = name("example.");
    let mut z = Zone::new(&apex);
    z.add(&apex, ty::SOA, rd_soa(&name("ns.example.com."), &name("h.example."), 1, 2, 3, 4, 5));
    z.add(&apex, ty::NS, rd_name(&name("ns.example.com.")));
    z.add(&apex, ty::NS, rd_name(&name("ns.example.net.")));
    z.add(&name("*.example."), ty::TXT, rd_txt("this is a wildcard"));
    z.add(&name("*.example."), ty::MX, rd_mx(10, &name("host1.example.")));
    z.add(&name("sub.*.example."), ty::TXT, rd_txt("this is not a wildcard"));
    z.add(&name("host1.example."), ty::A, rd_a(1));
    z.add(&name("_ssh._tcp.host1.example."), ty::SRV, rd_srv(0, 0, 22, &name("ssh.example.com.")));
    z.add(&name("_ssh._tcp.host2.example."), ty::SRV, rd_srv(0, 0, 22, &name("ssh.example.net.")));
    z.add(&name("subdel.example."), ty::NS, rd_name(&name("ns.example.com.")));
    z.add(&name("subdel.example."), ty::NS, rd_name(&name("ns.example.net.")));
    let expect = |q: &str, t: u16, k: Kind| {
        let o = ref_auth(&z, &name(q), t);
        assert_eq!(o.kind, k, "RFC 4592 §2.2.1: {q} {} gave {:?}", type_name(t), o.kind);
        o
    };
    // "The following responses would be synthesized from one of the wildcards in the zone"
    let o = expect("host3.example.", ty::MX, Kind::WildcardAnswer);
    assert_eq!(o.answers, vec![(name("host3.example."), ty::MX, rd_mx(10, &name("host1.example.")))]);
    expect("host3.example.", ty::A, Kind::WildcardNodata);
    let o = expect("foo.bar.example.", ty::TXT, Kind::WildcardAnswer);
    assert_eq!(o.answers[0].0, name("foo.bar.example."));
    // "The following responses would not be synthesized from any of the wildcards in the zone"
    expect("host1.example.", ty::MX, Kind::Nodata);
    expect("sub.*.example.", ty::MX, Kind::Nodata);
    expect("_telnet._tcp.host1.example.", ty::SRV, Kind::Nxdomain);
    let o = expect("host.subdel.example.", ty::A, Kind::Referral);
    assert_eq!(o.cut, Some(name("subdel.example.")));
    assert!(!o.aa && o.ns.len() == 2);
    expect("ghost.*.example.", ty::MX, Kind::Nxdomain);
    // §2.2.2 empty non-terminals, §2.3 literal wildcard owner
    expect("_tcp.host1.example.", ty::A, Kind::EntNodata);
    expect("host2.example.", ty::A, Kind::EntNodata);
    expect("*.example.", ty::MX, Kind::Answer);
    expect("*.example.", ty::A, Kind::Nodata);
    expect("example.com.", ty::A, Kind::Refused);
    expect("example.", ty::NS, Kind::Answer);
    expect("example.", ty::DS, Kind::Nodata);
    expect("subdel.example.", ty::DS, Kind::Nodata);
    expect("subdel.example.", ty::NS, Kind::Referral);
    // RFC 4592 §3.3.2 closest encloser / source of synthesis table
    for (q, ce, sos) in [
        ("host3.example.", "example.", "*.example."),
        ("_telnet._tcp.host1.example.", "_tcp.host1.example.", "*._tcp.host1.example."),
        ("_dns._udp.host2.example.", "host2.example.", "*.host2.example."),
        ("_telnet._tcp.host3.example.", "example.", "*.example."),
        ("_chat._udp.host3.example.", "example.", "*.example."),
        ("foobar.*.example.", "*.example.", "*.*.example."),
    ] {
        assert_eq!(z.closest_encloser(&name(q)), name(ce), "closest encloser of {q}");
        assert_eq!(z.source_of_synthesis(&name(q)), name(sos), "source of synthesis of {q}");
    }

    // CNAME handling and occlusion on a hand-made zone
    let apex = name("z.");
    let mut z = Zone::new(&apex);
    z.add(&apex, ty::SOA, rd_soa(&name("ns.y."), &name("h.z."), 1, 2, 3, 4, 5));
    z.add(&apex, ty::NS, rd_name(&name("ns.y.")));
    z.add(&name("a.z."), ty::A, rd_a(1));
    z.add(&name("c1.z."), ty::CNAME, rd_name(&name("c2.z.")));
    z.add(&name("c2.z."), ty::CNAME, rd_name(&name("a.z.")));
    z.add(&name("l1.z."), ty::CNAME, rd_name(&name("l2.z.")));
    z.add(&name("l2.z."), ty::CNAME, rd_name(&name("l1.z.")));
    z.add(&name("out.z."), ty::CNAME, rd_name(&name("x.y.")));
    z.add(&name("dangling.z."), ty::CNAME, rd_name(&name("nope.z.")));
    z.add(&name("*.w.z."), ty::CNAME, rd_name(&name("a.z.")));
    z.add(&name("cut.z."), ty::NS, rd_name(&name("ns.cut.z.")));
    z.add(&name("cut.z."), ty::DS, rd_ds(1));
    z.add(&name("ns.cut.z."), ty::A, rd_a(9));
    z.add(&name("deep.cut.z."), ty::NS, rd_name(&name("ns.y.")));
    z.add(&name("tocut.z."), ty::CNAME, rd_name(&name("x.cut.z.")));
    let o = ref_auth(&z, &name("c1.z."), ty::A);
    assert_eq!((o.kind, o.chain_end, o.chain.len(), o.answers.len()), (Kind::CnameChain, Some(ChainEnd::Answer), 2, 1));
    let o = ref_auth(&z, &name("c1.z."), ty::CNAME);
    assert_eq!((o.kind, o.chain.len(), o.answers.len()), (Kind::Answer, 0, 1));
    let o = ref_auth(&z, &name("c1.z."), ty::MX);
    assert_eq!((o.kind, o.chain_end, o.rcode), (Kind::CnameChain, Some(ChainEnd::Nodata), 0));
    let o = ref_auth(&z, &name("l1.z."), ty::A);
    assert_eq!((o.kind, o.chain_end, o.chain.len()), (Kind::CnameChain, Some(ChainEnd::Loop), 2));
    let o = ref_auth(&z, &name("out.z."), ty::A);
    assert_eq!((o.kind, o.chain_end, o.chain.len()), (Kind::CnameChain, Some(ChainEnd::OutOfZone), 1));
    let o = ref_auth(&z, &name("dangling.z."), ty::A);
    assert_eq!((o.kind, o.chain_end, o.rcode, o.alt_rcode), (Kind::CnameChain, Some(ChainEnd::Nxdomain), 0, Some(3)));
    let o = ref_auth(&z, &name("q.w.z."), ty::A);
    assert_eq!((o.kind, o.chain_end), (Kind::WildcardCname, Some(ChainEnd::Answer)));
    assert_eq!(o.chain[0], (name("q.w.z."), ty::CNAME, rd_name(&name("a.z."))));
    let o = ref_auth(&z, &name("w.z."), ty::A);
    assert_eq!(o.kind, Kind::EntNodata);
    let o = ref_auth(&z, &name("tocut.z."), ty::A);
    assert_eq!((o.kind, o.chain_end, o.cut.clone()), (Kind::CnameChain, Some(ChainEnd::Referral), Some(name("cut.z."))));
    let o = ref_auth(&z, &name("x.deep.cut.z."), ty::A);
    assert_eq!((o.kind, o.cut.clone(), o.glue.len()), (Kind::Referral, Some(name("cut.z.")), 1));
    let o = ref_auth(&z, &name("cut.z."), ty::DS);
    assert_eq!((o.kind, o.aa, o.answers.len()), (Kind::Answer, true, 1));
    let o = ref_auth(&z, &name("deep.cut.z."), ty::DS);
    assert_eq!((o.kind, o.cut.clone()), (Kind::Referral, Some(name("cut.z."))));
    assert!(z.occluded(&name("ns.cut.z.")) && !z.occluded(&name("cut.z.")) && !z.exists(&name("ns.cut.z.")));
    assert!(z.is_cut(&name("deep.cut.z.")) && !z.is_delegation(&name("deep.cut.z.")) && z.is_delegation(&name("cut.z.")));
    assert_eq!(z.closest_encloser(&name("x.deep.cut.z.")), name("cut.z."));
    let o = ref_auth(&z, &name("a.z."), ty::ANY);
    assert_eq!((o.kind, o.any, o.answers.len()), (Kind::Answer, true, 1));
    // JSON round trip
    let z2 = Zone::from_json(&z.to_json()).expect("zone json round trip");
    assert_eq!(z, z2);
    // universe size
    assert_eq!(universe(&apex, 3).len(), 39);
    assert_eq!(query_names(&apex, 3, FRESH_LABEL).len(), 80);
}
