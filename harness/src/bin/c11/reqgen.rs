//! Request generators for C11.  Everything is assembled from raw octets.

use std::net::{IpAddr, Ipv4Addr, Ipv6Addr, SocketAddr};

use vh::gen::{self, MsgOpts};
use vh::prng::Rng;
use vh::refwire::{self, labels_of, Labels, WHeader};

use crate::cfg::{Config, Net, UNIVERSE};

pub struct Req {
    pub kind: &'static str,
    pub bytes: Vec<u8>,
}

pub struct Ids {
    pub next_id: u16,
    pub nonce: u64,
    pub shard: u64,
}

impl Ids {
    pub fn id(&mut self) -> u16 {
        self.next_id = self.next_id.wrapping_add(1);
        self.next_id
    }
    pub fn nonce_label(&mut self) -> Vec<u8> {
        self.nonce += 1;
        format!("n{:x}-{:x}", self.shard, self.nonce).into_bytes()
    }
}

fn flip_case(rng: &mut Rng, labels: &mut Labels) {
    for l in labels.iter_mut() {
        for c in l.iter_mut() {
            if c.is_ascii_alphabetic() && rng.chance(1, 3) {
                *c ^= 0x20;
            }
        }
    }
}

/// a query name aimed at (or just beside) the configured zones
pub fn qname(rng: &mut Rng, cfg: &Config, ids: &mut Ids) -> Labels {
    let mut base: Labels = match rng.below(20) {
        // a configured origin
        0..=8 => labels_of(&rng.pick(&cfg.zones).origin),
        // any origin of the universe (configured or not): parents, children, siblings
        9..=13 => labels_of(*rng.pick(UNIVERSE)),
        // near misses: suffix by characters but not by labels
        14..=16 => {
            let mut l = labels_of(*rng.pick(UNIVERSE));
            if let Some(i) = (!l.is_empty()).then(|| rng.usize_below(l.len())) {
                match rng.below(4) {
                    0 => l[i].insert(0, b'x'),
                    1 => {
                        if l[i].len() > 1 {
                            l[i].remove(0);
                        }
                    }
                    2 => l[i].push(b'x'),
                    _ => {
                        // split a label in two
                        if l[i].len() > 1 {
                            let at = rng.urange(1, l[i].len() - 1);
                            let tail = l[i].split_off(at);
                            l.insert(i + 1, tail);
                        }
                    }
                }
            }
            l
        }
        17 => vec![],
        _ => gen::name(rng, gen::NameStyle::Host).into_iter().take(3).collect(),
    };
    let mut pre: Labels = Vec::new();
    match rng.below(10) {
        0 => {} // apex / exact name
        1..=6 => pre.push(ids.nonce_label()),
        _ => {
            pre.push(ids.nonce_label());
            for _ in 0..rng.urange(1, 3) {
                pre.push(match rng.below(6) {
                    0 => b"*".to_vec(),
                    1 => gen::label(rng, gen::NameStyle::Binary, 12),
                    2 => b"sub".to_vec(),
                    _ => gen::label(rng, gen::NameStyle::Small, 12),
                });
            }
        }
    }
    if rng.chance(1, 40) {
        // pad to the 255-octet limit
        let used: usize = pre.iter().chain(base.iter()).map(|l| l.len() + 1).sum::<usize>() + 1;
        let mut room = 255usize.saturating_sub(used);
        while room >= 2 {
            let l = (room - 1).min(63);
            pre.insert(0, vec![b'p'; l]);
            room -= l + 1;
        }
    }
    pre.append(&mut base);
    if rng.chance(1, 3) {
        flip_case(rng, &mut pre);
    }
    pre
}

fn qtype(rng: &mut Rng) -> u16 {
    match rng.below(20) {
        0..=7 => 16,
        8..=13 => *rng.pick(&[1u16, 2, 5, 6, 15, 28]),
        14..=16 => *rng.pick(&[255u16, 252, 251, 41, 250, 249, 0, 65535, 46, 47, 50, 43, 48]),
        _ => rng.u16(),
    }
}

fn qclass(rng: &mut Rng) -> u16 {
    if rng.chance(9, 10) {
        1
    } else {
        *rng.pick(&[3u16, 4, 254, 255, 0, 2, 65535])
    }
}

/// OPT record, version `v`, options from the "unknown code" range
fn put_opt(rng: &mut Rng, out: &mut Vec<u8>, v: u8) {
    put_opt_owned(rng, out, &[], v)
}

fn put_opt_owned(rng: &mut Rng, out: &mut Vec<u8>, owner: &[Vec<u8>], v: u8) {
    let mut rd = Vec::new();
    for _ in 0..rng.below(3) {
        let code = rng.range(65001, 65534) as u16;
        let data = rng.bytes_between(0, 12);
        rd.extend_from_slice(&code.to_be_bytes());
        rd.extend_from_slice(&(data.len() as u16).to_be_bytes());
        rd.extend_from_slice(&data);
    }
    let payload = *rng.pick(&[0u16, 512, 1232, 4096, 65535, 100]);
    let ttl = ((if rng.chance(1, 8) { rng.u8() } else { 0 } as u32) << 24) | ((v as u32) << 16) | if rng.bool() { 0x8000 } else { 0 } | if rng.chance(1, 8) { rng.u16() as u32 & 0x7fff } else { 0 };
    refwire::put_record(out, owner, 41, payload, ttl, &rd);
}

/// a well-formed TSIG RR (RFC 8945 §4.2); the MAC is noise, no key is configured anywhere
fn put_tsig(rng: &mut Rng, out: &mut Vec<u8>, id: u16) {
    let key: Labels = vec![b"key".to_vec(), gen::label(rng, gen::NameStyle::Small, 8), b"example".to_vec()];
    let alg = labels_of(*rng.pick(&["hmac-sha256.", "hmac-sha256.", "hmac-sha1.", "hmac-sha512.", "hmac-md5.sig-alg.reg.int.", "gss-tsig."]));
    let mut rd = Vec::new();
    refwire::put_name(&mut rd, &alg);
    let t: u64 = 1_700_000_000 + rng.below(200_000_000);
    rd.extend_from_slice(&t.to_be_bytes()[2..8]);
    rd.extend_from_slice(&300u16.to_be_bytes());
    let mac = rng.bytes_between(16, 64);
    rd.extend_from_slice(&(mac.len() as u16).to_be_bytes());
    rd.extend_from_slice(&mac);
    rd.extend_from_slice(&id.to_be_bytes());
    rd.extend_from_slice(&[0, 0, 0, 0]); // error 0, other len 0
    refwire::put_record(out, &key, 250, 255, 0, &rd);
}

/// a SIG(0)-shaped RR (RFC 2931): TYPE SIG, type covered 0, root owner, CLASS ANY, TTL 0
fn put_sig0(rng: &mut Rng, out: &mut Vec<u8>) {
    let mut rd = vec![0u8, 0, *rng.pick(&[8u8, 13, 15]), 0, 0, 0, 0, 0];
    let inception = 1_700_000_000u32 + rng.below(100_000_000) as u32;
    rd.extend_from_slice(&(inception + 300).to_be_bytes());
    rd.extend_from_slice(&inception.to_be_bytes());
    rd.extend_from_slice(&rng.u16().to_be_bytes());
    refwire::put_name(&mut rd, &labels_of("key.example."));
    rd.extend_from_slice(&rng.bytes(64));
    refwire::put_record(out, &[], 24, 255, 0, &rd);
}

#[derive(Clone, Copy)]
enum Item {
    Simple,
    /// OPT with the given version; `true` = owner is not the root
    Opt(u8, bool),
    Tsig,
    Sig0,
}

/// An otherwise valid request (name aimed at the configured zones like every other query) whose
/// pseudo-records (OPT / TSIG / SIG(0)) are out of place, duplicated or mis-owned, plus correctly
/// placed ones as controls.  The MODEL classifies what was built (`pseudo/<tag>` counters); the
/// `kind` only names the generator arm.
pub fn pseudo(rng: &mut Rng, cfg: &Config, ids: &mut Ids) -> Req {
    let ver = |rng: &mut Rng| -> u8 {
        if rng.chance(3, 4) {
            0
        } else if rng.bool() {
            rng.range(1, 255) as u8
        } else {
            1
        }
    };
    let mut sec: [Vec<Item>; 3] = [vec![], vec![], vec![]];
    let kind: &'static str = match rng.below(20) {
        // a lone OPT outside the additional section
        0..=2 => {
            sec[1].push(Item::Opt(ver(rng), false));
            "pseudo-opt"
        }
        3 => {
            sec[0].push(Item::Opt(ver(rng), false));
            "pseudo-opt"
        }
        // more than one OPT in the message
        4..=6 => {
            sec[1].push(Item::Opt(ver(rng), false));
            sec[2].push(Item::Opt(ver(rng), false));
            "pseudo-opt"
        }
        7 => {
            sec[0].push(Item::Opt(ver(rng), false));
            sec[2].push(Item::Opt(ver(rng), false));
            "pseudo-opt"
        }
        8 => {
            sec[2].push(Item::Opt(ver(rng), false));
            sec[2].push(Item::Opt(ver(rng), false));
            "pseudo-opt"
        }
        9 => {
            let (a, b) = *rng.pick(&[(0usize, 1usize), (0, 0), (1, 1), (0, 1)]);
            sec[a].push(Item::Opt(ver(rng), false));
            sec[b].push(Item::Opt(ver(rng), false));
            if rng.bool() {
                sec[2].push(Item::Opt(ver(rng), false));
            }
            "pseudo-opt"
        }
        // OPT owned by something else than the root
        10 => {
            sec[2].push(Item::Opt(ver(rng), true));
            "pseudo-opt"
        }
        // TSIG outside the additional section
        11 | 12 => {
            sec[if rng.chance(2, 3) { 1 } else { 0 }].push(Item::Tsig);
            if rng.chance(1, 3) {
                sec[2].push(Item::Opt(ver(rng), false));
            }
            "pseudo-tsig"
        }
        // TSIG in the additional section but not last
        13 | 14 => {
            if rng.chance(1, 3) {
                sec[2].push(Item::Opt(ver(rng), false));
            }
            sec[2].push(Item::Tsig);
            sec[2].push(if rng.bool() { Item::Simple } else { Item::Opt(ver(rng), false) });
            "pseudo-tsig"
        }
        // two TSIGs
        15 => {
            let first = *rng.pick(&[2usize, 2, 1, 0]);
            sec[first].push(Item::Tsig);
            sec[2].push(Item::Tsig);
            "pseudo-tsig"
        }
        // SIG(0) out of place
        16 => {
            sec[if rng.bool() { 1 } else { 0 }].push(Item::Sig0);
            "pseudo-sig0"
        }
        17 => {
            sec[2].push(Item::Sig0);
            sec[2].push(if rng.bool() { Item::Simple } else { Item::Opt(ver(rng), false) });
            "pseudo-sig0"
        }
        // controls: everything in its place
        18 => {
            if rng.bool() {
                sec[2].push(Item::Opt(ver(rng), false));
            }
            if rng.chance(1, 3) {
                sec[2].push(Item::Sig0);
            }
            sec[2].push(Item::Tsig);
            "pseudo-tsig"
        }
        _ => {
            if rng.bool() {
                sec[2].push(Item::Opt(ver(rng), false));
            }
            sec[2].push(Item::Sig0);
            "pseudo-sig0"
        }
    };
    // ordinary records around them (anywhere but behind the last additional record, so that the
    // arm's idea of "last" survives)
    for (si, s) in sec.iter_mut().enumerate() {
        if rng.chance(1, 5) {
            let at = if si == 2 { 0 } else { rng.usize_below(s.len() + 1) };
            s.insert(at, Item::Simple);
        }
    }
    let opcode: u8 = match rng.below(20) {
        0..=13 => 0,
        14 | 15 => 5,
        16 => 4,
        17 => 2,
        _ => *rng.pick(&[1u8, 3, 6, 7, 8, 9, 10, 11, 12, 13, 14, 15]),
    };
    let mut flags: u16 = (opcode as u16) << 11;
    for bit in [0x0100u16, 0x0020, 0x0010, 0x0400, 0x0200, 0x0040, 0x0080] {
        if rng.chance(1, 4) {
            flags |= bit;
        }
    }
    let (qt, qc) = match opcode {
        4 | 5 => (6, 1),
        _ if rng.chance(3, 4) => (*rng.pick(&[16u16, 16, 16, 1, 28, 2, 6, 15, 5]), 1),
        _ => (qtype(rng), qclass(rng)),
    };
    let name = qname(rng, cfg, ids);
    let id = ids.id();
    let mut b = Vec::new();
    refwire::put_header(&mut b, &WHeader { id, flags, qd: 1, an: sec[0].len() as u16, ns: sec[1].len() as u16, ar: sec[2].len() as u16 });
    refwire::put_question(&mut b, &name, qt, qc);
    for s in &sec {
        for item in s {
            match *item {
                Item::Simple => {
                    let ptr = rng.bool();
                    put_simple_record(rng, &mut b, &name, ptr);
                }
                Item::Opt(v, false) => put_opt(rng, &mut b, v),
                Item::Opt(v, true) => {
                    let owner: Labels = if rng.bool() || name.is_empty() { vec![b"opt".to_vec()] } else { name.clone() };
                    put_opt_owned(rng, &mut b, &owner, v);
                }
                Item::Tsig => put_tsig(rng, &mut b, id),
                Item::Sig0 => put_sig0(rng, &mut b),
            }
        }
    }
    Req { kind, bytes: b }
}

fn put_simple_record(rng: &mut Rng, out: &mut Vec<u8>, owner: &Labels, ptr_owner: bool) {
    if ptr_owner {
        out.extend_from_slice(&[0xC0, 12]);
    } else {
        refwire::put_name(out, owner);
    }
    let (t, rd): (u16, Vec<u8>) = if rng.bool() {
        (1, rng.bytes(4))
    } else {
        let s = rng.bytes_between(0, 20);
        let mut v = vec![s.len() as u8];
        v.extend_from_slice(&s);
        (16, v)
    };
    out.extend_from_slice(&t.to_be_bytes());
    out.extend_from_slice(&1u16.to_be_bytes());
    out.extend_from_slice(&(rng.next_u32()).to_be_bytes());
    out.extend_from_slice(&(rd.len() as u16).to_be_bytes());
    out.extend_from_slice(&rd);
}

#[derive(Clone, Copy)]
pub struct Shape {
    pub opcode: u8,
    /// EDNS version, if an OPT is attached
    pub edns: Option<u8>,
    pub qr: bool,
}

/// a well-formed request of the given shape
pub fn valid(rng: &mut Rng, cfg: &Config, ids: &mut Ids, sh: Shape) -> Vec<u8> {
    let name = qname(rng, cfg, ids);
    let mut flags: u16 = (sh.opcode as u16) << 11;
    if sh.qr {
        flags |= 0x8000;
    }
    // RD / AD / CD / AA / TC / Z / RA and stray rcode bits: none of them may matter
    for bit in [0x0100u16, 0x0020, 0x0010, 0x0400, 0x0200, 0x0040, 0x0080] {
        if rng.chance(1, 4) {
            flags |= bit;
        }
    }
    if rng.chance(1, 10) {
        flags |= rng.below(16) as u16;
    }
    let (qt, qc) = match sh.opcode {
        5 => (if rng.chance(4, 5) { 6 } else { qtype(rng) }, qclass(rng)),
        4 => (6, 1),
        _ => (qtype(rng), qclass(rng)),
    };
    let n_rec: [usize; 3] = match sh.opcode {
        5 => [rng.urange(0, 1), rng.urange(0, 2), 0],
        4 => [rng.urange(0, 1), 0, 0],
        _ => {
            if rng.chance(1, 10) {
                [rng.urange(0, 1), rng.urange(0, 1), rng.urange(0, 1)]
            } else {
                [0, 0, 0]
            }
        }
    };
    let mut b = Vec::new();
    let ar = n_rec[2] + sh.edns.is_some() as usize;
    refwire::put_header(&mut b, &WHeader { id: ids.id(), flags, qd: 1, an: n_rec[0] as u16, ns: n_rec[1] as u16, ar: ar as u16 });
    refwire::put_question(&mut b, &name, qt, qc);
    let opt_first = rng.bool();
    for (si, n) in n_rec.iter().enumerate() {
        if si == 2 && opt_first {
            if let Some(v) = sh.edns {
                put_opt(rng, &mut b, v);
            }
        }
        for _ in 0..*n {
            let ptr = rng.bool();
            put_simple_record(rng, &mut b, &name, ptr);
        }
        if si == 2 && !opt_first {
            if let Some(v) = sh.edns {
                put_opt(rng, &mut b, v);
            }
        }
    }
    b
}

/// question whose name ends in a compression pointer into the 12 header octets
pub fn header_pointer(rng: &mut Rng, ids: &mut Ids) -> Vec<u8> {
    let mut flags: u16 = 0;
    for bit in [0x0100u16, 0x0020, 0x0010, 0x0400, 0x0200] {
        if rng.chance(1, 3) {
            flags |= bit;
        }
    }
    if rng.chance(1, 4) {
        flags = (flags & 0xff00) | rng.u8() as u16 & 0x7f;
    }
    let counts: [u16; 3] = if rng.chance(3, 4) { [0, 0, 0] } else { [rng.below(2) as u16, 0, rng.below(2) as u16] };
    let id = if rng.bool() { ids.id() } else { (rng.range(0, 5) as u16) << 8 | rng.u8() as u16 };
    let mut b = Vec::new();
    refwire::put_header(&mut b, &WHeader { id, flags, qd: 1, an: counts[0], ns: counts[1], ar: counts[2] });
    if rng.chance(2, 3) {
        let l = ids.nonce_label();
        b.push(l.len() as u8);
        b.extend_from_slice(&l);
    }
    let target = if rng.chance(1, 2) { *rng.pick(&[4u8, 6, 8, 10]) } else { rng.below(12) as u8 };
    b.extend_from_slice(&[0xC0, target]);
    b.extend_from_slice(&(if rng.chance(2, 3) { 16u16 } else { qtype(rng) }).to_be_bytes());
    b.extend_from_slice(&1u16.to_be_bytes());
    if counts[2] == 1 {
        put_opt(rng, &mut b, 0);
    }
    b
}

pub fn random_shape(rng: &mut Rng) -> Shape {
    Shape {
        opcode: match rng.below(20) {
            0..=11 => 0,
            12..=13 => 5,
            14 => 4,
            15 => 2,
            _ => *rng.pick(&[1u8, 3, 6, 7, 8, 9, 10, 11, 12, 13, 14, 15]),
        },
        edns: match rng.below(10) {
            0..=5 => None,
            6..=7 => Some(0),
            _ => Some(if rng.bool() { rng.range(1, 255) as u8 } else { *rng.pick(&[1u8, 2, 127, 128, 255]) }),
        },
        qr: false,
    }
}

fn generated(rng: &mut Rng, response: bool, opt_den: u64) -> Vec<u8> {
    let with_opt = rng.chance(1, opt_den);
    let with_tsig = rng.chance(1, 10);
    gen::message_wire(rng, &MsgOpts { response: Some(response), with_opt, with_tsig, max_records: 6, types: None })
}

pub fn request(rng: &mut Rng, cfg: &Config, ids: &mut Ids) -> Req {
    let maybe_v0 = |rng: &mut Rng, den: u64| if rng.chance(1, den) { Some(0u8) } else { None };
    match rng.below(100) {
        0..=30 => {
            let edns = maybe_v0(rng, 3);
            Req { kind: "query", bytes: valid(rng, cfg, ids, Shape { opcode: 0, edns, qr: false }) }
        }
        31..=34 => pseudo(rng, cfg, ids),
        35..=42 => {
            let v = if rng.bool() { rng.range(1, 255) as u8 } else { rng.range(0, 3) as u8 };
            let opcode = *rng.pick(&[0u8, 0, 0, 0, 2, 4, 5]);
            Req { kind: "edns-version", bytes: valid(rng, cfg, ids, Shape { opcode, edns: Some(v), qr: false }) }
        }
        43..=47 => {
            let edns = maybe_v0(rng, 4);
            Req { kind: "update", bytes: valid(rng, cfg, ids, Shape { opcode: 5, edns, qr: false }) }
        }
        48..=52 => {
            let opcode = if rng.bool() { 4 } else { 2 };
            Req { kind: "notify-status", bytes: valid(rng, cfg, ids, Shape { opcode, edns: None, qr: false }) }
        }
        53..=57 => {
            let opcode = *rng.pick(&[1u8, 3, 6, 7, 8, 9, 10, 11, 12, 13, 14, 15]);
            let edns = if rng.chance(1, 4) { Some(rng.u8()) } else { None };
            let mut b = valid(rng, cfg, ids, Shape { opcode, edns, qr: false });
            if rng.chance(1, 3) {
                let cut = rng.urange(12, b.len());
                b.truncate(cut);
            }
            Req { kind: "unknown-opcode", bytes: b }
        }
        58..=63 => {
            let b = if rng.chance(2, 3) {
                let mut sh = random_shape(rng);
                sh.qr = true;
                valid(rng, cfg, ids, sh)
            } else {
                generated(rng, true, 3)
            };
            Req { kind: "qr", bytes: b }
        }
        64..=67 => {
            let b = if rng.bool() {
                rng.bytes_between(0, 11)
            } else {
                let sh = random_shape(rng);
                let mut b = valid(rng, cfg, ids, sh);
                b.truncate(rng.urange(0, 11));
                b
            };
            Req { kind: "fragment", bytes: b }
        }
        68..=71 => Req { kind: "header-pointer", bytes: header_pointer(rng, ids) },
        72..=76 => Req { kind: "generated-message", bytes: generated(rng, false, 3) },
        77..=93 => {
            let base = if rng.chance(2, 3) {
                let sh = random_shape(rng);
                valid(rng, cfg, ids, sh)
            } else {
                generated(rng, false, 2)
            };
            let ints = gen::interesting_offsets(&base);
            Req { kind: "mutated", bytes: gen::mutate(rng, &base, &ints) }
        }
        _ => {
            let len = rng.urange(12, 200);
            let mut b = rng.bytes(len);
            if rng.chance(3, 4) {
                b[2] &= 0x07; // QR=0, opcode 0
                b[4] = 0;
                b[5] = 1;
                for f in [6, 8, 10] {
                    b[f] = 0;
                    b[f + 1] = rng.below(3) as u8;
                }
            }
            Req { kind: "random", bytes: b }
        }
    }
}

// ---------------------------------------------------------------------------------------------
// sources

fn in_net(rng: &mut Rng, n: &Net) -> IpAddr {
    let host = (((rng.next_u64() as u128) << 64) | rng.next_u64() as u128) & !Net::mask(n.len);
    let a = n.addr | host;
    if n.v6 {
        IpAddr::V6(Ipv6Addr::from(a))
    } else {
        IpAddr::V4(Ipv4Addr::from((a >> 96) as u32))
    }
}

pub fn source(rng: &mut Rng, cfg: &Config) -> SocketAddr {
    let mut ip = match rng.below(10) {
        0..=2 if !cfg.deny.is_empty() => {
            let n = *rng.pick(&cfg.deny);
            in_net(rng, &n)
        }
        3..=5 if !cfg.allow.is_empty() => {
            let n = *rng.pick(&cfg.allow);
            in_net(rng, &n)
        }
        6 => IpAddr::V6(Ipv6Addr::from(((0x2001_0db8u128) << 96) | rng.next_u64() as u128)),
        7 => IpAddr::V4(Ipv4Addr::from(0x0a01_0200u32 | rng.u8() as u32)),
        _ => {
            if rng.bool() {
                IpAddr::V4(Ipv4Addr::from(rng.next_u32()))
            } else {
                IpAddr::V6(Ipv6Addr::from(((rng.next_u64() as u128) << 64) | rng.next_u64() as u128))
            }
        }
    };
    // v4-mapped form of a v4 source (dual-stack listener)
    if let IpAddr::V4(v4) = ip {
        if rng.chance(1, 4) {
            ip = IpAddr::V6(v4.to_ipv6_mapped());
        }
    }
    SocketAddr::new(ip, rng.range(1, 65535) as u16)
}
