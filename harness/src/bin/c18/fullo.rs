//! Oracle of the C18 full-stack observation point (see `full.rs`): judges the callers' results,
//! their virtual completion times and the socket-boundary event log of one scenario.
//!
//! Rule ids (all prefixed `fs-` so that the observation point is visible in a signature):
//!   fs-deadline          (i)   every `NameServerPool::send` completes ≤ timeout (+1 ms); with a
//!                              `RetryDnsHandle` on top, every attempt does (each attempt is one pool
//!                              lookup with a deadline of its own: `ResolverOpts::timeout` is
//!                              documented as the timeout "for a request", `attempts` as "retries
//!                              after lookup failure")
//!   fs-wrong-answer      (ii)  an Ok carries the marker of a datagram / TCP reply that was really
//!                              delivered for this query by a slot scripted to answer; an NXDOMAIN
//!                              stems from a slot scripted to say so; never a TC=1 message when the
//!                              same server's TCP port is scripted to answer and connect + reply
//!                              latency fit into 80 % of the budget left when the TC=1 arrived
//!   fs-connect-timeout   (iii) every `connect_tcp` call received
//!                              `wait_for == Some(options.connect_timeout)` ("how long a single
//!                              connection attempt is allowed to take before being abandoned")
//!   fs-max-active        (iii) never more than `options.max_active_requests` queries outstanding on
//!                              one TCP connection ("limits how many DNS queries can be
//!                              simultaneously pending on a single connection"); judged only where no
//!                              request can be abandoned by its requester (see below)
//!   fs-availability      (iv)  the timing model says a healthy answer is reachable at T ≤ 80 % of
//!                              timeout ⇒ the lookup returns a genuine (non-TC) answer
//!   fs-truncation        (v)   same, when the model's winning path is "TC=1 over UDP, then TCP to
//!                              the same server"
//!   fs-slow-tcp          (vi)  same, when the winning path is a TCP reply whose latency exceeds
//!                              connect_timeout (but is well inside timeout)
//!   fs-slow-udp                same, when the winning path is a UDP reply whose latency exceeds
//!                              connect_timeout (the UDP client's per-request timeout is `timeout`)
//!   fs-nx-untrusted            a lookup that ends with the NXDOMAIN of an untrusted server has
//!                              contacted every server first
//!   fs-sharing           (vii) k identical callers started together complete at the same instant with
//!                              the same outcome and cause exactly the socket-level exchanges
//!                              (datagrams, TCP connects, TCP queries; per server and protocol) of
//!                              one caller with the same script
//!   fs-panic / fs-stuck / fs-runaway   harness-level safety nets
//!
//! Timing model (constants measured on the unchanged tree, see `rep.max("fs_silent_*")`):
//!   * EXACT form — UserProvidedOrder, num_concurrent_reqs ≤ 1, all callers identical and started
//!     at 0: servers are walked in the configured order; a server with a UDP port is asked over UDP
//!     unless a TC=1 was seen earlier in this lookup, after TC=1 the same server is asked again over
//!     TCP and UDP-only servers are skipped. Cost of a failing attempt under the CONFIGURED options:
//!       UDP send error 0 · UDP recv error / NXDOMAIN / TC=1 after d: d · TCP refused after c: c ·
//!       TCP connect hang or handshake slower than connect_timeout: connect_timeout ·
//!       TCP close / reset / NXDOMAIN after l: c + l ·
//!       SILENCE (UDP: no datagram ever answered, incl. hickory's retransmissions; TCP: connected,
//!       no reply): the whole `options.timeout` — `UdpClientStream` wraps all its retransmissions in
//!       one `timeout`, `DnsMultiplexer` times a request out after `timeout` — i.e. nothing can be
//!       demanded behind a silent server (SILENT_COST = 1.0 × timeout, measured).
//!     The first server that answers (UDP latency d < timeout, or TCP connect c ≤ connect_timeout +
//!     reply latency l < timeout) gives T. A trusted NXDOMAIN ends the walk (nothing demanded).
//!   * SUM form — every other configuration (other strategies, 2 concurrent requests): upper bound
//!     over all orders and batchings: Σ over non-healthy servers of the cost of every path they can
//!     be asked on + the slowest path of the slowest healthy server; not applicable when any path
//!     is silent / trusted-NXDOMAIN.
//!   * SAFETY MARGIN: an answer is demanded only when T ≤ 0.8 × timeout; everything else is
//!     don't-care for (iv)–(vi).
//!
//! Don't-cares (never judged):
//!   * which healthy server wins; what error is reported when nothing answers;
//!   * anything about availability when the model's T exceeds 80 % of timeout, when a silent
//!     server / trusted NXDOMAIN lies on the way, or for the `later` query (its connections and
//!     SRTT state differ);
//!   * the `busy` family beyond (i)–(iii): whether a lookup that met back-pressure and has no other
//!     server eventually succeeds depends on hickory's back-off schedule — only counted; with a
//!     second, healthy server every lookup must return an answer (busy costs no time);
//!   * fs-max-active only in scenarios with num_concurrent_reqs ≤ 1 in which no pool lookup ran
//!     into its deadline: a request abandoned by the pool is forgotten by the multiplexer but
//!     still "outstanding" for the scripted server;
//!   * fs-sharing: a lookup that completes at the very instant it started is not judged (callers
//!     polled after it may join it or not); socket events at the completion instant itself are
//!     not compared between the k-callers and the one-caller run;
//!   * fs-sharing count part only for deterministic server orders (UserProvidedOrder, RoundRobin,
//!     QueryStatistics pinned by a warm-up) — always the case in generated scenarios;
//!   * delays that are multiples of 333 ms are never generated (see `full::MENU`);
//!   * fs-wrong-answer in a run in which a TCP query carried the message id of an earlier query of
//!     the same connection that was abandoned by its requester but not yet answered by the server
//!     (`tcp-id-collision` in the socket log): `DnsMultiplexer` draws ids at random, frees the id of
//!     an abandoned request at once and matches replies by id only, so with probability 2^-16 per
//!     opportunity the late reply to the abandoned query is handed to the new one. Not reproducible
//!     (ids are not scripted), not a transport fault of the statement: counted, not judged.

use std::collections::{BTreeMap, BTreeSet, VecDeque};

use serde_json::{json, Value};
use vh::mon::{self, Reporter};
use vh::prng::fnv64;

use crate::full::{self, Conn, FCall, FEv, FRun, FScn, Reply, UdpBeh};
use crate::scn::Strat;
use crate::sim::{pname, Outcome};

/// what the exact model predicts
#[derive(Clone, Debug, PartialEq)]
pub enum Pred {
    Answer { t: u64, server: usize, proto: u8, via_tc: bool, tcp_l: Option<u64>, slowest: (&'static str, u64), after_conn_timeout: bool },
    TrustedNx { t: u64 },
    /// a silent server / the deadline / the end of the server list comes first
    Nothing { why: &'static str },
}

/// EXACT form of the timing model (times in ms)
pub fn exact(scn: &FScn) -> (Pred, Vec<String>) {
    let (to, ct) = (scn.timeout, scn.connect_timeout);
    let mut trace = Vec::new();
    let mut t = 0u64;
    let mut disable_udp = false;
    let mut queue: VecDeque<usize> = (0..scn.servers.len()).collect();
    let mut slowest: (&'static str, u64) = ("none", 0);
    let mut tc_from: BTreeSet<usize> = BTreeSet::new();
    let mut conn_timeout_seen = false;
    macro_rules! fail {
        ($s:expr, $class:expr, $cost:expr) => {{
            let cost: u64 = $cost;
            t += cost;
            trace.push(format!("server {} {}: +{} ms -> t={} ms", $s, $class, cost, t));
            if cost >= slowest.1 && $class != "udp-trunc" {
                slowest = ($class, cost);
            }
        }};
    }
    loop {
        if t >= to {
            return (Pred::Nothing { why: "deadline" }, trace);
        }
        let Some(s) = queue.pop_front() else {
            return (Pred::Nothing { why: "all-servers-failed" }, trace);
        };
        let srv = &scn.servers[s];
        let use_udp = srv.udp.is_some() && !disable_udp;
        if !use_udp && srv.tcp.is_none() {
            trace.push(format!("server {s} skipped (UDP only, UDP disabled after TC=1)"));
            continue;
        }
        if use_udp {
            match srv.udp.as_ref().unwrap() {
                UdpBeh::Answer { d } if *d < to => {
                    trace.push(format!("server {s} answers over UDP after {d} ms -> T={} ms", t + d));
                    return (Pred::Answer { t: t + d, server: s, proto: 1, via_tc: false, tcp_l: None, slowest, after_conn_timeout: conn_timeout_seen }, trace);
                }
                UdpBeh::Answer { .. } | UdpBeh::Silent => return (Pred::Nothing { why: "silent-udp-server" }, trace),
                UdpBeh::Trunc { d } => {
                    if *d >= to {
                        return (Pred::Nothing { why: "silent-udp-server" }, trace);
                    }
                    fail!(s, "udp-trunc", *d);
                    disable_udp = true;
                    tc_from.insert(s);
                    queue.push_front(s);
                }
                UdpBeh::Nx { d } => {
                    if *d >= to {
                        return (Pred::Nothing { why: "silent-udp-server" }, trace);
                    }
                    fail!(s, "udp-nx", *d);
                    if srv.trust_nx {
                        return (Pred::TrustedNx { t }, trace);
                    }
                }
                UdpBeh::SendErr => fail!(s, "udp-senderr", 0),
                UdpBeh::RecvErr { d } => {
                    if *d >= to {
                        return (Pred::Nothing { why: "silent-udp-server" }, trace);
                    }
                    fail!(s, "udp-recverr", *d);
                }
            }
            continue;
        }
        let tcp = srv.tcp.as_ref().unwrap();
        match tcp.conn {
            Conn::Ok { c } if c <= ct => {
                t += c;
                trace.push(format!("server {s} TCP connected after {c} ms -> t={t} ms"));
            }
            Conn::Refused { c } if c <= ct => {
                fail!(s, "tcp-refused", c);
                continue;
            }
            Conn::Ok { .. } => {
                fail!(s, "tcp-connect-slower-than-connect_timeout", ct);
                conn_timeout_seen = true;
                continue;
            }
            Conn::Refused { .. } | Conn::Hang => {
                fail!(s, "tcp-connect-hang", ct);
                conn_timeout_seen = true;
                continue;
            }
        }
        match tcp.reply {
            Reply::Answer { l } if l < to => {
                trace.push(format!("server {s} answers over TCP after {l} ms -> T={} ms", t + l));
                return (Pred::Answer { t: t + l, server: s, proto: 2, via_tc: tc_from.contains(&s), tcp_l: Some(l), slowest, after_conn_timeout: conn_timeout_seen }, trace);
            }
            Reply::Answer { .. } | Reply::Silent => return (Pred::Nothing { why: "silent-tcp-server" }, trace),
            Reply::Nx { l } => {
                if l >= to {
                    return (Pred::Nothing { why: "silent-tcp-server" }, trace);
                }
                fail!(s, "tcp-nx", l);
                if srv.trust_nx {
                    return (Pred::TrustedNx { t }, trace);
                }
            }
            Reply::Close { l } | Reply::Reset { l } => {
                if l >= to {
                    return (Pred::Nothing { why: "silent-tcp-server" }, trace);
                }
                fail!(s, if matches!(tcp.reply, Reply::Close { .. }) { "tcp-close" } else { "tcp-reset" }, l);
            }
        }
    }
}

enum Path {
    Ans(u64),
    Fail(u64),
    Block,
}

/// SUM form: Some(T_worst in ms) when applicable
pub fn sum_bound(scn: &FScn) -> Option<u64> {
    let (to, ct) = (scn.timeout, scn.connect_timeout);
    let any_trunc = scn.servers.iter().any(|s| matches!(s.udp, Some(UdpBeh::Trunc { .. })));
    let mut cost = 0u64;
    let mut best: Option<u64> = None;
    let mut other_ans = 0u64;
    for s in &scn.servers {
        let tcp_path = s.tcp.as_ref().map(|tcp| match tcp.conn {
            Conn::Ok { c } if c <= ct => match tcp.reply {
                Reply::Answer { l } if l < to => Path::Ans(c + l),
                Reply::Answer { .. } | Reply::Silent => Path::Block,
                Reply::Nx { l } => {
                    if s.trust_nx || l >= to {
                        Path::Block
                    } else {
                        Path::Fail(c + l)
                    }
                }
                Reply::Close { l } | Reply::Reset { l } => {
                    if l >= to {
                        Path::Block
                    } else {
                        Path::Fail(c + l)
                    }
                }
            },
            Conn::Refused { c } if c <= ct => Path::Fail(c),
            _ => Path::Fail(ct),
        });
        // paths this server can be asked on within one lookup
        let mut paths: Vec<Path> = Vec::new();
        let mut relied_on = true;
        match &s.udp {
            Some(u) => {
                let p = match u {
                    UdpBeh::Answer { d } if *d < to => Path::Ans(*d),
                    UdpBeh::Answer { .. } | UdpBeh::Silent => Path::Block,
                    UdpBeh::Nx { d } | UdpBeh::RecvErr { d } | UdpBeh::Trunc { d } if *d >= to => Path::Block,
                    UdpBeh::Nx { d } => {
                        if s.trust_nx {
                            Path::Block
                        } else {
                            Path::Fail(*d)
                        }
                    }
                    UdpBeh::SendErr => Path::Fail(0),
                    UdpBeh::RecvErr { d } => Path::Fail(*d),
                    UdpBeh::Trunc { d } => match &tcp_path {
                        // TC=1 then TCP of the same server
                        Some(Path::Ans(x)) => Path::Ans(d + x),
                        Some(Path::Fail(x)) => Path::Fail(d + x),
                        Some(Path::Block) => Path::Block,
                        None => Path::Fail(*d),
                    },
                };
                paths.push(p);
                if any_trunc {
                    match tcp_path {
                        // may also be asked over TCP directly (UDP disabled by another server's TC=1)
                        Some(p) => paths.push(p),
                        // UDP-only: may be skipped altogether — cannot be relied upon
                        None => relied_on = false,
                    }
                }
            }
            None => {
                if let Some(p) = tcp_path {
                    paths.push(p)
                }
            }
        }
        if paths.iter().any(|p| matches!(p, Path::Block)) {
            return None;
        }
        let all_ans = !paths.is_empty() && paths.iter().all(|p| matches!(p, Path::Ans(_)));
        if all_ans && relied_on {
            let worst = paths.iter().map(|p| if let Path::Ans(x) = p { *x } else { 0 }).max().unwrap_or(0);
            best = Some(best.map_or(worst, |b: u64| b.max(worst)));
        } else {
            cost += paths.iter().map(|p| if let Path::Fail(x) = p { *x } else { 0 }).sum::<u64>();
            // a server that is not relied upon may still be the one that is asked and answers —
            // after its own latency
            for p in &paths {
                if let Path::Ans(x) = p {
                    other_ans = other_ans.max(*x);
                }
            }
        }
    }
    best.map(|b| cost + b.max(other_ans))
}

pub(crate) fn call_json(c: &FCall) -> Value {
    json!({"caller": c.idx, "q": c.q, "start_us": c.start, "end_us": c.end, "outcome": c.outcome.text()})
}

pub(crate) fn log_json(log: &[FEv]) -> Value {
    Value::Array(log.iter().take(120).map(|e| e.json()).collect())
}

pub(crate) fn observed(out: &FRun, c: &FCall) -> Value {
    json!({
        "caller": call_json(c),
        "all_callers": out.calls.iter().chain(out.later.iter()).map(call_json).collect::<Vec<_>>(),
        "pool_lookups": out.attempts.iter().map(|a| json!({"caller": a.caller, "start_us": a.start, "end_us": a.end})).collect::<Vec<_>>(),
        "socket_log": log_json(&out.log),
    })
}

pub(crate) fn okind(scn: &FScn, out: &FRun, o: &Outcome) -> String {
    match o {
        Outcome::Ok { tc: true, .. } => "ok-tc".into(),
        Outcome::Ok { .. } => "ok".into(),
        Outcome::Nx { seq } => {
            let trusted = out.log.iter().find(|e| e.what == "nx" && e.seq == *seq).and_then(|e| scn.servers.get(e.server)).map(|s| s.trust_nx);
            match trusted {
                Some(true) => "nx-trusted".into(),
                Some(false) => "nx-untrusted".into(),
                None => "nx-unknown".into(),
            }
        }
        Outcome::Err(k) => format!("err-{}", k.split('(').next().unwrap_or(k)),
        Outcome::Cancelled => "cancelled".into(),
    }
}

pub(crate) const CONNECT_DONE: [&str; 4] = ["tcp-connected", "tcp-refused", "tcp-connect-timeout", "tcp-connect-abandoned"];

fn upstream(k: &str) -> bool {
    matches!(k, "udp-send" | "tcp-connect" | "tcp-query")
}

fn counts(log: &[FEv]) -> BTreeMap<(String, usize, u8), u64> {
    let mut m = BTreeMap::new();
    for e in log.iter().filter(|e| upstream(e.kind)) {
        *m.entry((e.kind.to_string(), e.server, e.proto)).or_insert(0) += 1;
    }
    m
}

fn counts_json(m: &BTreeMap<(String, usize, u8), u64>) -> Value {
    Value::Array(m.iter().map(|((k, s, p), n)| json!({"ev": k, "server": s, "proto": pname(*p), "n": n})).collect())
}

pub(crate) struct J<'a> {
    pub(crate) rep: &'a mut Reporter,
    pub(crate) scn: &'a FScn,
    pub(crate) case: Value,
}

impl<'a> J<'a> {
    pub(crate) fn viol(&mut self, rule: &str, sig: &str, expected: Value, observed: Value) {
        self.rep.violation(rule, sig, self.case.clone(), expected, observed);
    }

    /// (ii) + nx-untrusted for one completed lookup
    pub(crate) fn result_clauses(&mut self, out: &FRun, c: &FCall, kind: &str) {
        let scn = self.scn;
        self.rep.eval();
        // window of the (shared) lookup this caller took part in: it may have joined an identical
        // lookup that was already in flight when it started
        let ws = out.calls.iter().filter(|d| d.q == c.q && d.start <= c.start && d.end > c.start).map(|d| d.start).min().unwrap_or(c.start).min(c.start);
        match &c.outcome {
            Outcome::Ok { .. } | Outcome::Nx { .. } if out.log.iter().any(|e| e.kind == "tcp-id-collision") => {
                // a query drew the message id of an earlier, abandoned query of the same connection
                // whose reply was still to come (chance 2^-16 per opportunity; hickory's multiplexer
                // matches replies by id only): which reply the caller gets is not this check's subject
                self.rep.count("fs_dc_message_id_collision_with_abandoned_query");
            }
            Outcome::Ok { server, proto, q, seq, tc, marker, .. } => {
                let srv = scn.servers.get(*server as usize);
                let mut bad: Option<&str> = None;
                let slot_answers = match (srv, *proto) {
                    (Some(s), 1) => match &s.udp {
                        Some(UdpBeh::Answer { d }) => !*tc && *d < scn.timeout,
                        Some(UdpBeh::Trunc { .. }) => *tc,
                        _ => false,
                    },
                    (Some(s), 2) => matches!(&s.tcp, Some(t) if matches!(t.conn, Conn::Ok { .. }) && matches!(t.reply, Reply::Answer { .. })) && !*tc,
                    _ => false,
                };
                if !*marker || srv.is_none() {
                    bad = Some("unknown-marker");
                } else if *q != c.q {
                    bad = Some("answer-for-other-query");
                } else if !slot_answers {
                    bad = Some("marker-of-non-answering-slot");
                } else {
                    let ev = out.log.iter().find(|e| e.seq == *seq && matches!(e.kind, "udp-deliver" | "tcp-deliver"));
                    match ev {
                        Some(e) if e.server == *server as usize && e.proto == *proto && e.q == c.q as i32 && e.t >= ws && e.t <= c.end => {
                            if *tc {
                                // TC=1 handed to the caller although TCP would have answered in time
                                let s = srv.unwrap();
                                if let Some(t) = &s.tcp {
                                    if let (Conn::Ok { c: cc }, Reply::Answer { l }) = (&t.conn, &t.reply) {
                                        let left_ms = (c.start + scn.timeout * 1000).saturating_sub(e.t) / 1000;
                                        if *cc <= scn.connect_timeout && cc + l <= left_ms * 8 / 10 {
                                            bad = Some("tc-message-returned|tcp-answer-scripted");
                                        }
                                    }
                                }
                                if bad.is_none() {
                                    self.rep.count("fs_dc_tc_returned_no_tcp_answer_in_time");
                                }
                            }
                        }
                        _ => bad = Some("marker-seq-not-in-log"),
                    }
                }
                if let Some(sig) = bad {
                    self.viol(
                        "fs-wrong-answer",
                        sig,
                        json!("Ok result carries the marker of a reply really delivered for this query, during this lookup, by a slot scripted to answer; no TC=1 message when the server's TCP port answers in time"),
                        observed(out, c),
                    );
                }
            }
            Outcome::Nx { seq } => {
                let ev = out.log.iter().find(|e| e.seq == *seq && e.what == "nx");
                let ok = match ev {
                    Some(e) => {
                        let s = scn.servers.get(e.server);
                        let scripted = match (s, e.proto) {
                            (Some(s), 1) => matches!(s.udp, Some(UdpBeh::Nx { .. })),
                            (Some(s), 2) => matches!(&s.tcp, Some(t) if matches!(t.reply, Reply::Nx { .. })),
                            _ => false,
                        };
                        scripted && e.q == c.q as i32 && e.t >= ws && e.t <= c.end
                    }
                    None => false,
                };
                if !ok {
                    self.viol(
                        "fs-wrong-answer",
                        "nxdomain-of-unknown-origin",
                        json!("an NXDOMAIN result stems from a reply delivered during this lookup by a slot scripted to answer NXDOMAIN for this query"),
                        observed(out, c),
                    );
                }
            }
            _ => {}
        }

        // an untrusted NXDOMAIN does not end the search
        if kind == "nx-untrusted" {
            self.rep.count("fs_nx_untrusted_final");
            let tc_seen = out.log.iter().any(|e| e.what == "tc" && e.t >= ws && e.t <= c.end);
            for (i, s) in scn.servers.iter().enumerate() {
                let contacted = out.log.iter().any(|e| e.server == i && e.t >= ws && e.t <= c.end && matches!(e.kind, "udp-bind" | "udp-send" | "tcp-connect" | "tcp-query" | "tcp-write-error"));
                if !contacted && !(s.tcp.is_none() && tc_seen) {
                    self.viol(
                        "fs-nx-untrusted",
                        "search-ended-with-untried-server",
                        json!("an NXDOMAIN from a server not trusted for negative answers ends the search only after every server was contacted"),
                        json!({"untried_server": i, "detail": observed(out, c)}),
                    );
                    break;
                }
            }
        }
    }
}

/// Run and judge one full-stack scenario.
pub fn judge(rep: &mut Reporter, scn: &FScn) {
    let case = scn.to_json();
    if scn.nontrivial() {
        rep.nontrivial(fnv64(scn.canonical().as_bytes()));
    }
    rep.count("fs_scenarios");
    rep.count(&format!("fs_family_{}", scn.family));
    let out = match mon::catch(|| full::run(scn, &scn.callers, scn.later)) {
        Ok(o) => o,
        Err(p) => {
            rep.eval();
            rep.violation("fs-panic", &p.site(), case, json!("no panic"), json!({"message": p.message, "location": p.location}));
            return;
        }
    };
    let mut j = J { rep, scn, case };
    if out.stuck {
        j.rep.eval();
        j.viol("fs-stuck", "no-completion-within-100x-timeout", json!("every lookup completes"), json!({"socket_log": log_json(&out.log)}));
        return;
    }
    if out.runaway {
        j.rep.eval();
        j.viol("fs-runaway", "send-budget-exhausted", json!(format!("a scenario needs far fewer than {} datagrams / TCP queries", full::SEND_LIMIT)), json!({"socket_log": log_json(&out.log)}));
        return;
    }
    let to_us = scn.timeout * 1000;
    let ct_us = scn.connect_timeout * 1000;
    let busy_family = scn.max_active < 32;

    // ---- observations
    {
        let mut seen: BTreeSet<String> = BTreeSet::new();
        for e in &out.log {
            seen.insert(if e.what.is_empty() { e.kind.to_string() } else { format!("{}-{}", e.kind, e.what) });
        }
        for k in seen {
            j.rep.count(&format!("fs_obs_{k}"));
        }
        for s in &scn.servers {
            if let Some(u) = &s.udp {
                j.rep.count(&format!("fs_scripted_{}", u.class()));
            }
            if let Some(t) = &s.tcp {
                j.rep.count(&format!("fs_scripted_{}", t.conn_class()));
                if matches!(t.conn, Conn::Ok { c } if c > scn.connect_timeout) {
                    j.rep.count("fs_scripted_tcp-conn-slower-than-connect_timeout");
                }
                j.rep.count(&format!("fs_scripted_{}", t.reply_class()));
            }
        }
        j.rep.count(&format!("fs_strat_{}", scn.strat.name()));
        j.rep.count(&format!("fs_conc_{}", scn.conc));
        j.rep.count(&format!("fs_retry_{}", scn.retry.map(|a| a.to_string()).unwrap_or_else(|| "none".into())));
        if scn.connect_timeout > scn.timeout {
            j.rep.count("fs_connect_timeout_gt_timeout");
        }
        j.rep.add("fs_connect_tcp_calls", out.log.iter().filter(|e| e.kind == "tcp-connect").count() as u64);
        j.rep.add("fs_udp_datagrams", out.log.iter().filter(|e| e.kind == "udp-send").count() as u64);
        j.rep.add("fs_tcp_queries", out.log.iter().filter(|e| e.kind == "tcp-query").count() as u64);
        {
            // within ONE pool lookup a server is asked over UDP once: a second datagram for the same
            // (server, query) during the first pool lookup is hickory's own retransmission
            let first_end = out.attempts.first().and_then(|a| a.end).unwrap_or(0);
            let per_server_q: BTreeMap<(usize, i32), u64> = out.log.iter().filter(|e| e.kind == "udp-send" && e.t < first_end).fold(BTreeMap::new(), |mut m, e| {
                *m.entry((e.server, e.q)).or_insert(0) += 1;
                m
            });
            if per_server_q.values().any(|n| *n >= 2) {
                j.rep.count("fs_udp_retransmissions_seen");
            }
        }
        // measured occupancy of a silent server (constant of the timing model): time between the
        // first datagram / TCP query to a silent slot and the next activity for another server or the end
        if scn.single_key_at_zero() && scn.conc <= 1 && scn.retry.is_none() && !out.calls.is_empty() {
            for (i, s) in scn.servers.iter().enumerate() {
                let silent_udp = matches!(s.udp, Some(UdpBeh::Silent));
                let silent_tcp = s.udp.is_none() && matches!(&s.tcp, Some(t) if matches!(t.conn, Conn::Ok { c } if c <= scn.connect_timeout) && matches!(t.reply, Reply::Silent));
                if !(silent_udp || silent_tcp) {
                    continue;
                }
                let first = out.log.iter().position(|e| e.server == i && matches!(e.kind, "udp-send" | "tcp-query") && e.t <= out.calls[0].end);
                if let Some(fi) = first {
                    let f = &out.log[fi];
                    let next = out.log[fi + 1..].iter().find(|e| e.server != i && upstream(e.kind)).map(|e| e.t).unwrap_or(out.calls[0].end).min(out.calls[0].end);
                    let occ = (next - f.t) as f64 / to_us as f64;
                    // only meaningful when the lookup's own deadline did not cut it short
                    if f.t == 0 {
                        j.rep.max(if silent_udp { "fs_silent_udp_occupancy_over_timeout" } else { "fs_silent_tcp_occupancy_over_timeout" }, occ);
                        // 0.0 here = never shorter than the whole timeout either
                        j.rep.max(if silent_udp { "fs_silent_udp_max_shortfall" } else { "fs_silent_tcp_max_shortfall" }, 1.0 - occ);
                        j.rep.count("fs_silent_occupancy_measured");
                    }
                }
            }
        }
        j.rep.sample(|| json!({"case": scn.to_json(), "results": out.calls.iter().chain(out.later.iter()).map(call_json).collect::<Vec<_>>(), "socket_events": out.log.len()}));
    }

    // ---- (iii) connect_timeout honoured at the socket boundary
    for e in out.log.iter().filter(|e| e.kind == "tcp-connect") {
        j.rep.eval();
        if e.arg != ct_us as i64 {
            let sig = if e.arg < 0 {
                "wait_for-none"
            } else if e.arg == to_us as i64 {
                "wait_for-is-request-timeout"
            } else {
                "wait_for-other"
            };
            j.viol(
                "fs-connect-timeout",
                sig,
                json!({"connect_tcp wait_for_us": ct_us}),
                json!({"connect": e.json(), "socket_log": log_json(&out.log)}),
            );
            break;
        }
    }

    // ---- (i) deadline, per pool lookup
    let mut deadline_hit = false;
    for a in &out.attempts {
        j.rep.eval();
        let Some(end) = a.end else {
            continue;
        };
        let el = end - a.start;
        j.rep.max("fs_max_elapsed_over_timeout", el as f64 / to_us as f64);
        if el + 1000 >= to_us {
            deadline_hit = true;
        }
        if el > to_us + 1000 {
            let dl = a.start + to_us;
            let connecting = out.log.iter().any(|e| e.kind == "tcp-connect" && e.t <= dl && !out.log.iter().any(|d| d.id == e.id && CONNECT_DONE.contains(&d.kind) && d.t <= dl));
            let class = if connecting { "tcp-connect-in-flight-at-deadline" } else { "other-at-deadline" };
            let over = if el <= 2 * to_us { "overrun-le-1x-timeout" } else { "overrun-gt-1x-timeout" };
            let c = out.calls.iter().chain(out.later.iter()).find(|c| c.idx as i32 == a.caller).cloned();
            j.viol(
                "fs-deadline",
                &format!("{class}|{over}|{}", if scn.retry.is_some() { "retry-attempt" } else { "direct" }),
                json!(format!("every NameServerPool lookup completes within timeout {} ms (+1 ms) of virtual time", scn.timeout)),
                json!({"elapsed_us": el, "lookup": {"caller": a.caller, "start_us": a.start, "end_us": end}, "detail": c.map(|c| observed(&out, &c))}),
            );
        }
    }
    for c in out.calls.iter().chain(out.later.iter()) {
        // the caller's own view (with retries: attempts + 1 lookups)
        j.rep.eval();
        let el = c.end - c.start;
        let bound = to_us * (scn.retry.map(|a| a as u64 + 1).unwrap_or(1)) + 1000;
        if el > bound {
            j.viol(
                "fs-deadline",
                &format!("caller-total|{}", if scn.retry.is_some() { "retry" } else { "direct" }),
                json!({"caller completes within (attempts+1) x timeout, µs": bound}),
                json!({"elapsed_us": el, "detail": observed(&out, c)}),
            );
        }
    }

    // ---- (iii) max_active_requests honoured
    if busy_family {
        j.rep.count("fs_busy_cases");
        if scn.conc <= 1 && !deadline_hit {
            j.rep.eval();
            j.rep.count("fs_max_active_judged");
            if let Some((id, mx)) = out.max_outstanding.iter().find(|(_, mx)| *mx as usize > scn.max_active) {
                j.viol(
                    "fs-max-active",
                    "outstanding-exceeds-max_active_requests",
                    json!({"max queries outstanding on one TCP connection": scn.max_active}),
                    json!({"connection": id, "max_outstanding": mx, "socket_log": log_json(&out.log)}),
                );
            }
        } else {
            j.rep.count("fs_dc_max_active_unjudged");
        }
        let conns = out.log.iter().filter(|e| e.kind == "tcp-connected" && e.server == 0).count();
        if conns >= 2 {
            j.rep.count("fs_busy_second_connection_opened");
        }
    }

    // ---- per caller: (ii), nx-untrusted, (iv)-(vi)
    let exact_ok = scn.strat == Strat::User && scn.conc <= 1 && scn.single_key_at_zero() && !busy_family;
    let (pred, trace) = if exact_ok { exact(scn) } else { (Pred::Nothing { why: "n/a" }, Vec::new()) };
    let sum = if !exact_ok && !busy_family && scn.single_key_at_zero() { sum_bound(scn) } else { None };
    let budget = scn.timeout * 8 / 10;
    // busy family with a healthy second server: busy costs no time
    let busy_demand = busy_family && scn.servers.len() >= 2 && scn.conc <= 1 && sum_bound(scn).map(|t| t <= budget).unwrap_or(false);
    let kinds: Vec<String> = out.calls.iter().map(|c| okind(scn, &out, &c.outcome)).collect();
    for (c, kind) in out.calls.iter().zip(kinds.iter()) {
        j.rep.count(&format!("fs_outcome_{kind}"));
        j.result_clauses(&out, c, kind);

        if let Outcome::Ok { proto: 2, tc: false, server, .. } = &c.outcome {
            j.rep.count("fs_tcp_answers");
            let s = &scn.servers[(*server as usize).min(scn.servers.len() - 1)];
            if out.log.iter().any(|e| e.what == "tc" && e.server == *server as usize && e.t <= c.end) {
                j.rep.count("fs_tc_then_tcp_answer");
            }
            if matches!(&s.tcp, Some(t) if matches!(t.reply, Reply::Answer { l } if l > scn.connect_timeout)) {
                j.rep.count("fs_slow_tcp_answers");
            }
        }
        if let Outcome::Ok { proto: 1, tc: false, server, .. } = &c.outcome {
            if matches!(scn.servers.get(*server as usize).and_then(|s| s.udp.as_ref()), Some(UdpBeh::Answer { d }) if *d > scn.connect_timeout) {
                j.rep.count("fs_slow_udp_answers");
            }
        }
        if matches!(c.outcome, Outcome::Ok { tc: false, .. }) && out.log.iter().any(|e| e.kind == "tcp-connect-timeout" && e.t <= c.end) {
            j.rep.count("fs_connect_hang_then_healthy_answers");
        }
        if busy_family {
            if let Outcome::Ok { server, .. } = &c.outcome {
                if *server != 0 {
                    j.rep.count("fs_busy_diverted_to_other_server");
                }
            }
        }

        // availability
        let good = kind == "ok";
        // coarse class of what came back instead (part of the signatures)
        let got = match kind.as_str() {
            "ok-tc" => "tc-message",
            k if k.starts_with("nx-") => "nxdomain",
            "err-Timeout" => "timeout",
            _ => "error",
        };
        if exact_ok {
            j.rep.eval();
            match &pred {
                Pred::Answer { t, server, proto, via_tc, tcp_l, slowest, after_conn_timeout } if *t <= budget => {
                    j.rep.count("fs_avail_exact_applicable");
                    let slow_tcp = matches!(tcp_l, Some(l) if *l > scn.connect_timeout);
                    let slow_udp = *proto == 1 && matches!(scn.servers[*server].udp, Some(UdpBeh::Answer { d }) if d > scn.connect_timeout);
                    if slow_udp {
                        j.rep.count("fs_avail_exact_slow_udp");
                    }
                    if *via_tc {
                        j.rep.count("fs_avail_exact_via_tc");
                    }
                    if slow_tcp {
                        j.rep.count("fs_avail_exact_slow_tcp");
                    }
                    if *after_conn_timeout {
                        j.rep.count("fs_avail_exact_after_connect_timeout");
                    }
                    if !good {
                        let (rule, sig) = if *via_tc {
                            ("fs-truncation", format!("tcp-reply-{}-connect_timeout|got={got}", if slow_tcp { "gt" } else { "le" }))
                        } else if slow_tcp {
                            ("fs-slow-tcp", format!("got={got}"))
                        } else if slow_udp {
                            ("fs-slow-udp", format!("got={got}"))
                        } else {
                            ("fs-availability", format!("model=exact|slowest-failure={}|got={got}", slowest.0))
                        };
                        j.viol(
                            rule,
                            &sig,
                            json!({"a healthy answer is reachable within 80 % of the timeout; model (ms)": trace, "T_ms": t, "budget_ms": budget}),
                            observed(&out, c),
                        );
                    }
                }
                Pred::Answer { .. } => j.rep.count("fs_dc_avail_T_beyond_margin"),
                Pred::TrustedNx { .. } => j.rep.count("fs_dc_avail_trusted_nx"),
                Pred::Nothing { why } => j.rep.count(&format!("fs_dc_avail_{why}")),
            }
        } else if let Some(t) = sum {
            j.rep.eval();
            if t <= budget {
                j.rep.count("fs_avail_sum_applicable");
                if !good {
                    let tc = out.log.iter().any(|e| e.what == "tc");
                    j.viol(
                        "fs-availability",
                        &format!("model=sum{}|got={got}", if tc { "|after-truncation" } else { "" }),
                        json!({"every order of attempts reaches a healthy answer within 80 % of the timeout; T_worst_ms": t, "budget_ms": budget}),
                        observed(&out, c),
                    );
                }
            } else {
                j.rep.count("fs_dc_avail_T_beyond_margin");
            }
        } else if busy_demand {
            j.rep.eval();
            j.rep.count("fs_avail_busy_applicable");
            if !good {
                j.viol(
                    "fs-availability",
                    &format!("model=busy-with-healthy-second-server|got={got}"),
                    json!("back-pressure on one server costs no time; a healthy second server answers within the budget"),
                    observed(&out, c),
                );
            }
        } else {
            j.rep.count("fs_dc_avail_not_applicable");
        }
    }
    if let Some(l) = &out.later {
        let kind = okind(scn, &out, &l.outcome);
        j.result_clauses(&out, l, &kind);
        // connection reuse (observation only)
        let new_conn = out.log.iter().any(|e| e.kind == "tcp-connect" && e.t >= l.start);
        let tcp_q = out.log.iter().any(|e| e.kind == "tcp-query" && e.t >= l.start);
        if tcp_q && !new_conn {
            j.rep.count("fs_later_reused_tcp_connection");
        }
    }

    // ---- (vii) sharing
    let single_key = scn.callers.iter().all(|c| c.q == scn.callers[0].q);
    if scn.callers.len() < 2 || !single_key || busy_family {
        return;
    }
    // the caller that started first created the shared lookup
    let first = out.calls.iter().min_by_key(|c| (c.start, c.idx)).unwrap().clone();
    let e_min = out.calls.iter().map(|c| c.end).min().unwrap_or(0);
    if first.end == first.start {
        // a lookup that completes at the instant it started (e.g. the only server refuses the
        // TCP connect at once, inside the creator's first poll): the other callers start "at the
        // very instant an identical lookup completes" and may join it or not — don't-care
        j.rep.count("fs_dc_sharing_zero_time_lookup");
        return;
    }
    if out.calls.iter().all(|c| c.start < e_min) {
        // all k callers are concurrent: they share every pool lookup (with a RetryDnsHandle on top:
        // every attempt), hence complete at the same instant with the same outcome
        for c in out.calls.iter().filter(|c| c.idx != first.idx) {
            j.rep.eval();
            j.rep.count("fs_sharing_joiners");
            if c.start > first.start {
                j.rep.count("fs_sharing_joiners_staggered");
            }
            if c.end != first.end || c.outcome != first.outcome {
                // structural discriminator: was one of the two handed the result of an already
                // completed shared lookup by a *retry* (a pool lookup that is not the caller's
                // first, starts at the completion instant and ends at once)?
                let zero_retry = |idx: usize| {
                    let mine: Vec<&full::Attempt> = out.attempts.iter().filter(|a| a.caller == idx as i32).collect();
                    mine.iter().skip(1).any(|a| a.end == Some(a.start))
                };
                let sig = if scn.retry.is_some() && (zero_retry(c.idx) || zero_retry(first.idx)) {
                    "retry-attempt-served-from-completed-shared-lookup"
                } else if c.end != first.end {
                    "joiner-completion-time-differs"
                } else {
                    "joiner-outcome-differs"
                };
                j.viol("fs-sharing", sig, json!({"all concurrent identical callers complete together with the same outcome": call_json(&first)}), observed(&out, c));
            }
        }
    } else {
        j.rep.count("fs_dc_sharing_not_all_concurrent");
    }
    if scn.single_key_at_zero() {
        let c0 = &out.calls[0];
        let solo = match mon::catch(|| full::run(scn, &scn.callers[..1], false)) {
            Ok(o) => o,
            Err(_) => return,
        };
        if solo.stuck || solo.runaway || solo.calls.is_empty() {
            return;
        }
        j.rep.eval();
        j.rep.count("fs_sharing_compared");
        // events at the completion instant itself are not compared: what a background task still
        // gets to do at that instant (e.g. write the query of an abandoned parallel TCP request)
        // depends on scheduling after the result is out
        let mine: Vec<FEv> = out.log.iter().filter(|e| e.t < c0.end).cloned().collect();
        let theirs: Vec<FEv> = solo.log.iter().filter(|e| e.t < solo.calls[0].end).cloned().collect();
        let (cm, cs) = (counts(&mine), counts(&theirs));
        let s0 = &solo.calls[0];
        let same_res = c0.end == s0.end && c0.outcome == s0.outcome;
        if cm != cs || !same_res {
            let more = cm.iter().any(|(k, n)| cs.get(k).copied().unwrap_or(0) < *n);
            let sig = if cm != cs {
                if more {
                    "more-upstream-exchanges-than-one-caller"
                } else {
                    "fewer-upstream-exchanges-than-one-caller"
                }
            } else {
                "first-caller-result-differs-from-one-caller"
            };
            j.viol(
                "fs-sharing",
                sig,
                json!({"one caller alone": {"result": call_json(s0), "upstream": counts_json(&cs), "socket_log": log_json(&solo.log)}}),
                json!({"k callers": {"result": call_json(c0), "upstream": counts_json(&cm)}, "detail": observed(&out, c0)}),
            );
        }
    }
}

/// debugging aid for `--replay FILE --dump=1`
pub fn dump(scn: &FScn) {
    let out = full::run(scn, &scn.callers, scn.later);
    for c in out.calls.iter().chain(out.later.iter()) {
        eprintln!("{}", call_json(c));
    }
    for a in &out.attempts {
        eprintln!("pool lookup: caller {} start {} end {:?}", a.caller, a.start, a.end);
    }
    for e in &out.log {
        eprintln!("{}", e.json());
    }
    let (p, trace) = exact(scn);
    eprintln!("exact model: {p:?} {trace:?}; sum bound: {:?}", sum_bound(scn));
}
